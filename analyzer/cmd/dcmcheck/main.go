// dcmcheck decides the claimed properties of go-dicom-codecs by static analysis
// of /repo's current working tree. See /verif/DESIGN.md.
package main

import (
	"encoding/json"
	"flag"
	"fmt"
	"os"
	"path/filepath"
	"runtime/debug"
	"strconv"
	"time"

	"dcmcheck/internal/load"
	"dcmcheck/internal/props"
	"dcmcheck/internal/report"
)

func main() {
	prop := flag.String("prop", "", "property id (C04 ...)")
	tier := flag.String("tier", "quick", "quick|thorough")
	repo := flag.String("repo", "/repo", "repository working tree")
	verif := flag.String("verif", "/verif", "verif directory (evidence, reports, known findings)")
	goarch := flag.String("goarch", "", "GOARCH override")
	goos := flag.String("goos", "", "GOOS override")
	useCHA := flag.Bool("cha", false, "use CHA call graph")
	tests := flag.Bool("tests", false, "load test packages too")
	noEvidence := flag.Bool("no-evidence", false, "write evidence/reports to a temp dir (used by sub-runs)")
	dump := flag.String("dump", "", "debug dump selector")
	flag.Parse()
	t0 := time.Now()
	seed := 0
	if s := os.Getenv("VERIF_SEED"); s != "" {
		seed, _ = strconv.Atoi(s)
	}
	run, ok := props.Registry[*prop]
	if !ok {
		fmt.Fprintf(os.Stderr, "unknown property %q\n", *prop)
		os.Exit(2)
	}
	exit := 2
	func() {
		defer func() {
			if r := recover(); r != nil {
				fmt.Printf("CHECK-ERROR property=%s analysis panic: %v\n%s\n", *prop, r, debug.Stack())
				exit = 2
			}
		}()
		cfg := load.Config{
			RepoDir:     *repo,
			ControlsSrc: filepath.Join(*verif, "analyzer", "testdata", "controls"),
			GOOS:        *goos,
			GOARCH:      *goarch,
			Tests:       *tests,
			CHA:         *useCHA,
			NeedSSA:     true,
		}
		p, err := load.Load(cfg)
		if err != nil {
			fmt.Printf("CHECK-ERROR property=%s load failed: %v\n", *prop, err)
			exit = 2
			return
		}
		if n := len(p.LibPackages()); n < 20 {
			fmt.Printf("CHECK-ERROR property=%s only %d library packages loaded (expected >= 20)\n", *prop, n)
			exit = 2
			return
		}
		c := report.NewCollector(*prop)
		ctx := &props.Ctx{P: p, C: c, Tier: *tier, Dump: *dump}
		info := run(ctx)
		if len(*dump) > 5 && (*dump)[:5] == "obls:" {
			for _, o := range c.Obls {
				if o.Rule == (*dump)[5:] {
					fmt.Printf("OBL %-12s %s | %s | %s\n      %s\n", o.Status, o.Func, o.Construct, o.Pos, o.Detail)
				}
			}
		}
		out := *verif
		if *noEvidence {
			out, _ = os.MkdirTemp("", "dcmcheck-sub")
			defer os.RemoveAll(out)
			// known findings still come from the real verif dir
			if b, err := os.ReadFile(filepath.Join(*verif, "known_findings.json")); err == nil {
				os.WriteFile(filepath.Join(out, "known_findings.json"), b, 0o644)
			}
		}
		extra := map[string]any{
			"packages_loaded":  len(p.ByPath),
			"library_packages": len(p.LibPackages()),
			"control_packages": len(p.ControlPackages()),
			"functions_total":  len(p.AllFuncs),
			"load_s":           p.LoadSecs,
			"goos":             *goos,
			"goarch":           *goarch,
			"callgraph":        map[bool]string{false: "vta", true: "cha"}[*useCHA],
			"does_not_cover":   info.DoesNotCover,
		}
		for k, v := range info.Extra {
			extra[k] = v
		}
		if st := os.Getenv("VERIF_SELFTEST_JSON"); st != "" {
			if b, err := os.ReadFile(st); err == nil {
				var rows []map[string]any
				if json.Unmarshal(b, &rows) == nil {
					ok := 0
					for _, r := range rows {
						if r["status"] == "OK" {
							ok++
						}
					}
					extra["mutation_selftest"] = map[string]any{"entries": len(rows), "behaved_as_expected": ok, "results": rows}
				}
			}
		}
		if vs := os.Getenv("VERIF_VARIANTS"); vs != "" {
			extra["variants_also_run"] = vs
		}
		exit = c.Finish(out, *tier, seed, time.Since(t0), info.Explanation, info.Trusted, info.Assumptions, extra)
	}()
	os.Exit(exit)
}
