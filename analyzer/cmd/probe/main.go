// probe: development aid — lists external callees used by library code.
package main

import (
	"fmt"
	"sort"

	"golang.org/x/tools/go/ssa"

	"dcmcheck/internal/load"
)

func main() {
	p, err := load.Load(load.Config{RepoDir: "/repo", NeedSSA: true})
	if err != nil {
		panic(err)
	}
	ext := map[string]int{}
	inv := map[string]int{}
	for fn := range p.AllFuncs {
		if !load.IsLib(load.FuncPkgPath(fn)) {
			continue
		}
		for _, b := range fn.Blocks {
			for _, ins := range b.Instrs {
				c, ok := ins.(ssa.CallInstruction)
				if !ok {
					continue
				}
				cc := c.Common()
				if cc.IsInvoke() {
					inv[cc.Value.Type().String()+"."+cc.Method.Name()]++
					continue
				}
				if sc := cc.StaticCallee(); sc != nil {
					if !load.IsModule(load.FuncPkgPath(sc)) {
						ext[sc.String()]++
					}
				} else if _, ok := cc.Value.(*ssa.Builtin); ok {
					ext["builtin "+cc.Value.Name()]++
				} else {
					ext["dynamic "+cc.Value.Type().String()]++
				}
			}
		}
	}
	pr := func(m map[string]int) {
		var ks []string
		for k := range m {
			ks = append(ks, k)
		}
		sort.Strings(ks)
		for _, k := range ks {
			fmt.Printf("%5d %s\n", m[k], k)
		}
	}
	fmt.Println("== external static callees / builtins / dynamic")
	pr(ext)
	fmt.Println("== invokes")
	pr(inv)
}
