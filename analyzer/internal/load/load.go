// Package load loads /repo's current working tree (plus the positive-control
// packages, through a go/packages overlay) into a type-checked SSA program with
// a call graph, and resolves the anchors every rule needs.
package load

import (
	"fmt"
	"go/token"
	"go/types"
	"os"
	"path/filepath"
	"sort"
	"strings"
	"time"

	"golang.org/x/tools/go/callgraph"
	"golang.org/x/tools/go/callgraph/cha"
	"golang.org/x/tools/go/callgraph/vta"
	"golang.org/x/tools/go/packages"
	"golang.org/x/tools/go/ssa"
	"golang.org/x/tools/go/ssa/ssautil"
)

const (
	ModPath     = "github.com/cocosip/go-dicom-codecs"
	DicomPath   = "github.com/cocosip/go-dicom"
	ControlsDir = "zz_verif_controls"
)

// Config selects what is loaded.
type Config struct {
	RepoDir     string
	ControlsSrc string // directory holding control packages (sub-directories of .go files)
	GOOS        string
	GOARCH      string
	Tests       bool
	CHA         bool // use the CHA graph instead of VTA (superset of edges)
	NeedSSA     bool
}

// Program is everything the engines work on.
type Program struct {
	Cfg           Config
	Fset          *token.FileSet
	Pkgs          []*packages.Package          // roots (module packages + controls)
	ByPath        map[string]*packages.Package // every loaded package incl. deps
	SSA           *ssa.Program
	SSAPkgs       map[string]*ssa.Package
	CG            *callgraph.Graph
	AllFuncs      map[*ssa.Function]bool
	LoadSecs      float64
	NumTypeErrors int
	downMemo      map[*ssa.Function]downInfo
	fnUses        map[*ssa.Function][]fnUse
}

// IsLib reports whether the package path is in library scope L (DESIGN §2).
func IsLib(path string) bool {
	if !strings.HasPrefix(path, ModPath+"/") {
		return false
	}
	rel := strings.TrimPrefix(path, ModPath+"/")
	if strings.HasPrefix(rel, ControlsDir) {
		return false
	}
	for _, p := range []string{"cmd/", "examples/", "jpeg2000/testdata", "jpeg2000/validation"} {
		if strings.HasPrefix(rel, p) || rel == strings.TrimSuffix(p, "/") {
			return false
		}
	}
	return true
}

// IsControl reports whether the package is one of the positive-control packages.
func IsControl(path string) bool {
	return strings.HasPrefix(path, ModPath+"/"+ControlsDir)
}

// IsModule reports whether path belongs to the repository module (any scope).
func IsModule(path string) bool {
	return path == ModPath || strings.HasPrefix(path, ModPath+"/")
}

// Load type-checks the working tree and builds SSA + call graph.
func Load(cfg Config) (*Program, error) {
	t0 := time.Now()
	overlay := map[string][]byte{}
	if cfg.ControlsSrc != "" {
		err := filepath.Walk(cfg.ControlsSrc, func(p string, info os.FileInfo, err error) error {
			if err != nil {
				return err
			}
			if info.IsDir() || !strings.HasSuffix(p, ".go") {
				return nil
			}
			rel, _ := filepath.Rel(cfg.ControlsSrc, p)
			b, err := os.ReadFile(p)
			if err != nil {
				return err
			}
			overlay[filepath.Join(cfg.RepoDir, ControlsDir, rel)] = b
			return nil
		})
		if err != nil {
			return nil, fmt.Errorf("controls: %w", err)
		}
	}
	if _, err := os.Stat("/opt/veriftools/go1.26.8/bin/go"); err == nil && !strings.HasPrefix(os.Getenv("PATH"), "/opt/veriftools/go1.26.8/bin") {
		// go/packages resolves the go command through this process's PATH
		os.Setenv("PATH", "/opt/veriftools/go1.26.8/bin:"+os.Getenv("PATH"))
	}
	env := os.Environ()
	if cfg.GOOS != "" {
		env = append(env, "GOOS="+cfg.GOOS)
	}
	if cfg.GOARCH != "" {
		env = append(env, "GOARCH="+cfg.GOARCH)
	}
	env = append(env, "GOWORK=off", "GOFLAGS=-mod=mod", "GOPROXY=off", "GOSUMDB=off", "GOTOOLCHAIN=local", "CGO_ENABLED=0")
	mode := packages.LoadAllSyntax
	pcfg := &packages.Config{
		Mode:    mode,
		Dir:     cfg.RepoDir,
		Env:     env,
		Tests:   cfg.Tests,
		Overlay: overlay,
	}
	roots, err := packages.Load(pcfg, "./...")
	if err != nil {
		return nil, fmt.Errorf("packages.Load: %w", err)
	}
	if len(roots) == 0 {
		return nil, fmt.Errorf("no packages loaded")
	}
	p := &Program{Cfg: cfg, Pkgs: roots, ByPath: map[string]*packages.Package{}, SSAPkgs: map[string]*ssa.Package{}}
	nerr := 0
	packages.Visit(roots, nil, func(pk *packages.Package) {
		if _, ok := p.ByPath[pk.PkgPath]; !ok || pk.ID == pk.PkgPath {
			p.ByPath[pk.PkgPath] = pk
		}
		if IsModule(pk.PkgPath) || strings.HasPrefix(pk.PkgPath, DicomPath) {
			for _, e := range pk.Errors {
				fmt.Fprintf(os.Stderr, "load error: %s: %v\n", pk.PkgPath, e)
				nerr++
			}
		}
		if pk.Fset != nil {
			p.Fset = pk.Fset
		}
	})
	p.NumTypeErrors = nerr
	if nerr > 0 {
		return p, fmt.Errorf("%d type/load errors in module packages", nerr)
	}
	if cfg.NeedSSA {
		prog, _ := ssautil.AllPackages(roots, ssa.InstantiateGenerics)
		prog.Build()
		p.SSA = prog
		for _, sp := range prog.AllPackages() {
			if sp != nil && sp.Pkg != nil {
				if _, ok := p.SSAPkgs[sp.Pkg.Path()]; !ok {
					p.SSAPkgs[sp.Pkg.Path()] = sp
				}
			}
		}
		p.AllFuncs = ssautil.AllFunctions(prog)
		chaG := cha.CallGraph(prog)
		if cfg.CHA {
			p.CG = chaG
		} else {
			p.CG = vta.CallGraph(p.AllFuncs, chaG)
		}
	}
	p.LoadSecs = time.Since(t0).Seconds()
	return p, nil
}

// LibPackages returns the packages.Package list of library scope, sorted by path.
func (p *Program) LibPackages() []*packages.Package {
	var out []*packages.Package
	seen := map[string]bool{}
	for _, pk := range p.Pkgs {
		if IsLib(pk.PkgPath) && !seen[pk.PkgPath] && !strings.HasSuffix(pk.ID, ".test") && !strings.Contains(pk.ID, " [") {
			seen[pk.PkgPath] = true
			out = append(out, pk)
		}
	}
	sort.Slice(out, func(i, j int) bool { return out[i].PkgPath < out[j].PkgPath })
	return out
}

// ControlPackages returns the positive-control packages.
func (p *Program) ControlPackages() []*packages.Package {
	var out []*packages.Package
	for _, pk := range p.Pkgs {
		if IsControl(pk.PkgPath) {
			out = append(out, pk)
		}
	}
	sort.Slice(out, func(i, j int) bool { return out[i].PkgPath < out[j].PkgPath })
	return out
}

// ScopePackages = library + controls (rules run on both; controls must fire).
func (p *Program) ScopePackages() []*packages.Package {
	return append(p.LibPackages(), p.ControlPackages()...)
}

// InScope reports whether fn belongs to a library or control package.
func InScope(fn *ssa.Function) bool {
	pk := FuncPkgPath(fn)
	return IsLib(pk) || IsControl(pk)
}

// FuncPkgPath returns the package path owning fn (resolving closures and
// instantiations to their origin).
func FuncPkgPath(fn *ssa.Function) string {
	for fn != nil {
		if fn.Pkg != nil && fn.Pkg.Pkg != nil {
			return fn.Pkg.Pkg.Path()
		}
		if o := fn.Origin(); o != nil && o != fn {
			fn = o
			continue
		}
		if fn.Parent() != nil {
			fn = fn.Parent()
			continue
		}
		if fn.Object() != nil && fn.Object().Pkg() != nil {
			return fn.Object().Pkg().Path()
		}
		// synthetic wrapper / bound method: use the receiver's or object's package
		if fn.Signature != nil && fn.Signature.Recv() != nil {
			if n := NamedOf(fn.Signature.Recv().Type()); n != nil && n.Obj().Pkg() != nil {
				return n.Obj().Pkg().Path()
			}
		}
		return ""
	}
	return ""
}

// NamedOf strips pointers and returns the named type, or nil.
func NamedOf(t types.Type) *types.Named {
	for {
		switch x := t.(type) {
		case *types.Pointer:
			t = x.Elem()
		case *types.Named:
			return x
		case *types.Alias:
			t = types.Unalias(x)
		default:
			return nil
		}
	}
}

// CodecInterface resolves go-dicom's codec.Codec interface.
func (p *Program) CodecInterface() (*types.Interface, error) {
	pk := p.ByPath[DicomPath+"/pkg/imaging/codec"]
	if pk == nil || pk.Types == nil {
		return nil, fmt.Errorf("anchor unresolved: go-dicom codec package not loaded")
	}
	obj := pk.Types.Scope().Lookup("Codec")
	if obj == nil {
		return nil, fmt.Errorf("anchor unresolved: codec.Codec")
	}
	it, ok := obj.Type().Underlying().(*types.Interface)
	if !ok {
		return nil, fmt.Errorf("anchor unresolved: codec.Codec is not an interface")
	}
	return it, nil
}

// CodecTypes returns every named type in scope whose pointer type implements codec.Codec.
func (p *Program) CodecTypes() ([]*types.Named, error) {
	it, err := p.CodecInterface()
	if err != nil {
		return nil, err
	}
	var out []*types.Named
	for _, pk := range p.ScopePackages() {
		sc := pk.Types.Scope()
		for _, name := range sc.Names() {
			tn, ok := sc.Lookup(name).(*types.TypeName)
			if !ok || tn.IsAlias() {
				continue
			}
			n, ok := tn.Type().(*types.Named)
			if !ok {
				continue
			}
			if _, isIface := n.Underlying().(*types.Interface); isIface {
				continue
			}
			if types.Implements(types.NewPointer(n), it) || types.Implements(n, it) {
				out = append(out, n)
			}
		}
	}
	return out, nil
}

// Method returns the SSA function for method name of named type n (pointer or value receiver).
func (p *Program) Method(n *types.Named, name string) *ssa.Function {
	for _, t := range []types.Type{types.NewPointer(n), n} {
		ms := p.SSA.MethodSets.MethodSet(t)
		for i := 0; i < ms.Len(); i++ {
			sel := ms.At(i)
			if sel.Obj().Name() == name {
				return p.SSA.MethodValue(sel)
			}
		}
	}
	return nil
}

// Pos renders a position relative to the repo root.
func (p *Program) Pos(pos token.Pos) string {
	if !pos.IsValid() || p.Fset == nil {
		return "-"
	}
	ps := p.Fset.Position(pos)
	fn := ps.Filename
	if rel, err := filepath.Rel(p.Cfg.RepoDir, fn); err == nil && !strings.HasPrefix(rel, "..") {
		fn = rel
	}
	return fmt.Sprintf("%s:%d", fn, ps.Line)
}

// FuncName gives a stable readable name for a function: pkg-relative path + receiver + name.
func FuncName(fn *ssa.Function) string {
	if fn == nil {
		return "<nil>"
	}
	s := fn.String()
	s = strings.ReplaceAll(s, ModPath+"/", "")
	return s
}

// fnUse is one place where a function appears as a value (not as the callee of a static call).
type fnUse struct {
	in  *ssa.Function
	ins ssa.Instruction
}

// buildFnUses indexes, for every function of the module (and the controls), where it is used as a
// value: operand of MakeClosure (closures, bound-method wrappers) or a plain function operand.
func (p *Program) buildFnUses() {
	p.fnUses = map[*ssa.Function][]fnUse{}
	var rands []*ssa.Value
	for fn := range p.AllFuncs {
		if fn.Blocks == nil || !(InScope(fn) || IsControl(FuncPkgPath(fn))) {
			continue
		}
		for _, b := range fn.Blocks {
			for _, ins := range b.Instrs {
				rands = ins.Operands(rands[:0])
				for _, op := range rands {
					if op == nil || *op == nil {
						continue
					}
					tf, ok := (*op).(*ssa.Function)
					if !ok {
						continue
					}
					if call, isCall := ins.(ssa.CallInstruction); isCall && call.Common().Value == ssa.Value(tf) {
						continue // static call, not a value
					}
					p.fnUses[tf] = append(p.fnUses[tf], fnUse{fn, ins})
				}
			}
		}
	}
}

// UsedAsValue reports whether fn is ever used as a function value (closure, table entry, callback)
// rather than only called directly.
func (p *Program) UsedAsValue(fn *ssa.Function) bool {
	if p.fnUses == nil {
		p.buildFnUses()
	}
	return fn.Parent() != nil || len(p.fnUses[fn]) > 0
}

// downwardCreators: if every place where c becomes a function value hands that value straight down
// as an argument of a static call whose parameter is only ever invoked (or handed down the same way,
// two levels) — or calls it on the spot — the value cannot outlive the activation that created it.
// Returns the creating functions; ok=false when some use lets the value escape (stored, returned,
// converted to an interface, passed to unknown code) or c is never used as a value.
func (p *Program) downwardCreators(c *ssa.Function) ([]*ssa.Function, bool) {
	if r, ok := p.downMemo[c]; ok {
		return r.creators, r.ok
	}
	if p.downMemo == nil {
		p.downMemo = map[*ssa.Function]downInfo{}
	}
	if p.fnUses == nil {
		p.buildFnUses()
	}
	p.downMemo[c] = downInfo{}
	uses := p.fnUses[c]
	if len(uses) == 0 {
		return nil, false
	}
	var callOnly func(prm *ssa.Parameter, depth int) bool
	callOnly = func(prm *ssa.Parameter, depth int) bool {
		if prm.Referrers() == nil {
			return true
		}
		for _, r := range *prm.Referrers() {
			switch x := r.(type) {
			case *ssa.Call:
				if x.Call.Value == ssa.Value(prm) {
					continue // invoked
				}
				sc := x.Call.StaticCallee()
				if sc == nil || sc.Blocks == nil || depth >= 2 || len(x.Call.Args) != len(sc.Params) {
					return false
				}
				for i, a := range x.Call.Args {
					if a == ssa.Value(prm) && !callOnly(sc.Params[i], depth+1) {
						return false
					}
				}
			case *ssa.DebugRef:
			default:
				return false
			}
		}
		return true
	}
	// handedDown: value v (the function itself, a closure over it, or a conversion of either) is used
	// only as a handed-down argument / immediate callee
	var handedDown func(v ssa.Value, depth int) bool
	handedDown = func(v ssa.Value, depth int) bool {
		refs := v.Referrers()
		if refs == nil || depth > 3 {
			return false
		}
		for _, r := range *refs {
			switch x := r.(type) {
			case *ssa.ChangeType:
				if !handedDown(x, depth+1) {
					return false
				}
			case *ssa.Call:
				if x.Call.Value == v {
					continue
				}
				sc := x.Call.StaticCallee()
				if sc == nil || sc.Blocks == nil || len(x.Call.Args) != len(sc.Params) {
					return false
				}
				for i, a := range x.Call.Args {
					if a == v && !callOnly(sc.Params[i], 0) {
						return false
					}
				}
			case *ssa.DebugRef:
			default:
				return false
			}
		}
		return true
	}
	seenCr := map[*ssa.Function]bool{}
	var creators []*ssa.Function
	for _, u := range uses {
		switch x := u.ins.(type) {
		case *ssa.MakeClosure:
			if x.Fn != ssa.Value(c) || !handedDown(x, 0) {
				return nil, false
			}
		case *ssa.ChangeType:
			if !handedDown(x, 0) {
				return nil, false
			}
		case *ssa.Call:
			// the bare function as an argument
			sc := x.Call.StaticCallee()
			if sc == nil || sc.Blocks == nil || len(x.Call.Args) != len(sc.Params) {
				return nil, false
			}
			for i, a := range x.Call.Args {
				if a == ssa.Value(c) && !callOnly(sc.Params[i], 0) {
					return nil, false
				}
			}
		default:
			return nil, false
		}
		if !seenCr[u.in] {
			seenCr[u.in] = true
			creators = append(creators, u.in)
		}
	}
	p.downMemo[c] = downInfo{creators, true}
	return creators, true
}

type downInfo struct {
	creators []*ssa.Function
	ok       bool
}

// Reachable returns the set of functions reachable in the call graph from roots.
func (p *Program) Reachable(roots []*ssa.Function) map[*ssa.Function]bool {
	return p.ReachableSkip(roots, nil)
}

// ReachableSkip is Reachable with some call-graph edges ignored.
func (p *Program) ReachableSkip(roots []*ssa.Function, skip map[*callgraph.Edge]string) map[*ssa.Function]bool {
	seen := map[*ssa.Function]bool{}
	pending := map[*ssa.Function][]*ssa.Function{}
	var stack []*ssa.Function
	for _, r := range roots {
		if r != nil && !seen[r] {
			seen[r] = true
			stack = append(stack, r)
		}
	}
	for len(stack) > 0 {
		f := stack[len(stack)-1]
		stack = stack[:len(stack)-1]
		// function values this function creates and hands down become callable now
		for _, c := range pending[f] {
			if !seen[c] {
				seen[c] = true
				stack = append(stack, c)
			}
		}
		delete(pending, f)
		n := p.CG.Nodes[f]
		if n == nil {
			continue
		}
		for _, e := range n.Out {
			if _, sk := skip[e]; sk {
				continue
			}
			c := e.Callee.Func
			if c != nil && !seen[c] {
				// A function value that never escapes the activation that creates it (it is only handed
				// down as a call argument to parameters that are only invoked) can run only while its
				// creator is on the stack: if no creator is reachable from these roots, neither is the
				// function. (The call graph is context-insensitive: a shared higher-order helper such
				// as forEachFrame(src, visit) otherwise links Decode to the closure Encode passes.)
				if e.Site != nil && e.Site.Common().StaticCallee() == nil && !e.Site.Common().IsInvoke() {
					if creators, ok := p.downwardCreators(c); ok {
						live := false
						for _, cr := range creators {
							if seen[cr] {
								live = true
							}
						}
						if !live {
							for _, cr := range creators {
								pending[cr] = append(pending[cr], c)
							}
							continue
						}
					}
				}
				seen[c] = true
				stack = append(stack, c)
			}
		}
		// closures defined inside f are reachable when f is (MakeClosure creates them)
		for _, an := range f.AnonFuncs {
			if !seen[an] {
				seen[an] = true
				stack = append(stack, an)
			}
		}
	}
	return seen
}
