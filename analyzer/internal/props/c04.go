package props

import (
	"fmt"
	"go/constant"
	"go/token"
	"go/types"
	"sort"
	"strings"

	"golang.org/x/tools/go/ssa"

	"dcmcheck/internal/load"
	"dcmcheck/internal/report"
)

func init() {
	Registry["C04"] = func(c *Ctx) Info { return runProgression(c, "C04") }
	Registry["C19"] = func(c *Ctx) Info { return runProgression(c, "C19") }
}

// EXHAUST-PROG (DESIGN §4 C04): the packet encoder and the packet decoder enumerate packets in
// the same order for every progression constant.
//
//   - every function that dispatches on a value of type t2.ProgressionOrder handles every declared
//     constant and (for the encoder / decoder dispatchers) ends in an error default;
//   - for each constant, the function the encoder dispatches to and the one the decoder
//     dispatches to have the same loop-nest signature: the outer-to-inner order of the loops whose
//     induction variables are the layer / resolution / component / precinct arguments of the
//     per-packet call.

type progDispatch struct {
	fn      *ssa.Function
	cases   map[int64][]*ssa.Function // constant -> callees in that case
	hasDef  bool                      // default branch returns a non-nil error
	tagExpr string
}

func progressionType(c *Ctx) (*types.Named, map[int64]string, error) {
	pk := c.P.ByPath[load.ModPath+"/jpeg2000/t2"]
	if pk == nil {
		return nil, nil, fmt.Errorf("anchor unresolved: package jpeg2000/t2")
	}
	tn, _ := pk.Types.Scope().Lookup("ProgressionOrder").(*types.TypeName)
	if tn == nil {
		return nil, nil, fmt.Errorf("anchor unresolved: t2.ProgressionOrder")
	}
	named := tn.Type().(*types.Named)
	consts := map[int64]string{}
	for _, name := range pk.Types.Scope().Names() {
		if k, ok := pk.Types.Scope().Lookup(name).(*types.Const); ok && types.Identical(k.Type(), named) {
			if v, ok := constant.Int64Val(k.Val()); ok {
				consts[v] = name
			}
		}
	}
	return named, consts, nil
}

// findDispatches: functions comparing a ProgressionOrder value for equality with constants.
func findDispatches(c *Ctx, named *types.Named) []*progDispatch {
	var out []*progDispatch
	for _, fn := range c.scopeFuncs() {
		d := &progDispatch{fn: fn, cases: map[int64][]*ssa.Function{}}
		var tag ssa.Value
		for _, b := range fn.Blocks {
			cond, ok := ifCond(b).(*ssa.BinOp)
			if !ok || cond.Op != token.EQL {
				continue
			}
			var k *ssa.Const
			var v ssa.Value
			if kk, ok := cond.Y.(*ssa.Const); ok {
				k, v = kk, cond.X
			} else if kk, ok := cond.X.(*ssa.Const); ok {
				k, v = kk, cond.Y
			}
			if k == nil || !types.Identical(v.Type(), named) {
				continue
			}
			tag = v
			kv := k.Int64()
			// callees in the true branch (and blocks it alone dominates)
			tb := b.Succs[0]
			for _, x := range fn.Blocks {
				if x != tb && !(tb.Dominates(x) && len(tb.Preds) == 1) {
					continue
				}
				for _, ins := range x.Instrs {
					if call, ok := ins.(ssa.CallInstruction); ok {
						if sc := call.Common().StaticCallee(); sc != nil && sc.Blocks != nil && load.InScope(sc) {
							d.cases[kv] = append(d.cases[kv], sc)
						}
					}
					// a function value selected in this branch (return pd.decodeLRCP)
					if mc, ok := ins.(*ssa.MakeClosure); ok {
						if f, ok := mc.Fn.(*ssa.Function); ok && f.Blocks != nil {
							d.cases[kv] = append(d.cases[kv], f)
						}
					}
					if ret, ok := ins.(*ssa.Return); ok {
						for _, r := range ret.Results {
							if f, ok := r.(*ssa.Function); ok && f.Blocks != nil {
								d.cases[kv] = append(d.cases[kv], f)
							}
						}
					}
				}
			}
			if _, ok := d.cases[kv]; !ok {
				d.cases[kv] = nil
			}
			// default: the false successor of the last comparison in the chain
			fb := b.Succs[1]
			if c2, ok := ifCond(fb).(*ssa.BinOp); !ok || c2.Op != token.EQL {
				ei := errorResultIndex(fn)
				if ei >= 0 {
					all := true
					rets := returnsReachable(fb, nil)
					for _, r := range rets {
						if !definitelyNonNilError(r, ei) {
							all = false
						}
					}
					d.hasDef = all && len(rets) > 0
				}
			}
		}
		if tag != nil && len(d.cases) >= 2 {
			d.tagExpr = addrExpr(tag)
			out = append(out, d)
		}
	}
	out = append(out, findTableDispatches(c, named)...)
	return out
}

// elemTypeOf: the element type of an array / slice / map (through pointers), underlying.
func elemTypeOf(t types.Type) types.Type {
	for {
		switch x := t.Underlying().(type) {
		case *types.Pointer:
			t = x.Elem()
			continue
		case *types.Array:
			return x.Elem().Underlying()
		case *types.Slice:
			return x.Elem().Underlying()
		case *types.Map:
			return x.Elem().Underlying()
		}
		return t.Underlying()
	}
}

// fnOfValue: the function a function-typed value denotes (method expression, thunk, closure).
func fnOfValue(v ssa.Value) *ssa.Function {
	switch x := v.(type) {
	case *ssa.Function:
		return x
	case *ssa.MakeClosure:
		f, _ := x.Fn.(*ssa.Function)
		return f
	case *ssa.ChangeType:
		return fnOfValue(x.X)
	}
	return nil
}

// findTableDispatches: a dispatch written as a table of functions indexed (array / slice) or keyed
// (map) by a ProgressionOrder value — package-level or local — whose selected entry is called.
func findTableDispatches(c *Ctx, named *types.Named) []*progDispatch {
	isProg := func(v ssa.Value) bool {
		v = stripConv(v)
		return types.Identical(v.Type(), named)
	}
	// entries of a table value: global (filled by the package initialiser) or local
	entriesOf := func(table ssa.Value, user *ssa.Function) map[int64]*ssa.Function {
		out := map[int64]*ssa.Function{}
		var scan []*ssa.Function
		var isTable func(v ssa.Value) bool
		switch t := table.(type) {
		case *ssa.Global:
			if t.Pkg != nil {
				if ini := t.Pkg.Func("init"); ini != nil {
					scan = append(scan, ini)
				}
			}
			isTable = func(v ssa.Value) bool { return v == ssa.Value(t) }
		default:
			scan = append(scan, user)
			isTable = func(v ssa.Value) bool { return v == table }
		}
		for _, f := range scan {
			// maps: find the map values stored into the table variable
			maps := map[ssa.Value]bool{}
			for _, b := range f.Blocks {
				for _, ins := range b.Instrs {
					if st, ok := ins.(*ssa.Store); ok && isTable(st.Addr) {
						maps[st.Val] = true
						// an array literal is built in a local and copied into the variable
						if u, ok := st.Val.(*ssa.UnOp); ok && u.Op == token.MUL {
							maps[u.X] = true
						}
					}
				}
			}
			for _, b := range f.Blocks {
				for _, ins := range b.Instrs {
					switch x := ins.(type) {
					case *ssa.Store:
						ia, ok := x.Addr.(*ssa.IndexAddr)
						if !ok {
							continue
						}
						base := ia.X
						if sl, ok := base.(*ssa.Slice); ok {
							base = sl.X
						}
						if !isTable(base) && !maps[base] {
							continue
						}
						k, ok := ia.Index.(*ssa.Const)
						if !ok || k.Value == nil {
							continue
						}
						if fn := fnOfValue(x.Val); fn != nil {
							out[k.Int64()] = fn
						}
					case *ssa.MapUpdate:
						if !maps[x.Map] && !isTable(x.Map) {
							continue
						}
						k, ok := stripConv(x.Key).(*ssa.Const)
						if !ok || k.Value == nil {
							continue
						}
						if fn := fnOfValue(x.Value); fn != nil {
							out[k.Int64()] = fn
						}
					}
				}
			}
		}
		return out
	}
	var out []*progDispatch
	// (b) a table of structs that carry the functions (progressionWalks[order].visit): the element is
	// looked up in one place and its function fields are called elsewhere
	for _, fn := range c.scopeFuncs() {
		for _, b := range fn.Blocks {
			for _, ins := range b.Instrs {
				var table, index ssa.Value
				switch x := ins.(type) {
				case *ssa.IndexAddr:
					table, index = x.X, x.Index
				case *ssa.Index:
					table, index = x.X, x.Index
				case *ssa.Lookup:
					table, index = x.X, x.Index
				default:
					continue
				}
				if !isProg(index) {
					continue
				}
				if u, ok := table.(*ssa.UnOp); ok && u.Op == token.MUL {
					table = u.X
				}
				if sl, ok := table.(*ssa.Slice); ok {
					table = sl.X
				}
				// element type must be a struct with function-typed fields
				et := elemTypeOf(table.Type())
				st, ok := et.(*types.Struct)
				if !ok {
					continue
				}
				d := &progDispatch{fn: fn, cases: map[int64][]*ssa.Function{}, tagExpr: addrExpr(index) + " (table of walkers)", hasDef: true}
				for f := 0; f < st.NumFields(); f++ {
					if _, isFn := st.Field(f).Type().Underlying().(*types.Signature); !isFn {
						continue
					}
					ents, _ := tableEntries(table, f, fn)
					for k, fv := range ents {
						d.cases[k] = append(d.cases[k], fv)
					}
				}
				if len(d.cases) >= 2 {
					out = append(out, d)
				}
			}
		}
	}
	for _, fn := range c.scopeFuncs() {
		for _, b := range fn.Blocks {
			for _, ins := range b.Instrs {
				call, ok := ins.(ssa.CallInstruction)
				if !ok || call.Common().IsInvoke() || call.Common().StaticCallee() != nil {
					continue
				}
				v := call.Common().Value
				if ex, ok := v.(*ssa.Extract); ok {
					v = ex.Tuple
				}
				var table, index ssa.Value
				switch x := v.(type) {
				case *ssa.UnOp:
					if ia, ok := x.X.(*ssa.IndexAddr); ok && x.Op == token.MUL {
						table, index = ia.X, ia.Index
					}
				case *ssa.Lookup:
					table, index = x.X, x.Index
				case *ssa.Index:
					table, index = x.X, x.Index
				}
				if table == nil || !isProg(index) {
					continue
				}
				// a map / slice table is loaded from its variable first
				if u, ok := table.(*ssa.UnOp); ok && u.Op == token.MUL {
					table = u.X
				}
				if sl, ok := table.(*ssa.Slice); ok {
					table = sl.X
				}
				ents := entriesOf(table, fn)
				if len(ents) < 2 {
					continue
				}
				d := &progDispatch{fn: fn, cases: map[int64][]*ssa.Function{}, tagExpr: addrExpr(index) + " (function table)"}
				for k, f := range ents {
					d.cases[k] = []*ssa.Function{f}
				}
				// default: an out-of-table value must not reach the call; reported as observation only
				d.hasDef = true
				out = append(out, d)
			}
		}
	}
	return out
}

// packetDims: if sc is a per-packet function (integer parameters named after all four progression
// dimensions: layer*, res*, comp*, precinct*), the parameter index of each dimension.
func packetDims(sc *ssa.Function) map[string]int {
	if sc == nil || sc.Signature.Params().Len() < 4 {
		return nil
	}
	dims := map[string]int{}
	params := sc.Signature.Params()
	off := len(sc.Params) - params.Len() // receiver
	for i := 0; i < params.Len(); i++ {
		n := strings.ToLower(params.At(i).Name())
		var d string
		switch {
		case strings.HasPrefix(n, "layer"):
			d = "L"
		case strings.HasPrefix(n, "res"):
			d = "R"
		case strings.HasPrefix(n, "comp"):
			d = "C"
		case strings.HasPrefix(n, "precinct") && isIntBasic(params.At(i).Type()):
			d = "P"
		}
		if d != "" {
			if _, dup := dims[d]; !dup {
				dims[d] = off + i
			}
		}
	}
	if len(dims) < 4 {
		return nil
	}
	return dims
}

// loopNest: the loops around one per-packet call, seen from function fn: labels outermost first
// (across the helpers on the way down), and for every dimension not yet bound to a loop the index
// of the parameter of fn that carries it (-1: computed locally, e.g. looked up from a position).
type loopNest struct {
	labels     []string
	unresolved map[string]dimRef
	site       ssa.Instruction
}

// dimRef: where a not-yet-bound dimension enters the function: parameter index, and the field of
// that parameter when the dimensions travel together in a struct (field < 0: the parameter itself).
type dimRef struct{ param, field int }

// dimSource resolves the value v of a dimension inside fn to a parameter (or a field of a struct
// parameter) of fn.
func dimSource(fn *ssa.Function, v ssa.Value) (dimRef, bool) {
	v = stripConv(v)
	if pi := paramIndex(fn, v); pi >= 0 {
		return dimRef{pi, -1}, true
	}
	switch x := v.(type) {
	case *ssa.Field:
		if pi := paramIndex(fn, x.X); pi >= 0 {
			return dimRef{pi, x.Field}, true
		}
	case *ssa.UnOp:
		if x.Op != token.MUL {
			break
		}
		fa, ok := x.X.(*ssa.FieldAddr)
		if !ok {
			break
		}
		// pointer-to-struct parameter, or a by-value parameter spilled to a local
		if pi := paramIndex(fn, fa.X); pi >= 0 {
			return dimRef{pi, fa.Field}, true
		}
		if al, ok := fa.X.(*ssa.Alloc); ok && al.Referrers() != nil {
			for _, r := range *al.Referrers() {
				if st, ok := r.(*ssa.Store); ok && st.Addr == ssa.Value(al) {
					if pi := paramIndex(fn, st.Val); pi >= 0 {
						return dimRef{pi, fa.Field}, true
					}
				}
			}
		}
	}
	return dimRef{}, false
}

// argOfDim: the value that call argument arg carries for ref (the argument itself, or the field of
// the struct literal / struct value passed).
func argOfDim(arg ssa.Value, ref dimRef) ssa.Value {
	if ref.field < 0 {
		return arg
	}
	// struct built in place: t = local T (complit); t.f = v; ... ; arg = *t   (or arg = t for *T)
	var al *ssa.Alloc
	switch x := arg.(type) {
	case *ssa.UnOp:
		if x.Op == token.MUL {
			al, _ = x.X.(*ssa.Alloc)
		}
	case *ssa.Alloc:
		al = x
	}
	if al != nil && al.Referrers() != nil {
		var val ssa.Value
		n := 0
		for _, r := range *al.Referrers() {
			fa, ok := r.(*ssa.FieldAddr)
			if !ok || fa.Field != ref.field || fa.Referrers() == nil {
				continue
			}
			for _, u := range *fa.Referrers() {
				if st, ok := u.(*ssa.Store); ok && st.Addr == ssa.Value(fa) {
					val = st.Val
					n++
				}
			}
		}
		if n == 1 {
			return val
		}
	}
	return nil
}

func stripConv(v ssa.Value) ssa.Value {
	for {
		switch x := v.(type) {
		case *ssa.Convert:
			v = x.X
		case *ssa.ChangeType:
			v = x.X
		default:
			return v
		}
	}
}

// loopNests enumerates the nests of the per-packet calls reachable from fn through static calls
// (helpers that take some of the dimensions as parameters and loop over the others).
func loopNests(fn *ssa.Function, depth int, visiting map[*ssa.Function]bool) []loopNest {
	if depth > 3 || visiting[fn] || fn.Blocks == nil {
		return nil
	}
	visiting[fn] = true
	defer delete(visiting, fn)
	loops := naturalLoops(fn)
	var out []loopNest
	for _, b := range fn.Blocks {
		for _, ins := range b.Instrs {
			call, isCall := ins.(ssa.CallInstruction)
			if !isCall {
				continue
			}
			sc := call.Common().StaticCallee()
			if sc == nil && !call.Common().IsInvoke() {
				// yield(packetCoord{layer: l, res: r, comp: c, precinct: p}): the per-packet step of an
				// iterator-style walker is the call of its yield parameter with the four dimensions
				if _, isParam := call.Common().Value.(*ssa.Parameter); isParam {
					if dv := structLiteralDims(call.Common().Args); dv != nil {
						out = append(out, absorbNest(fn, loops, b, ins, nil, dv, depth))
					}
				}
				continue
			}
			if sc == nil || !load.InScope(sc) || len(call.Common().Args) != len(sc.Params) {
				continue
			}
			var inner []loopNest
			if dims := packetDims(sc); dims != nil {
				un := map[string]dimRef{}
				for d, pi := range dims {
					un[d] = dimRef{pi, -1}
				}
				inner = []loopNest{{unresolved: un, site: ins}}
			} else {
				inner = loopNests(sc, depth+1, visiting)
			}
			for _, in := range inner {
				vals := map[string]ssa.Value{}
				passOn := map[string]dimRef{}
				for d, ref := range in.unresolved {
					if ref.param >= 0 && ref.param < len(call.Common().Args) {
						if v := argOfDim(call.Common().Args[ref.param], ref); v != nil {
							vals[d] = v
						} else if ref.field >= 0 {
							// the struct is passed on as it was received: still carried by a field
							vals[d] = nil
							if r2, ok := dimSource(fn, call.Common().Args[ref.param]); ok && r2.field < 0 {
								passOn[d] = dimRef{r2.param, ref.field}
							}
						}
					}
				}
				n := absorbNest(fn, loops, b, in.site, in.labels, vals, depth)
				for d := range in.unresolved {
					if _, labelled := n.unresolved[d]; !labelled {
						continue
					}
					if ref, ok := passOn[d]; ok && n.unresolved[d].param < 0 {
						n.unresolved[d] = ref
					}
				}
				// dimensions the inner nest still needs but that this call site gives no value for
				for d := range in.unresolved {
					if _, has := vals[d]; !has {
						if _, present := n.unresolved[d]; !present && !contains(n.labels, d) {
							n.unresolved[d] = dimRef{-1, -1}
							if ref, ok := passOn[d]; ok {
								n.unresolved[d] = ref
							}
						}
					}
				}
				if n.site == nil {
					n.site = ins
				}
				out = append(out, n)
			}
		}
	}
	return out
}

func contains(xs []string, x string) bool {
	for _, y := range xs {
		if y == x {
			return true
		}
	}
	return false
}

// absorbNest labels the loops of fn that enclose block b with the dimensions whose values (vals) are
// their induction variables, prepends them to the inner labels, and records where the remaining
// dimensions enter fn.
func absorbNest(fn *ssa.Function, loops []*natLoop, b *ssa.BasicBlock, site ssa.Instruction, innerLabels []string, vals map[string]ssa.Value, depth int) loopNest {
	var encl []*natLoop
	for _, l := range loops {
		if l.Blocks[b] {
			encl = append(encl, l)
		}
	}
	sort.Slice(encl, func(i, j int) bool { return len(encl[i].Blocks) > len(encl[j].Blocks) })
	used := map[string]bool{}
	var labels []string
	for _, l := range encl {
		label := "?"
		for _, d := range []string{"L", "R", "C", "P"} {
			if v, open := vals[d]; open && v != nil && !used[d] && directInduction(v, l) {
				label = d
				break
			}
		}
		if label != "?" {
			used[label] = true
		}
		labels = append(labels, label)
	}
	un := map[string]dimRef{}
	for d, v := range vals {
		if used[d] {
			continue
		}
		un[d] = dimRef{-1, -1}
		if v != nil {
			if ref, ok := dimSource(fn, v); ok {
				un[d] = ref
			}
		}
	}
	return loopNest{labels: append(labels, innerLabels...), unresolved: un, site: site}
}

// structLiteralDims: the call passes a struct built in place whose integer fields are named after
// the four progression dimensions; returns the value stored into each.
func structLiteralDims(args []ssa.Value) map[string]ssa.Value {
	for _, a := range args {
		var al *ssa.Alloc
		switch x := a.(type) {
		case *ssa.UnOp:
			if x.Op == token.MUL {
				al, _ = x.X.(*ssa.Alloc)
			}
		case *ssa.Alloc:
			al = x
		}
		if al == nil || al.Referrers() == nil {
			continue
		}
		tn := namedOfRecv(al.Type())
		if tn == nil {
			continue
		}
		st, ok := tn.Underlying().(*types.Struct)
		if !ok {
			continue
		}
		out := map[string]ssa.Value{}
		for _, r := range *al.Referrers() {
			fa, ok := r.(*ssa.FieldAddr)
			if !ok || fa.Referrers() == nil || !isIntBasic(st.Field(fa.Field).Type()) {
				continue
			}
			n := strings.ToLower(st.Field(fa.Field).Name())
			d := ""
			switch {
			case strings.HasPrefix(n, "layer"):
				d = "L"
			case strings.HasPrefix(n, "res"):
				d = "R"
			case strings.HasPrefix(n, "comp"):
				d = "C"
			case strings.HasPrefix(n, "precinct"):
				d = "P"
			}
			if d == "" {
				continue
			}
			for _, u := range *fa.Referrers() {
				if s2, ok := u.(*ssa.Store); ok && s2.Addr == ssa.Value(fa) {
					out[d] = s2.Val
				}
			}
		}
		if len(out) == 4 {
			return out
		}
	}
	return nil
}

// loopSignature: outer-to-inner labels (L, R, C, P) of the loops around the per-packet call reached
// from fn — in fn itself or split over helpers that receive the outer loop variables as parameters.
func loopSignature(fn *ssa.Function) (sig string, where ssa.Instruction, ok bool) {
	nests := loopNests(fn, 0, map[*ssa.Function]bool{})
	if len(nests) == 0 {
		return "", nil, false
	}
	best := nests[0]
	for _, n := range nests[1:] {
		if len(n.labels) > len(best.labels) {
			best = n
		}
	}
	labels := append([]string{}, best.labels...)
	used := map[string]bool{}
	for _, l := range labels {
		used[l] = true
	}
	// a single unlabeled loop is the one remaining dimension (position loops that look the precinct up)
	var missing []string
	for _, d := range []string{"L", "R", "C", "P"} {
		if !used[d] {
			missing = append(missing, d)
		}
	}
	nq := 0
	for _, l := range labels {
		if l == "?" {
			nq++
		}
	}
	if nq == 1 && len(missing) == 1 {
		for i, l := range labels {
			if l == "?" {
				labels[i] = missing[0]
			}
		}
		nq = 0
	}
	return strings.Join(labels, ""), best.site, nq == 0 && len(labels) == 4
}

func isIntBasic(t types.Type) bool {
	b, ok := t.Underlying().(*types.Basic)
	return ok && b.Info()&types.IsInteger != 0
}

// directInduction: v is the induction variable of loop l (a header phi), or the element of the
// slice a range loop l walks.
func directInduction(v ssa.Value, l *natLoop) bool {
	if v == nil {
		return false
	}
	// a loop variable captured by a closure lives in a per-iteration cell that is assigned once
	// (t = new int (comp); *t = <header phi>): look through the cell
	if u, ok := v.(*ssa.UnOp); ok && u.Op == token.MUL {
		if cell, ok := u.X.(*ssa.Alloc); ok && cell.Referrers() != nil {
			var only ssa.Value
			n := 0
			for _, r := range *cell.Referrers() {
				if st, ok := r.(*ssa.Store); ok && st.Addr == ssa.Value(cell) {
					only = st.Val
					n++
				}
			}
			if n == 1 && l.Blocks[cell.Block()] {
				return directInduction(only, l)
			}
		}
	}
	switch x := v.(type) {
	case *ssa.Phi:
		return x.Block() == l.Header
	case *ssa.UnOp:
		// a loop variable captured by a closure lives in a per-iteration cell: *p, p a header phi
		if p, ok := x.X.(*ssa.Phi); ok && x.Op == token.MUL {
			return p.Block() == l.Header
		}
		// range element: *(&s[i]) with i the header phi (+1)
		if ia, ok := x.X.(*ssa.IndexAddr); ok {
			for u := range backwardSlice(ia.Index, 20) {
				if p, ok := u.(*ssa.Phi); ok && p.Block() == l.Header {
					return true
				}
			}
		}
	case *ssa.Extract:
		if nx, ok := x.Tuple.(*ssa.Next); ok {
			return l.Blocks[nx.Block()] && innermostHeaderOf(nx, l)
		}
	}
	return false
}

func innermostHeaderOf(nx *ssa.Next, l *natLoop) bool { return nx.Block() == l.Header }

func runProgression(c *Ctx, prop string) Info {
	named, consts, err := progressionType(c)
	if err != nil {
		c.C.Fatalf("%v", err)
		return Info{Explanation: "failed"}
	}
	c.C.Floor("progression-constants", len(consts), 5)
	ds := findDispatches(c, named)
	var encD, decD *progDispatch
	var shared []*progDispatch
	nDispatch := 0
	for _, d := range ds {
		ctl := load.IsControl(load.FuncPkgPath(d.fn))
		if !ctl {
			nDispatch++
		}
		// (a) exhaustiveness
		var missing []string
		for v, name := range consts {
			if _, ok := d.cases[v]; !ok {
				missing = append(missing, name)
			}
		}
		sort.Strings(missing)
		construct := "switch " + d.tagExpr
		if !hasSignatureCallees(d) && !ctl {
			// a switch over the progression that selects no packet-enumerating function (error text,
			// logging, naming): whether it lists every constant does not affect the enumeration
			c.add("EXHAUST-PROG", d.fn, construct, report.OutOfScope, c.P.Pos(d.fn.Pos()), "dispatch over the progression order that does not select a packet-enumerating function: not part of the clause")
			continue
		}
		if len(missing) > 0 {
			c.add("EXHAUST-PROG", d.fn, construct, report.Violated, c.P.Pos(d.fn.Pos()), fmt.Sprintf("progression constant(s) %v are not handled by this dispatch: a stream using them is enumerated differently (or not at all) on this side", missing))
		} else {
			c.add("EXHAUST-PROG", d.fn, construct, report.Discharged, c.P.Pos(d.fn.Pos()), fmt.Sprintf("all %d declared constants handled; error default: %v", len(consts), d.hasDef))
		}
		recv := ""
		if d.fn.Signature.Recv() != nil {
			if n := namedOfRecv(d.fn.Signature.Recv().Type()); n != nil {
				recv = n.Obj().Name()
			}
		}
		if ctl {
			continue
		}
		if recv == "PacketEncoder" && hasSignatureCallees(d) {
			encD = d
		}
		if recv == "PacketDecoder" && hasSignatureCallees(d) {
			decD = d
		}
		if recv != "PacketEncoder" && recv != "PacketDecoder" && hasSignatureCallees(d) {
			shared = append(shared, d)
		}
	}
	// one dispatch used by both sides (a shared progression walker): it is the encoder's and the
	// decoder's enumeration at once when methods of both types reach it
	if encD == nil || decD == nil {
		reaches := func(typeName string, target *ssa.Function) bool {
			var roots []*ssa.Function
			for _, fn := range c.scopeFuncs() {
				if fn.Signature.Recv() == nil {
					continue
				}
				if n := namedOfRecv(fn.Signature.Recv().Type()); n != nil && n.Obj().Name() == typeName && n.Obj().Pkg() != nil && n.Obj().Pkg().Path() == load.ModPath+"/jpeg2000/t2" {
					roots = append(roots, fn)
				}
			}
			return c.P.Reachable(roots)[target]
		}
		for _, d := range shared {
			if encD == nil && reaches("PacketEncoder", d.fn) {
				encD = d
			}
			if decD == nil && reaches("PacketDecoder", d.fn) {
				decD = d
			}
		}
	}
	c.C.Floor("EXHAUST-PROG-dispatch", nDispatch, 2)
	pairs := 0
	if encD == nil || decD == nil {
		c.C.Fatalf("anchor unresolved: packet encoder / decoder progression dispatch not found")
	} else {
		var vals []int64
		for v := range consts {
			vals = append(vals, v)
		}
		sort.Slice(vals, func(i, j int) bool { return vals[i] < vals[j] })
		for _, v := range vals {
			name := consts[v]
			es, ef, eok := caseSignature(encD.cases[v])
			dsig, df, dok := caseSignature(decD.cases[v])
			construct := "progression " + name + " (" + fmt.Sprint(v) + ")"
			pairs++
			switch {
			case ef == nil || df == nil:
				c.add("EXHAUST-PROG", encD.fn, construct, report.Violated, c.P.Pos(encD.fn.Pos()), "one side dispatches this constant to no packet-enumerating function")
			case !eok || !dok:
				c.add("EXHAUST-PROG", ef, construct, report.OutOfScope, c.P.Pos(ef.Pos()), fmt.Sprintf("loop nest not classifiable (encoder %q in %s, decoder %q in %s)", es, ef.Name(), dsig, df.Name()))
			case es != dsig:
				c.add("EXHAUST-PROG", ef, construct, report.Violated, c.P.Pos(ef.Pos()), fmt.Sprintf("encoder enumerates packets in %s order (%s) but the decoder reads them in %s order (%s): packets are attributed to the wrong layer/resolution/component/precinct", es, ef.Name(), dsig, df.Name()))
			default:
				note := ""
				if want := strings.TrimPrefix(name, "Progression"); len(want) == 4 && want != es {
					note = " (observation: the shared order differs from the constant's name)"
				}
				c.add("EXHAUST-PROG", ef, construct, report.Discharged, c.P.Pos(ef.Pos()), fmt.Sprintf("both sides nest their loops %s (%s / %s)%s", es, ef.Name(), df.Name(), note))
			}
		}
	}
	c.C.Floor("EXHAUST-PROG-pairs", pairs, 5)
	c.C.ExpectControl("EXHAUST-PROG")
	extra := map[string]any{"dispatch_functions": nDispatch, "constants": len(consts), "pairs": pairs}
	expl := "Rule EXHAUST-PROG: every switch over t2.ProgressionOrder handles all declared constants; for each constant the function the packet encoder dispatches to and the one the packet decoder dispatches to nest their layer / resolution / component / precinct loops in the same order (loop-nest signature extracted from the arguments of the per-packet call). This is the clause 'same precinct / code-block / progression enumeration on both sides'; the reconstruction itself (tag trees, bit stuffing, DWT, T1, MCT) is not decided."
	dnc := "exact reconstruction: tag trees, packet-header bit stuffing, wavelet, block coding, colour transform, DC shift (all value-level)"
	if prop == "C19" {
		n := c.tileIndexRule()
		extra["tile_index_sites"] = n
		c.C.ExpectControl("FLOWS-TILEIDX")
		expl += " For C19 additionally FLOWS-TILEIDX: the Isot field of every tile-part is the writer's tile index unmodified (through a value-preserving or range-limited conversion)."
		dnc = "tile bounds arithmetic, per-tile wavelet origin parity, global rate allocation, placement of decoded tiles (value-level)"
	}
	return Info{Explanation: expl, DoesNotCover: dnc, Trusted: commonTrusted, Extra: extra}
}

func hasSignatureCallees(d *progDispatch) bool {
	for _, fs := range d.cases {
		for _, f := range fs {
			if _, _, ok := loopSignature(f); ok {
				return true
			}
		}
	}
	return false
}

func caseSignature(fs []*ssa.Function) (string, *ssa.Function, bool) {
	for _, f := range fs {
		if s, w, ok := loopSignature(f); w != nil {
			return s, f, ok
		}
	}
	return "", nil, false
}

// tileIndexRule (FLOWS-TILEIDX): every write of an SOT segment takes Isot from a value that is a
// loop index / parameter unmodified (Convert only).
func (c *Ctx) tileIndexRule() int {
	n := 0
	scope := c.scopeFuncs()
	// classify: where does the Isot value come from?
	var classify func(fn *ssa.Function, v ssa.Value, depth int) (report.Status, string)
	classify = func(fn *ssa.Function, v ssa.Value, depth int) (report.Status, string) {
		v = stripConv(v)
		switch x := v.(type) {
		case *ssa.Parameter:
			// a helper's parameter: the value is whatever the callers pass
			if depth < 3 && fn.Object() != nil && !fn.Object().Exported() {
				pi := paramIndex(fn, x)
				sites := 0
				for _, caller := range scope {
					for _, b := range caller.Blocks {
						for _, ins := range b.Instrs {
							call, ok := ins.(ssa.CallInstruction)
							if !ok || call.Common().StaticCallee() != fn || pi >= len(call.Common().Args) {
								continue
							}
							sites++
							if st, d := classify(caller, call.Common().Args[pi], depth+1); st != report.Discharged {
								return st, d + " (passed to " + fn.Name() + " at " + c.P.Pos(ins.Pos()) + ")"
							}
						}
					}
				}
				if sites > 0 {
					return report.Discharged, "Isot is parameter " + x.Name() + ", and every one of the " + fmt.Sprint(sites) + " call site(s) passes a tile index unmodified"
				}
			}
			return report.Discharged, "Isot is " + addrExpr(v) + " unmodified"
		case *ssa.Phi:
			return report.Discharged, "Isot is " + addrExpr(v) + " unmodified"
		case *ssa.UnOp:
			return report.Discharged, "Isot is " + addrExpr(x) + " unmodified"
		case *ssa.Const:
			return report.Violated, "Isot is the constant " + x.String() + ": every tile-part of a multi-tile image claims the same tile"
		}
		return report.Violated, "Isot is computed (" + addrExpr(v) + ") instead of being the tile index: tiles are attributed to the wrong position"
	}
	for _, fn := range scope {
		if !producesOutput(fn) {
			continue
		}
		for _, s := range outputSinks(fn) {
			ws, _ := sinkWritesOf(fn, s)
			for i, w := range ws {
				if w.what == "segment" && w.marker == mSOT {
					// SOT handed to a generic segment emitter with a payload that is not built in
					// place (a builder object): which value ends up in Isot is not followed
					n++
					c.add("FLOWS-TILEIDX", fn, "Isot of SOT (payload built elsewhere)", report.OutOfScope, c.P.Pos(w.ins.Pos()), "the SOT payload is assembled by a builder object and handed to a generic segment emitter: the Isot field is not followed")
					continue
				}
				if w.what != "marker" || w.marker != mSOT || i+2 >= len(ws) {
					continue
				}
				n++
				isot := ws[i+2]
				if isot.val == nil || !isot.size.equal(linConst(2)) {
					c.add("FLOWS-TILEIDX", fn, "Isot of SOT", report.Violated, c.P.Pos(isot.ins.Pos()), "the SOT marker and Lsot are not followed by a 16-bit Isot field")
					continue
				}
				st, detail := classify(fn, isot.val, 0)
				c.add("FLOWS-TILEIDX", fn, "Isot of SOT", st, c.P.Pos(isot.ins.Pos()), detail)
			}
		}
	}
	c.C.Floor("FLOWS-TILEIDX", n-c.controlCount("FLOWS-TILEIDX"), 1)
	return n
}
