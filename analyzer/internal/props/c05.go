package props

import (
	"fmt"
	"go/token"
	"go/types"
	"os"
	"sort"
	"strings"

	"golang.org/x/tools/go/ssa"

	"dcmcheck/internal/load"
	"dcmcheck/internal/pta"
	"dcmcheck/internal/report"
)

func init() {
	Registry["C05"] = func(c *Ctx) Info { return runLosslessFlows(c, "C05") }
	Registry["C06"] = func(c *Ctx) Info { return runLosslessFlows(c, "C06") }
}

// lossless-only transfer syntaxes (DICOM UIDs named in the statements of C05 / C06), by the name of
// the go-dicom transfer.* variable that holds them.
var losslessOnly = map[string]string{
	"JPEG2000Lossless":                        "C05",
	"JPEG2000Part2MultiComponentLosslessOnly": "C05",
	"HTJ2KLossless":                           "C06",
	"HTJ2KLosslessRPCL":                       "C06",
}

type registration struct {
	syntax string
	ctor   *ssa.Function
	typ    *types.Named
	site   ssa.Instruction
	fn     *ssa.Function
}

// registrations resolves every Registry.RegisterCodec(ts, codec) call in library code.
func (c *Ctx) registrations() []registration {
	var out []registration
	for _, fn := range c.scopeFuncs() {
		for _, b := range fn.Blocks {
			for _, ins := range b.Instrs {
				call, ok := ins.(ssa.CallInstruction)
				if !ok {
					continue
				}
				sc := call.Common().StaticCallee()
				if sc == nil || !strings.HasSuffix(sc.String(), "codec.Registry).RegisterCodec") || len(call.Common().Args) < 3 {
					continue
				}
				r := registration{site: ins, fn: fn}
				// transfer syntax: load of a package-level variable of go-dicom's transfer package
				if u, ok := call.Common().Args[1].(*ssa.UnOp); ok {
					if g, ok := u.X.(*ssa.Global); ok {
						r.syntax = g.Name()
					}
				}
				// codec: MakeInterface(constructor call)
				v := unwrapIface(call.Common().Args[2])
				if cc, ok := v.(*ssa.Call); ok {
					r.ctor = cc.Call.StaticCallee()
				}
				if n := load.NamedOf(v.Type()); n != nil {
					r.typ = n
				}
				if r.syntax == "" || r.ctor == nil {
					// a shared helper (func register(c *Codec) { registry.RegisterCodec(c.transferSyntax, c) }):
					// each call of the helper is one registration
					if rs := c.registrationsThroughHelper(call, fn, r); len(rs) > 0 {
						out = append(out, rs...)
						continue
					}
				}
				if r.syntax == "" || r.ctor == nil {
					// a local table of constructor calls walked by a loop
					// (for _, c := range [...]*Codec{NewA(), NewB()} { registry.RegisterCodec(c.transferSyntax, c) }):
					// one registration per constructor call that can reach the argument
					if rs := c.registrationsFromLocalCtors(call, fn); len(rs) > 0 {
						out = append(out, rs...)
						continue
					}
				}
				if r.syntax == "" || r.ctor == nil {
					// not the direct form RegisterCodec(transfer.X, NewY()): a registration table, a
					// loop, a syntax taken from the codec's own field — resolve through points-to
					if rs := c.registrationsByPointsTo(call, fn); len(rs) > 0 {
						out = append(out, rs...)
						continue
					}
				}
				out = append(out, r)
			}
		}
	}
	sort.Slice(out, func(i, j int) bool { return out[i].syntax < out[j].syntax })
	if c.Dump == "registrations" {
		for _, r := range out {
			fmt.Fprintf(os.Stderr, "registration syntax=%q ctor=%v typ=%v in %s\n", r.syntax, r.ctor, r.typ, load.FuncName(r.fn))
		}
	}
	return out
}

// localCtorCalls: the static calls in fn whose result can be the value v, following phis,
// conversions and loads of local arrays / slices / cells back to the stores that fill them.
// complete=false when some source is anything else (a parameter, a global, a field of another object).
func localCtorCalls(fn *ssa.Function, v ssa.Value) (calls []*ssa.Call, complete bool) {
	complete = true
	seen := map[ssa.Value]bool{}
	rootOf := func(a ssa.Value) (*ssa.Alloc, string) {
		shape := ""
		for i := 0; i < 6; i++ {
			switch x := a.(type) {
			case *ssa.IndexAddr:
				shape += "[]"
				a = x.X
			case *ssa.Slice:
				a = x.X
			case *ssa.Alloc:
				return x, shape
			default:
				return nil, ""
			}
		}
		return nil, ""
	}
	var walk func(x ssa.Value, depth int)
	walk = func(x ssa.Value, depth int) {
		if seen[x] || depth > 10 {
			return
		}
		seen[x] = true
		switch y := x.(type) {
		case *ssa.Call:
			if y.Call.StaticCallee() == nil {
				complete = false
				return
			}
			calls = append(calls, y)
		case *ssa.Phi:
			for _, e := range y.Edges {
				walk(e, depth+1)
			}
		case *ssa.MakeInterface:
			walk(y.X, depth+1)
		case *ssa.ChangeType:
			walk(y.X, depth+1)
		case *ssa.Index:
			// element of an array value copied out of a local literal (t = *arr; t[i])
			if ld, ok := y.X.(*ssa.UnOp); ok && ld.Op == token.MUL {
				if al, ok := ld.X.(*ssa.Alloc); ok {
					found := false
					for _, b := range fn.Blocks {
						for _, ins := range b.Instrs {
							if st, ok := ins.(*ssa.Store); ok {
								if al2, shape2 := rootOf(st.Addr); al2 == al && shape2 == "[]" {
									found = true
									walk(st.Val, depth+1)
								}
							}
						}
					}
					if found {
						return
					}
				}
			}
			complete = false
		case *ssa.UnOp:
			if y.Op != token.MUL {
				complete = false
				return
			}
			al, shape := rootOf(y.X)
			if al == nil {
				complete = false
				return
			}
			found := false
			for _, b := range fn.Blocks {
				for _, ins := range b.Instrs {
					st, ok := ins.(*ssa.Store)
					if !ok {
						continue
					}
					if al2, shape2 := rootOf(st.Addr); al2 == al && shape2 == shape {
						found = true
						walk(st.Val, depth+1)
					}
				}
			}
			if !found {
				complete = false
			}
		default:
			complete = false
		}
	}
	walk(v, 0)
	return calls, complete
}

// registrationsFromLocalCtors: the codec passed to RegisterCodec is one of several constructor calls
// made in the same function (a table walked by a loop) and the syntax is the codec's own field.
func (c *Ctx) registrationsFromLocalCtors(call ssa.CallInstruction, fn *ssa.Function) []registration {
	codecVal := unwrapIface(call.Common().Args[2])
	root, f, ok := fieldLoad(call.Common().Args[1])
	if !ok || !sameBase(root, codecVal) {
		return nil
	}
	field := fieldNameOf(root.Type(), f)
	calls, complete := localCtorCalls(fn, codecVal)
	if !complete || len(calls) < 2 {
		return nil
	}
	var out []registration
	for _, cc := range calls {
		r := registration{ctor: cc.Call.StaticCallee(), typ: load.NamedOf(codecVal.Type()), site: call, fn: fn}
		r.syntax = ctorSyntaxName(r.ctor, field, 0)
		if r.syntax == "" {
			return nil
		}
		out = append(out, r)
	}
	return out
}

// registrationsThroughHelper: the RegisterCodec call sits in a helper that registers the codec it
// is given (and takes the syntax from a parameter, from the codec's own field, or names it itself).
// Every static call of the helper that passes a constructor call is one registration; nil unless all
// call sites resolve.
func (c *Ctx) registrationsThroughHelper(call ssa.CallInstruction, fn *ssa.Function, direct registration) []registration {
	codecVal := unwrapIface(call.Common().Args[2])
	ck := paramIndex(fn, codecVal)
	variadic := false
	if ck < 0 {
		// an element of a slice parameter (func RegisterGlobally(codecs ...Codec) { for _, c := range codecs { … } })
		if u, ok := codecVal.(*ssa.UnOp); ok && u.Op == token.MUL {
			if ia, ok := u.X.(*ssa.IndexAddr); ok {
				if k := paramIndex(fn, ia.X); k >= 0 {
					ck, variadic = k, true
				}
			}
		}
	}
	if ck < 0 {
		return nil
	}
	synArg := call.Common().Args[1]
	sk := paramIndex(fn, synArg)
	field := ""
	if root, f, ok := fieldLoad(synArg); ok && sameBase(root, codecVal) {
		field = fieldNameOf(root.Type(), f)
	}
	// the syntax the codec itself reports: c.TransferSyntax()
	viaMethod := ""
	if sc, ok := synArg.(*ssa.Call); ok && sc.Call.IsInvoke() && (sc.Call.Value == call.Common().Args[2] || sameBase(unwrapIface(sc.Call.Value), codecVal)) {
		viaMethod = sc.Call.Method.Name()
	}
	if direct.syntax == "" && sk < 0 && field == "" && viaMethod == "" {
		return nil
	}
	var out []registration
	for _, g := range c.scopeFuncs() {
		for _, b := range g.Blocks {
			for _, ins := range b.Instrs {
				cs, ok := ins.(*ssa.Call)
				if !ok || cs.Call.StaticCallee() != fn || ck >= len(cs.Call.Args) {
					continue
				}
				var ctorCalls []*ssa.Call
				if variadic {
					// the argument list is a literal: t = new [n]Codec (varargs); t[k] = make Codec <- NewX(); t[:]
					sl, ok := cs.Call.Args[ck].(*ssa.Slice)
					if !ok {
						return nil
					}
					al, ok := sl.X.(*ssa.Alloc)
					if !ok || al.Referrers() == nil {
						return nil
					}
					for _, r := range *al.Referrers() {
						ia, ok := r.(*ssa.IndexAddr)
						if !ok || ia.Referrers() == nil {
							continue
						}
						for _, u := range *ia.Referrers() {
							st, ok := u.(*ssa.Store)
							if !ok || st.Addr != ssa.Value(ia) {
								continue
							}
							cc, ok := unwrapIface(st.Val).(*ssa.Call)
							if !ok || cc.Call.StaticCallee() == nil {
								return nil
							}
							ctorCalls = append(ctorCalls, cc)
						}
					}
					if len(ctorCalls) == 0 {
						return nil
					}
				} else {
					cc, ok := unwrapIface(cs.Call.Args[ck]).(*ssa.Call)
					if !ok || cc.Call.StaticCallee() == nil {
						return nil
					}
					ctorCalls = append(ctorCalls, cc)
				}
				for _, cc := range ctorCalls {
					typ := load.NamedOf(codecVal.Type())
					if rt := cc.Call.StaticCallee().Signature.Results(); rt.Len() > 0 {
						if n := load.NamedOf(rt.At(0).Type()); n != nil {
							typ = n
						}
					}
					r := registration{syntax: direct.syntax, ctor: cc.Call.StaticCallee(), typ: typ, site: cs, fn: g}
					switch {
					case sk >= 0 && sk < len(cs.Call.Args):
						if u, ok := cs.Call.Args[sk].(*ssa.UnOp); ok {
							if gl, ok := u.X.(*ssa.Global); ok {
								r.syntax = gl.Name()
							}
						}
					case field != "":
						r.syntax = ctorSyntaxName(r.ctor, field, 0)
					case viaMethod != "":
						r.syntax = c.syntaxReportedBy(r.ctor, viaMethod)
					}
					if r.syntax == "" {
						return nil
					}
					out = append(out, r)
				}
			}
		}
	}
	return out
}

// syntaxReportedBy: the package-level transfer-syntax variable that method (TransferSyntax) of the
// type ctor builds returns for an object built by ctor: a global named in the method itself, or the
// construction value of the field the method returns.
func (c *Ctx) syntaxReportedBy(ctor *ssa.Function, method string) string {
	rt := ctor.Signature.Results()
	if rt.Len() == 0 {
		return ""
	}
	ms := c.P.SSA.MethodSets.MethodSet(rt.At(0).Type())
	var m *ssa.Function
	for i := 0; i < ms.Len(); i++ {
		if ms.At(i).Obj().Name() == method {
			m = c.P.SSA.MethodValue(ms.At(i))
		}
	}
	if m == nil || m.Blocks == nil || len(m.Params) == 0 {
		return ""
	}
	name := ""
	for _, b := range m.Blocks {
		if len(b.Instrs) == 0 {
			continue
		}
		ret, ok := b.Instrs[len(b.Instrs)-1].(*ssa.Return)
		if !ok || len(ret.Results) != 1 {
			continue
		}
		got := ""
		if u, ok := ret.Results[0].(*ssa.UnOp); ok && u.Op == token.MUL {
			if g, ok := u.X.(*ssa.Global); ok {
				got = g.Name()
			} else if root, f, ok := fieldLoad(u); ok && sameBase(root, m.Params[0]) {
				got = ctorSyntaxName(ctor, fieldNameOf(root.Type(), f), 0)
			}
		}
		if got == "" || (name != "" && name != got) {
			return ""
		}
		name = got
	}
	return name
}

// ctorSyntaxName: the package-level variable whose value ends up in the named field of the object
// ctor returns: stored there by ctor itself, or by an inner constructor that ctor returns the result
// of and that stores the parameter ctor fills with that variable.
func ctorSyntaxName(ctor *ssa.Function, field string, depth int) string {
	if ctor == nil || ctor.Blocks == nil || depth > 2 {
		return ""
	}
	if name := globalStoredIntoField(ctor, field); name != "" {
		return name
	}
	name := ""
	for _, b := range ctor.Blocks {
		if len(b.Instrs) == 0 {
			continue
		}
		ret, ok := b.Instrs[len(b.Instrs)-1].(*ssa.Return)
		if !ok || len(ret.Results) == 0 {
			continue
		}
		inner, ok := ret.Results[0].(*ssa.Call)
		if !ok || inner.Call.StaticCallee() == nil || inner.Call.StaticCallee().Blocks == nil {
			return ""
		}
		ic := inner.Call.StaticCallee()
		got := ctorSyntaxName(ic, field, depth+1)
		if got == "" {
			// the inner constructor stores one of its parameters into the field
			k := -1
			for _, ib := range ic.Blocks {
				for _, ins := range ib.Instrs {
					st, ok := ins.(*ssa.Store)
					if !ok {
						continue
					}
					fa, ok := st.Addr.(*ssa.FieldAddr)
					if !ok || fieldNameOf(fa.X.Type(), fa.Field) != field {
						continue
					}
					pk := paramIndex(ic, st.Val)
					if pk < 0 || (k >= 0 && k != pk) {
						return ""
					}
					k = pk
				}
			}
			if k < 0 || k >= len(inner.Call.Args) {
				return ""
			}
			u, ok := inner.Call.Args[k].(*ssa.UnOp)
			if !ok || u.Op != token.MUL {
				return ""
			}
			g, ok := u.X.(*ssa.Global)
			if !ok {
				return ""
			}
			got = g.Name()
		}
		if name != "" && name != got {
			return ""
		}
		name = got
	}
	return name
}

// registrationsByPointsTo resolves one RegisterCodec call with engine E1: every codec object that
// can reach the call gives one registration (its allocating function is the constructor); the
// transfer syntax is what the syntax argument — or, when that argument is a field of the codec
// itself, that field of this object — points to, named by the go-dicom transfer.* variable holding it.
func (c *Ctx) registrationsByPointsTo(call ssa.CallInstruction, fn *ssa.Function) []registration {
	e, err := c.effects()
	if err != nil {
		return nil
	}
	a := e.A
	// names of the transfer.* globals by the object they point to
	names := map[*pta.Obj][]string{}
	for _, o := range a.Objects() {
		if o.Kind != pta.Global || o.Glob == nil || o.Glob.Pkg == nil || !strings.HasSuffix(o.Glob.Pkg.Pkg.Path(), "/transfer") {
			continue
		}
		for _, l := range a.Contents(pta.Loc{Obj: o, Path: ""}) {
			names[l.Obj] = append(names[l.Obj], o.Glob.Name())
		}
	}
	codecVal := unwrapIface(call.Common().Args[2])
	synArg := call.Common().Args[1]
	field := ""
	if u, ok := synArg.(*ssa.UnOp); ok && u.Op == token.MUL {
		if fa, ok := u.X.(*ssa.FieldAddr); ok && (fa.X == codecVal || sameBase(fa.X, codecVal)) {
			field = "." + fieldNameOf(fa.X.Type(), fa.Field)
		}
	}
	var out []registration
	seen := map[string]bool{}
	for _, ctx := range []pta.Ctx{pta.CtxInit, pta.CtxRun} {
		for _, l := range a.PointsTo(codecVal, ctx) {
			o := l.Obj
			n, ok := o.Type.(*types.Named)
			if !ok || o.Kind != pta.Fresh || o.Fn == nil {
				continue
			}
			var syn []pta.Loc
			if field != "" {
				syn = a.Contents(pta.Loc{Obj: o, Path: field})
			} else {
				syn = a.PointsTo(synArg, ctx)
			}
			nameSet := map[string]bool{}
			for _, sl := range syn {
				for _, nm := range names[sl.Obj] {
					nameSet[nm] = true
				}
			}
			name := ""
			if len(nameSet) == 1 {
				for nm := range nameSet {
					name = nm
				}
			}
			if name == "" && field != "" {
				// go-dicom builds all its Syntax values in one place, so the points-to abstraction
				// cannot tell them apart; the constructor says which variable it stored
				name = globalStoredIntoField(o.Fn, strings.TrimPrefix(field, "."))
			}
			k := fmt.Sprintf("%p/%s/%s", o.Fn, n.Obj().Name(), name)
			if seen[k] {
				continue
			}
			seen[k] = true
			out = append(out, registration{syntax: name, ctor: o.Fn, typ: n, site: call, fn: fn})
		}
	}
	return out
}

// globalStoredIntoField: the name of the package-level variable whose value ctor stores into the
// named field of the struct it builds (exactly one such store), else "".
func globalStoredIntoField(ctor *ssa.Function, field string) string {
	name := ""
	for _, b := range ctor.Blocks {
		for _, ins := range b.Instrs {
			st, ok := ins.(*ssa.Store)
			if !ok {
				continue
			}
			fa, ok := st.Addr.(*ssa.FieldAddr)
			if !ok || fieldNameOf(fa.X.Type(), fa.Field) != field {
				continue
			}
			u, ok := st.Val.(*ssa.UnOp)
			if !ok || u.Op != token.MUL {
				return ""
			}
			g, ok := u.X.(*ssa.Global)
			if !ok || (name != "" && name != g.Name()) {
				return ""
			}
			name = g.Name()
		}
	}
	return name
}

// ctorFieldConsts: constant values the constructor stores into the fields of the codec it builds.
func ctorFieldConsts(ctor *ssa.Function) map[string]string { return ctorFieldConstsRec(ctor, 0) }

func ctorFieldConstsRec(ctor *ssa.Function, depth int) map[string]string {
	out := map[string]string{}
	if ctor == nil {
		return out
	}
	// a constructor that hands back what an inner constructor built (NewLosslessCodec() →
	// newLosslessCodecFor(syntax)) inherits the constants every such inner constructor stores
	if depth < 2 {
		var inherited map[string]string
		for _, b := range ctor.Blocks {
			if len(b.Instrs) == 0 {
				continue
			}
			ret, ok := b.Instrs[len(b.Instrs)-1].(*ssa.Return)
			if !ok || len(ret.Results) == 0 {
				continue
			}
			inner, ok := ret.Results[0].(*ssa.Call)
			if !ok || inner.Call.StaticCallee() == nil || inner.Call.StaticCallee().Blocks == nil {
				inherited = map[string]string{}
				continue
			}
			ic := ctorFieldConstsRec(inner.Call.StaticCallee(), depth+1)
			if inherited == nil {
				inherited = ic
				continue
			}
			for k, v := range inherited {
				if ic[k] != v {
					delete(inherited, k)
				}
			}
		}
		for k, v := range inherited {
			out[k] = v
		}
	}
	for _, b := range ctor.Blocks {
		for _, ins := range b.Instrs {
			st, ok := ins.(*ssa.Store)
			if !ok {
				continue
			}
			fa, ok := st.Addr.(*ssa.FieldAddr)
			if !ok {
				continue
			}
			if k, ok := st.Val.(*ssa.Const); ok && k.Value != nil {
				out[fieldNameOf(fa.X.Type(), fa.Field)] = k.Value.String()
			}
		}
	}
	return out
}

func isEncodeParamsField(fa *ssa.FieldAddr, field string) bool {
	n := namedOfRecv(fa.X.Type())
	if n == nil || n.Obj().Name() != "EncodeParams" || n.Obj().Pkg() == nil || n.Obj().Pkg().Path() != load.ModPath+"/jpeg2000" {
		return false
	}
	return fieldNameOf(fa.X.Type(), fa.Field) == field
}

func runLosslessFlows(c *Ctx, prop string) Info {
	regs := c.registrations()
	nReal := 0
	for _, r := range regs {
		if !load.IsControl(load.FuncPkgPath(r.fn)) {
			nReal++
		}
	}
	c.C.Floor("registrations", nReal, 14)
	nLossless := 0
	for _, r := range regs {
		ctl := load.IsControl(load.FuncPkgPath(r.fn))
		want, isLL := losslessOnly[r.syntax]
		if ctl {
			// control registrations use the real lossless syntaxes on purpose
			isLL = isLL || strings.Contains(r.syntax, "Lossless")
			want = prop
		}
		if !isLL || want != prop {
			continue
		}
		nLossless++
		construct := "registration " + r.syntax
		if r.ctor == nil || r.typ == nil {
			c.add("FLOWS-LOSSLESS", r.fn, construct, report.OutOfScope, c.P.Pos(r.site.Pos()), "codec value is not a direct constructor call: not decided")
			continue
		}
		enc := c.P.Method(r.typ, "Encode")
		if enc == nil {
			c.add("FLOWS-LOSSLESS", r.fn, construct, report.Violated, c.P.Pos(r.site.Pos()), "registered codec type has no Encode method body")
			continue
		}
		consts := ctorFieldConsts(r.ctor)
		reach := c.P.Reachable([]*ssa.Function{enc})
		nNew, nStores := 0, 0
		bad := ""
		badPos := c.P.Pos(r.site.Pos())
		for fn := range reach {
			if !load.InScope(fn) {
				continue
			}
			for _, b := range fn.Blocks {
				for _, ins := range b.Instrs {
					switch x := ins.(type) {
					case ssa.CallInstruction:
						if sc := x.Common().StaticCallee(); sc != nil && sc.String() == load.ModPath+"/jpeg2000.NewEncoder" {
							nNew++
						}
					case *ssa.Store:
						fa, ok := x.Addr.(*ssa.FieldAddr)
						if !ok || !isEncodeParamsField(fa, "Lossless") {
							continue
						}
						nStores++
						if k, ok := x.Val.(*ssa.Const); ok && k.Value != nil && k.Value.String() == "true" {
							continue
						}
						// the receiver's own constructor-fixed field (encParams.Lossless = c.lossless)
						if val, known := c.boolForCtor(x.Val, fn, r.typ, consts, 0); known && val {
							continue
						}
						// allowed only on a branch that this registration's constructor makes dead
						if why, dead := deadForCtor(x, consts, func(t types.Type, f int) bool {
							n := namedOfRecv(t)
							return n != nil && n.Obj() == r.typ.Obj() && c.fieldOnlySetAtConstruction(r.typ, f)
						}); dead {
							_ = why
							continue
						}
						if bad == "" {
							bad = fmt.Sprintf("%s stores %s into EncodeParams.Lossless in %s", addrExpr(x.Val), describeValue(x.Val), load.FuncName(fn))
							badPos = c.P.Pos(x.Pos())
						}
					}
				}
			}
		}
		switch {
		case nNew == 0:
			c.add("FLOWS-LOSSLESS", enc, construct, report.OutOfScope, c.P.Pos(enc.Pos()), "no jpeg2000.NewEncoder call reachable from this codec's Encode")
		case bad != "":
			c.add("FLOWS-LOSSLESS", enc, construct, report.Violated, badPos, "a lossless-only transfer syntax can select the irreversible path: "+bad+" (not a constant true, and not on a branch the registered constructor "+r.ctor.Name()+" makes unreachable)")
		case nStores == 0:
			c.add("FLOWS-LOSSLESS", enc, construct, report.Violated, c.P.Pos(enc.Pos()), "EncodeParams.Lossless is never set on the path to NewEncoder")
		default:
			c.add("FLOWS-LOSSLESS", enc, construct, report.Discharged, c.P.Pos(enc.Pos()), fmt.Sprintf("%d NewEncoder call(s); every one of the %d store(s) to EncodeParams.Lossless reachable from Encode stores true (or sits on a branch dead for constructor %s, which sets %v)", nNew, nStores, r.ctor.Name(), consts))
		}
		if prop == "C06" {
			c.htFactoryRule(r, enc)
		}
	}
	if prop == "C05" {
		c.C.Floor("FLOWS-LOSSLESS", nLossless-c.controlCount("FLOWS-LOSSLESS"), 2)
	} else {
		c.C.Floor("FLOWS-LOSSLESS", nLossless-c.controlCount("FLOWS-LOSSLESS"), 2)
		c.C.ExpectControl("FLOWS-HTFACTORY")
	}
	c.C.ExpectControl("FLOWS-LOSSLESS")
	expl := "Rule FLOWS-LOSSLESS: every Registry.RegisterCodec(ts, codec) call is resolved (transfer syntax variable, constructor, codec type); for the lossless-only syntaxes every store to jpeg2000.EncodeParams.Lossless reachable from that codec's Encode must store the constant true, or sit on a branch that tests a receiver field which the registered constructor sets to the opposite constant. This is the clause 'no accepted parameter value can select the irreversible path'."
	dnc := "that the final quality layer receives all remaining coding passes under rate control (PCRD budgets are value-level), and the round trip itself"
	if prop == "C06" {
		expl += " FLOWS-HTFACTORY: the HTJ2K codec installs the HT block coder family on both sides (Encode: BlockEncoderFactory returns *htj2k.HTEncoder and HTJ2KMode is stored true; Decode: SetBlockDecoderFactory receives a closure returning *htj2k.HTDecoder)."
		dnc = "the HT cleanup pass coding (MEL/VLC/UVLC/MagSgn), Kmax / missing-MSB agreement, the third-party fixtures (runtime artefacts)"
	}
	return Info{Explanation: expl, DoesNotCover: dnc, Trusted: commonTrusted, Extra: map[string]any{"registrations": nReal, "lossless_only_checked": nLossless}}
}

func describeValue(v ssa.Value) string {
	if k, ok := v.(*ssa.Const); ok {
		return "constant " + k.String()
	}
	return "a computed value"
}

// deadForCtor: the store is control-dependent on a test of a receiver field whose value, as set by
// the registered constructor, sends control the other way.
// boolForCtor evaluates a bool value inside a method of the codec type for an object built by the
// registered constructor: constants, loads of receiver fields the constructor fixes (and nothing else
// ever stores), negation, and phis whose edges agree.
func (c *Ctx) boolForCtor(v ssa.Value, fn *ssa.Function, typ *types.Named, consts map[string]string, depth int) (val, known bool) {
	if depth > 4 {
		return false, false
	}
	switch x := v.(type) {
	case *ssa.Const:
		if x.Value == nil {
			return false, false
		}
		return x.Value.String() == "true", true
	case *ssa.UnOp:
		if x.Op == token.NOT {
			val, known = c.boolForCtor(x.X, fn, typ, consts, depth+1)
			return !val, known
		}
		if x.Op != token.MUL || len(fn.Params) == 0 || fn.Signature.Recv() == nil {
			return false, false
		}
		fa, ok := x.X.(*ssa.FieldAddr)
		if !ok || fa.X != ssa.Value(fn.Params[0]) {
			return false, false
		}
		if n := namedOfRecv(fa.X.Type()); n == nil || n.Obj() != typ.Obj() {
			return false, false
		}
		fname := fieldNameOf(fa.X.Type(), fa.Field)
		k, ok := consts[fname]
		if !ok || !c.fieldOnlySetAtConstruction(typ, fa.Field) {
			return false, false
		}
		return k == "true", true
	case *ssa.Phi:
		first := true
		for _, e := range x.Edges {
			ev, ek := c.boolForCtor(e, fn, typ, consts, depth+1)
			if !ek {
				return false, false
			}
			if first {
				val, first = ev, false
			} else if ev != val {
				return false, false
			}
		}
		return val, !first
	}
	return false, false
}

// fieldOnlySetAtConstruction: every store to field f of typ in library code goes to an object
// allocated in the storing function itself (a constructor / composite literal).
func (c *Ctx) fieldOnlySetAtConstruction(typ *types.Named, f int) bool {
	key := fmt.Sprintf("%p/%d", typ.Obj(), f)
	if c.ctorOnlyMemo == nil {
		c.ctorOnlyMemo = map[string]bool{}
	}
	if r, ok := c.ctorOnlyMemo[key]; ok {
		return r
	}
	res := true
	for _, fn := range c.scopeFuncs() {
		for _, b := range fn.Blocks {
			for _, ins := range b.Instrs {
				st, ok := ins.(*ssa.Store)
				if !ok {
					continue
				}
				fa, ok := st.Addr.(*ssa.FieldAddr)
				if !ok || fa.Field != f {
					continue
				}
				if n := namedOfRecv(fa.X.Type()); n == nil || n.Obj() != typ.Obj() {
					continue
				}
				if _, fresh := fa.X.(*ssa.Alloc); !fresh {
					res = false
				}
			}
		}
	}
	c.ctorOnlyMemo[key] = res
	return res
}

func deadForCtor(st *ssa.Store, consts map[string]string, fixed func(t types.Type, f int) bool) (string, bool) {
	fn := st.Parent()
	if len(fn.Params) == 0 || fn.Signature.Recv() == nil {
		return "", false
	}
	recv := fn.Params[0]
	pd := newPostDom(fn)
	seen := map[*ssa.BasicBlock]bool{}
	work := []*ssa.BasicBlock{st.Block()}
	for len(work) > 0 {
		b := work[len(work)-1]
		work = work[:len(work)-1]
		for _, ct := range controllers(fn, pd, b) {
			if seen[ct.Block] {
				continue
			}
			seen[ct.Block] = true
			work = append(work, ct.Block)
			cond := ifCond(ct.Block)
			// cond is a load of recv.field (bool), possibly negated
			neg := false
			if u, ok := cond.(*ssa.UnOp); ok && u.Op == token.NOT {
				cond, neg = u.X, true
			}
			ld, ok := cond.(*ssa.UnOp)
			if !ok || ld.Op != token.MUL {
				continue
			}
			fa, ok := ld.X.(*ssa.FieldAddr)
			if !ok || fa.X != ssa.Value(recv) {
				continue
			}
			fname := fieldNameOf(fa.X.Type(), fa.Field)
			val, known := consts[fname]
			if !known || !fixed(fa.X.Type(), fa.Field) {
				continue
			}
			fieldTrue := val == "true"
			// the store is reached on successor ct.Succ (0 = cond true)
			reachedWhenCondTrue := ct.Succ == 0
			condValue := fieldTrue != neg
			if reachedWhenCondTrue != condValue {
				return "branch on " + fname, true
			}
		}
	}
	return "", false
}

// htFactoryRule: FLOWS-HTFACTORY for one HTJ2K registration.
func (c *Ctx) htFactoryRule(r registration, enc *ssa.Function) {
	dec := c.P.Method(r.typ, "Decode")
	construct := "registration " + r.syntax
	// encoder side
	encFamily, htMode := "", false
	for fn := range c.P.Reachable([]*ssa.Function{enc}) {
		if !load.InScope(fn) {
			continue
		}
		for _, b := range fn.Blocks {
			for _, ins := range b.Instrs {
				st, ok := ins.(*ssa.Store)
				if !ok {
					continue
				}
				fa, ok := st.Addr.(*ssa.FieldAddr)
				if !ok {
					continue
				}
				if isEncodeParamsField(fa, "HTJ2KMode") {
					if k, ok := st.Val.(*ssa.Const); ok && k.Value != nil && k.Value.String() == "true" {
						htMode = true
					}
				}
				if isEncodeParamsField(fa, "BlockEncoderFactory") {
					encFamily = closureReturnType(st.Val)
				}
			}
		}
	}
	decFamily := ""
	if dec != nil {
		// anywhere in the library code Decode reaches (the per-frame step may be a closure or a helper)
		for fn := range c.P.Reachable([]*ssa.Function{dec}) {
			if !load.InScope(fn) {
				continue
			}
			for _, b := range fn.Blocks {
				for _, ins := range b.Instrs {
					call, ok := ins.(ssa.CallInstruction)
					if !ok {
						continue
					}
					if sc := call.Common().StaticCallee(); sc != nil && sc.Name() == "SetBlockDecoderFactory" && len(call.Common().Args) >= 2 {
						if f := closureReturnType(call.Common().Args[1]); f != "" {
							if decFamily != "" && decFamily != f {
								decFamily += "|" + f
							} else {
								decFamily = f
							}
						}
					}
				}
			}
		}
	}
	ok := htMode && strings.Contains(encFamily, "htj2k.HTEncoder") && strings.Contains(decFamily, "htj2k.HTDecoder")
	detail := fmt.Sprintf("Encode: HTJ2KMode=true stored: %v, block encoder factory returns %q; Decode: block decoder factory returns %q", htMode, encFamily, decFamily)
	if ok {
		c.add("FLOWS-HTFACTORY", enc, construct, report.Discharged, c.P.Pos(enc.Pos()), detail)
	} else {
		c.add("FLOWS-HTFACTORY", enc, construct, report.Violated, c.P.Pos(enc.Pos()), "the HTJ2K codec does not install the HT block coder family on both sides (an HT stream read by the EBCOT decoder, or the reverse, cannot round-trip): "+detail)
	}
}

// closureReturnType: the concrete type the function value returns (through MakeInterface).
func closureReturnType(v ssa.Value) string { return closureReturnTypeRec(v, 0) }

// cellStores: the values stored into a local cell (a variable captured by closures lives in one).
func cellStores(cell ssa.Value) []ssa.Value {
	var out []ssa.Value
	if cell.Referrers() == nil {
		return nil
	}
	for _, r := range *cell.Referrers() {
		if st, ok := r.(*ssa.Store); ok && st.Addr == cell {
			out = append(out, st.Val)
		}
	}
	return out
}

func closureReturnTypeRec(v ssa.Value, depth int) string {
	var fn *ssa.Function
	join := func(vals []ssa.Value) string {
		var out []string
		for _, x := range vals {
			if t := closureReturnTypeRec(x, depth+1); t != "" {
				out = append(out, strings.Split(t, ",")...)
			} else {
				return ""
			}
		}
		sort.Strings(out)
		return strings.Join(uniq(out), ",")
	}
	if depth > 4 {
		return ""
	}
	switch x := v.(type) {
	case *ssa.MakeClosure:
		fn, _ = x.Fn.(*ssa.Function)
	case *ssa.Function:
		fn = x
	case *ssa.ChangeType:
		return closureReturnTypeRec(x.X, depth+1)
	case *ssa.Phi:
		return join(x.Edges)
	case *ssa.UnOp:
		// a function kept in a local variable: htBlocks := func(…) …; decoder.SetBlockDecoderFactory(htBlocks)
		// — read back from its cell, possibly from inside a closure that captured the cell
		if x.Op != token.MUL {
			return ""
		}
		switch cell := x.X.(type) {
		case *ssa.Alloc:
			return join(cellStores(cell))
		case *ssa.FreeVar:
			inner := cell.Parent()
			outer := inner.Parent()
			if outer == nil {
				return ""
			}
			idx := -1
			for i, fv := range inner.FreeVars {
				if fv == cell {
					idx = i
				}
			}
			for _, b := range outer.Blocks {
				for _, ins := range b.Instrs {
					if mc, ok := ins.(*ssa.MakeClosure); ok && mc.Fn == ssa.Value(inner) && idx >= 0 && idx < len(mc.Bindings) {
						if al, ok := mc.Bindings[idx].(*ssa.Alloc); ok {
							return join(cellStores(al))
						}
					}
				}
			}
		}
		return ""
	}
	if fn == nil {
		return ""
	}
	var out []string
	for _, b := range fn.Blocks {
		for _, ins := range b.Instrs {
			if ret, ok := ins.(*ssa.Return); ok && len(ret.Results) == 1 {
				out = append(out, strings.TrimPrefix(unwrapIface(ret.Results[0]).Type().String(), "*"+load.ModPath+"/jpeg2000/"))
			}
		}
	}
	sort.Strings(out)
	return strings.Join(uniq(out), ",")
}
