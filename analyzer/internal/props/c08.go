package props

import (
	"fmt"
	"go/constant"
	"go/token"
	"go/types"
	"sort"
	"strings"

	"golang.org/x/tools/go/ssa"

	"dcmcheck/internal/load"
	"dcmcheck/internal/pta"
	"dcmcheck/internal/ranges"
	"dcmcheck/internal/report"
)

func init() { Registry["C08"] = runC08 }

// frameInfoTaint: for the RLE codec the property quantifies over any frame description.
func frameInfoTaint() map[string]bool {
	m := map[string]bool{}
	for _, f := range []string{"Width", "Height", "BitsAllocated", "BitsStored", "HighBit", "SamplesPerPixel", "PixelRepresentation", "PlanarConfiguration"} {
		m[load.DicomPath+"/pkg/imaging/imagetypes.FrameInfo."+f] = true
	}
	return m
}

// rangeObligations enumerates the panic-capable integer operations of DESIGN §3.3 in the given
// functions and decides each with engine E2.
type rangeStats struct {
	idx, div, mk, shift, assert, panics int
}

func (c *Ctx) rangeEngine(roots []*ssa.Function, byteTaint bool, intSize int) (*ranges.Engine, map[*ssa.Function]bool) {
	reach := c.P.Reachable(roots)
	funcs := map[*ssa.Function]bool{}
	for fn := range reach {
		if fn.Blocks != nil && load.InScope(fn) {
			funcs[fn] = true
		}
	}
	rs := map[*ssa.Function]bool{}
	for _, r := range roots {
		rs[r] = true
	}
	cfg := ranges.Config{CG: c.P.CG, Funcs: funcs, Roots: rs, ByteLoadsTainted: byteTaint, TaintedFields: frameInfoTaint(), IntSize: intSize}
	if byteTaint {
		// which byte buffers may hold stream data: closure of copy/append/Read transfers from the
		// caller's input buffers over the points-to graph of engine E1
		if ef, err := c.effects(); err == nil {
			a := ef.A
			if strings.HasPrefix(c.Dump, "taint:") {
				pta.TaintDebug = strings.TrimPrefix(c.Dump, "taint:")
			}
			// the adversary's data: the byte slices (and other arguments) of the encoding / decoding entry
			// points, the frames a PixelData hands out and the FrameInfo — not the arguments of every other
			// exported helper (mqc.NewMQDecoderWithContexts(data, prevContexts) is called by the library
			// with values the library computed)
			tainted := a.StreamTainted(func(o *pta.Obj) bool {
				return o.Kind == pta.ExtInput || (o.Kind == pta.ExtArg && (ef.EntryArgs[o] || o == ef.PixSrc || o == ef.PixDst || o == ef.FrameInfo))
			})
			cfg.StreamSlice = func(fn *ssa.Function, v ssa.Value) bool {
				for _, o := range a.ObjectsOf(v, pta.CtxRun) {
					if tainted[o] {
						return true
					}
				}
				return false
			}
			cfg.ObjectsOf = func(fn *ssa.Function, v ssa.Value) []any {
				var out []any
				for _, o := range a.ObjectsOf(v, pta.CtxRun) {
					out = append(out, o)
				}
				return out
			}
			cfg.IsInputObj = func(o any) bool { return tainted[o.(*pta.Obj)] }
			c.streamOracle = cfg.StreamSlice
			c.C.Note("stream-tainted byte buffers (points-to closure): %d objects", len(tainted))
		} else {
			c.C.Fatalf("effects engine unavailable for byte-taint oracle: %v", err)
		}
	}
	eng := ranges.New(cfg)
	eng.Run()
	return eng, funcs
}

const posInf = int64(^uint64(0) >> 1)

func arrayLenOf(t types.Type) (int64, bool) {
	if p, ok := t.Underlying().(*types.Pointer); ok {
		t = p.Elem()
	}
	if a, ok := t.Underlying().(*types.Array); ok {
		return a.Len(), true
	}
	return 0, false
}

func isSignedInt(t types.Type) bool {
	b, ok := t.Underlying().(*types.Basic)
	return ok && b.Info()&types.IsInteger != 0 && b.Info()&types.IsUnsigned == 0
}

// decide applies the verdict policy of DESIGN §3.3.
func decideRange(av ranges.AV, lo, hi int64, forbidZero bool) (report.Status, string) {
	if av.IsBottom() {
		return report.OutOfScope, "no value reaches this operation in the analysed call tree"
	}
	safe := av.Within(lo, hi)
	if forbidZero {
		safe = !av.Contains(0)
	}
	if safe {
		return report.Discharged, "range " + av.String()
	}
	if !av.Taint {
		return report.OutOfScope, "operand " + av.String() + " is internal arithmetic (not stream-derived); not provably safe in the interval domain"
	}
	if forbidZero {
		if av.Exact {
			return report.Violated, "stream-controlled divisor " + av.String() + " can be exactly 0"
		}
		if av.ZeroDef {
			return report.Violated, "divisor " + av.String() + " is a field that is only assigned by a separate parsing step and never compared anywhere: if the stream omits or reorders that step the field still holds its zero value"
		}
		if av.Raw && !av.SanLo && !av.SanHi {
			return report.Violated, "adversarial divisor " + av.String() + " is used as it arrived, without any check that excludes 0"
		}
		// a divisor that was limited somewhere but may still be 0: zero is a single point that a range
		// check (x < 1 / x <= 0 / x == 0) must exclude explicitly
		return report.OutOfScope, "divisor " + av.String() + " was range-limited but 0 is not excluded in the interval domain"
	}
	if av.Exact {
		return report.Violated, fmt.Sprintf("stream-controlled operand is exactly %s: values outside [%d,%d] are producible", av.String(), lo, hi)
	}
	if av.Raw && av.Hi() > hi && !av.SanHi {
		return report.Violated, fmt.Sprintf("stream-controlled operand %s has no upper limit applied anywhere between the stream and this use (needs <= %d)", av.String(), hi)
	}
	if av.Raw && av.Lo() < lo && !av.SanLo {
		return report.Violated, fmt.Sprintf("stream-controlled operand %s has no lower limit applied anywhere between the stream and this use (needs >= %d)", av.String(), lo)
	}
	return report.OutOfScope, "operand " + av.String() + " is stream-derived and was limited somewhere, but the non-relational domain cannot carry the bound to this use"
}

func (c *Ctx) rangeObligations(eng *ranges.Engine, funcs map[*ssa.Function]bool, prefix string) rangeStats {
	var st rangeStats
	var fns []*ssa.Function
	for fn := range funcs {
		fns = append(fns, fn)
	}
	sort.Slice(fns, func(i, j int) bool { return fns[i].String() < fns[j].String() })
	seen := map[string]int{}
	add := func(rule string, fn *ssa.Function, construct string, status report.Status, ins ssa.Instruction, detail string) {
		key := rule + "|" + fn.String() + "|" + construct
		seen[key]++
		if seen[key] > 1 {
			construct = fmt.Sprintf("%s #%d", construct, seen[key])
		}
		c.add(prefix+rule, fn, construct, status, c.P.Pos(ins.Pos()), detail)
	}
	for _, fn := range fns {
		// small loop-free helpers (DivCeil, min, clamp ...) are judged with the arguments of each of
		// their call sites, not on the join over all callers
		var sites []*ranges.SiteCtx
		if eng.Inlineable(fn) {
			sites = eng.SiteContexts(fn)
		}
		evalAt := func(v ssa.Value, b *ssa.BasicBlock) ranges.AV { return eng.At(fn, v, b) }
		_ = evalAt
		for _, b := range fn.Blocks {
			for _, ins := range b.Instrs {
				if len(sites) > 0 {
					c.siteObligations(eng, fn, sites, ins, b, prefix, &st, add)
					continue
				}
				switch x := ins.(type) {
				case *ssa.IndexAddr:
					n, ok := arrayLenOf(x.X.Type())
					if !ok {
						continue
					}
					st.idx++
					av := eng.At(fn, x.Index, b)
					s, d := decideRange(av, 0, n-1, false)
					add("IDX", fn, addrExpr(x.X)+"["+addrExpr(x.Index)+"] (len "+fmt.Sprint(n)+")", s, ins, d)
				case *ssa.Index:
					n, ok := arrayLenOf(x.X.Type())
					if !ok {
						continue
					}
					st.idx++
					av := eng.At(fn, x.Index, b)
					s, d := decideRange(av, 0, n-1, false)
					add("IDX", fn, addrExpr(x.X)+"["+addrExpr(x.Index)+"] (len "+fmt.Sprint(n)+")", s, ins, d)
				case *ssa.BinOp:
					switch x.Op {
					case token.QUO, token.REM:
						if bt, ok := x.Type().Underlying().(*types.Basic); !ok || bt.Info()&types.IsInteger == 0 {
							continue
						}
						st.div++
						av := eng.At(fn, x.Y, b)
						s, d := decideRange(av, 0, 0, true)
						add("DIV", fn, addrExpr(x.X)+" "+x.Op.String()+" "+addrExpr(x.Y), s, ins, d)
					case token.SHL, token.SHR:
						if !isSignedInt(x.Y.Type()) {
							continue
						}
						st.shift++
						av := eng.At(fn, x.Y, b)
						s, d := decideRange(av, 0, posInf, false)
						add("SHIFT", fn, addrExpr(x.X)+" "+x.Op.String()+" "+addrExpr(x.Y), s, ins, d)
					}
				case *ssa.MakeSlice:
					st.mk++
					av := eng.At(fn, x.Len, b)
					s, d := decideRange(av, 0, posInf, false)
					if av.Blowup && av.Taint && s != report.Violated {
						s, d = report.Violated, "allocation size "+av.String()+" is derived from 1<<n with a stream-controlled n that no check keeps below 31: a few header bytes request gigabytes (memory unrelated to the declared image size)"
					}
					add("MAKE", fn, "make("+strings.TrimPrefix(x.Type().String(), load.ModPath+"/")+", "+addrExpr(x.Len)+")", s, ins, d)
				case *ssa.TypeAssert:
					if !x.CommaOk {
						st.assert++
						if _, isIface := x.AssertedType.Underlying().(*types.Interface); isIface {
							add("ASSERT", fn, "("+addrExpr(x.X)+").("+x.AssertedType.String()+")", report.OutOfScope, ins, "interface-to-interface assertion")
						} else if dynamicTypeIs(x.X, x.AssertedType, 0) {
							add("ASSERT", fn, "("+addrExpr(x.X)+").("+x.AssertedType.String()+")", report.Discharged, ins, "the operand is always built from a value of the asserted type (every return of the static callee / the conversion itself)")
						} else {
							add("ASSERT", fn, "("+addrExpr(x.X)+").("+x.AssertedType.String()+")", report.Violated, ins, "type assertion without comma-ok is reachable from an entry point: a different dynamic type panics")
						}
					}
				case *ssa.Panic:
					// go/ssa instruments range-over-func loops with two internal consistency panics
					// (a yield called after the loop ended, an iterator that swallowed a panic); they
					// have no source position and guard the iterator protocol, not input
					if !x.Pos().IsValid() {
						if k, ok := x.X.(*ssa.MakeInterface); ok {
							if kc, ok := k.X.(*ssa.Const); ok && kc.Value != nil && kc.Value.Kind() == constant.String {
								msg := constant.StringVal(kc.Value)
								if strings.HasPrefix(msg, "iterator call did not preserve panic") || strings.HasPrefix(msg, "yield function called after range loop exit") {
									continue
								}
							}
						}
					}
					st.panics++
					add("PANIC", fn, "panic("+addrExpr(x.X)+")", report.Violated, ins, "explicit panic reachable from an entry point")
				}
			}
		}
	}
	return st
}

// dynamicTypeIs: interface value v certainly holds a non-nil value of concrete type t: it is the
// conversion of such a value, or the result of a static call all of whose returns are.
func dynamicTypeIs(v ssa.Value, t types.Type, depth int) bool {
	if depth > 3 {
		return false
	}
	switch x := v.(type) {
	case *ssa.MakeInterface:
		return types.Identical(x.X.Type(), t)
	case *ssa.ChangeInterface:
		return dynamicTypeIs(x.X, t, depth+1)
	case *ssa.Phi:
		for _, e := range x.Edges {
			if !dynamicTypeIs(e, t, depth+1) {
				return false
			}
		}
		return len(x.Edges) > 0
	case *ssa.Call:
		sc := x.Call.StaticCallee()
		if sc == nil || sc.Blocks == nil || sc.Signature.Results().Len() != 1 {
			return false
		}
		n := 0
		for _, b := range sc.Blocks {
			if len(b.Instrs) == 0 {
				continue
			}
			if ret, ok := b.Instrs[len(b.Instrs)-1].(*ssa.Return); ok && len(ret.Results) == 1 {
				n++
				if !dynamicTypeIs(ret.Results[0], t, depth+1) {
					return false
				}
			}
		}
		return n > 0
	}
	return false
}

func runC08(c *Ctx) Info {
	ep, err := c.entryPoints()
	if err != nil {
		c.C.Fatalf("%v", err)
		return Info{Explanation: "failed"}
	}
	intSize := 64
	if c.P.Cfg.GOARCH == "386" {
		intSize = 32
	}
	eng, funcs := c.rangeEngine(ep.Dec, true, intSize)
	if strings.HasPrefix(c.Dump, "vals:") {
		for fn := range funcs {
			if strings.Contains(fn.String(), c.Dump[5:]) {
				fmt.Println("== " + fn.String())
				for _, l := range eng.DumpFunc(fn) {
					fmt.Println(l)
				}
			}
		}
	}
	if c.Dump == "fields" {
		fs := eng.FieldSummaries()
		var ks []string
		for k := range fs {
			ks = append(ks, k)
		}
		sort.Strings(ks)
		for _, k := range ks {
			fmt.Println("FIELD", k, fs[k])
		}
	}
	st := c.rangeObligations(eng, funcs, "")
	sst := c.sliceObligations(eng, funcs, c.streamSliceOracle())
	c.C.Note("slice index sites: %d total, %d with constant index (rule SLICE-CONST)", sst.sites, sst.constSites)
	c.C.Floor("functions", len(funcs), 300)
	c.C.Floor("IDX", st.idx, 100)
	c.C.Floor("DIV", st.div, 30)
	c.C.Floor("MAKE", st.mk, 100)
	for _, r := range []string{"IDX", "DIV", "MAKE", "SHIFT", "ASSERT", "PANIC", "SLICE-CONST", "SLICE-LENREL", "SLICE-UNRELATED"} {
		c.C.ExpectControl(r)
	}
	return Info{
		Explanation:  "Engine E2: interprocedural interval + stream-taint analysis (disjunctive intervals, known-bits, branch refinement on dominating edges, forwarded field loads, call-site parameter joins, field summaries, inlined small helpers) over every function reachable from a decoding entry point. Obligations: every fixed-size-array index, integer divisor, make size, signed shift count, comma-less type assertion and explicit panic. Slice rules: SLICE-CONST (constant index/bound needs a dominating length test), SLICE-ORDER (s[a:a+n] needs n >= 0), SLICE-UNRELATED (s[a:b] with a stream-derived b that is neither computed from a nor compared with it on any dominating edge), SLICE-LENREL (s[len(s)-k] needs len(s) >= k, established in the function or, for a parameter, on the way from every caller up to an exported entry point whose argument is the adversary's). Discharged when the computed set is inside the safe set; violated only on the witness shape (stream-tainted operand that is exactly out of range, or has no limit applied at all on the offending side); everything else is counted out-of-scope.",
		DoesNotCover: "slice / string index and slice-expression bounds with variable operands (relational; only the constant, a:a+n and len-k shapes are decided), nil dereference, nil-map writes, stack exhaustion, image/jpeg internals: a clean run does not imply C08, a violation refutes it",
		Trusted:      commonTrusted,
		Assumptions:  rangeAssumptions,
		Extra:        map[string]any{"functions_analysed": len(funcs), "rounds": eng.Rounds, "sites": map[string]int{"IDX": st.idx, "DIV": st.div, "MAKE": st.mk, "SHIFT": st.shift, "ASSERT": st.assert, "PANIC": st.panics}},
	}
}

// siteObligations judges one instruction of an inlineable helper once per call site and reports
// the worst verdict (naming the call site).
func (c *Ctx) siteObligations(eng *ranges.Engine, fn *ssa.Function, sites []*ranges.SiteCtx, ins ssa.Instruction, b *ssa.BasicBlock, prefix string, st *rangeStats,
	add func(rule string, fn *ssa.Function, construct string, status report.Status, ins ssa.Instruction, detail string)) {
	var rule, construct string
	var operand ssa.Value
	lo, hi := int64(0), posInf
	zero := false
	switch x := ins.(type) {
	case *ssa.IndexAddr:
		n, ok := arrayLenOf(x.X.Type())
		if !ok {
			return
		}
		st.idx++
		rule, operand, hi = "IDX", x.Index, n-1
		construct = addrExpr(x.X) + "[" + addrExpr(x.Index) + "] (len " + fmt.Sprint(n) + ")"
	case *ssa.BinOp:
		switch x.Op {
		case token.QUO, token.REM:
			if bt, ok := x.Type().Underlying().(*types.Basic); !ok || bt.Info()&types.IsInteger == 0 {
				return
			}
			st.div++
			rule, operand, zero = "DIV", x.Y, true
			construct = addrExpr(x.X) + " " + x.Op.String() + " " + addrExpr(x.Y)
		case token.SHL, token.SHR:
			if !isSignedInt(x.Y.Type()) {
				return
			}
			st.shift++
			rule, operand = "SHIFT", x.Y
			construct = addrExpr(x.X) + " " + x.Op.String() + " " + addrExpr(x.Y)
		default:
			return
		}
	case *ssa.MakeSlice:
		st.mk++
		rule, operand = "MAKE", x.Len
		construct = "make(…, " + addrExpr(x.Len) + ")"
	default:
		return
	}
	worst, detail := report.Discharged, ""
	rank := map[report.Status]int{report.Discharged: 0, report.OutOfScope: 1, report.Violated: 2}
	for _, sc := range sites {
		av := sc.At(operand, b)
		s, d := decideRange(av, lo, hi, zero)
		if rank[s] > rank[worst] || detail == "" {
			worst = s
			detail = d + " [call site " + c.P.Pos(sc.Site.Pos()) + " in " + load.FuncName(sc.Caller) + "]"
		}
	}
	add(rule, fn, construct+" (per call site)", worst, ins, fmt.Sprintf("%d call sites; worst: %s", len(sites), detail))
}

func (c *Ctx) streamSliceOracle() func(fn *ssa.Function, v ssa.Value) bool {
	if c.streamOracle != nil {
		return c.streamOracle
	}
	return func(*ssa.Function, ssa.Value) bool { return false }
}
