package props

import (
	"fmt"
	"go/token"
	"go/types"
	"sort"
	"strings"

	"golang.org/x/tools/go/ssa"

	"dcmcheck/internal/load"
	"dcmcheck/internal/ranges"
	"dcmcheck/internal/report"
)

// Slice bounds (rule SLICE, witness-shape only). The interval domain is non-relational, so slice
// accesses are in general out of scope; two shapes are decidable without relating variables:
//
//   S-CONST  s[c] / s[c:] / s[:c] with a constant c on a stream buffer: safe when a dominating
//            test of len(s) establishes len(s) > c (>= c for slice expressions). Violated when no
//            test of len(s) dominates the access at all, in this function or (for a parameter) at
//            every call site.
//   S-ORDER  s[a:b] where b is computed as a + n and the stream-controlled n can be negative
//            (exact), or a and b are unrelated stream values never compared with each other.
//
// Everything else is counted and left out of scope.

// lenFacts collects what dominating conditions say about len(s) at block b.
type lenFact struct {
	min      int64 // proven lower bound on len(s)
	anyCheck bool  // some dominating condition mentions len(s) (or cap(s))
	unparsed bool  // ... and at least one of them could not be turned into a bound (relational test)
	exact    int64 // > 0: the buffer is a helper result of exactly this many bytes (x[a:a+n] for a constant n)
}

func isLenOf(v ssa.Value) (ssa.Value, bool) {
	c, ok := v.(*ssa.Call)
	if !ok {
		return nil, false
	}
	b, ok := c.Call.Value.(*ssa.Builtin)
	if !ok || (b.Name() != "len" && b.Name() != "cap") || len(c.Call.Args) != 1 {
		return nil, false
	}
	return c.Call.Args[0], true
}

// windowRoots: the buffers v is a (possibly loop-carried) window of: v itself, and through slice
// expressions and phis whatever it was re-sliced from.
func windowRoots(v ssa.Value, out map[ssa.Value]bool, depth int) {
	if v == nil || out[v] || depth > 6 {
		return
	}
	out[v] = true
	switch x := v.(type) {
	case *ssa.Slice:
		windowRoots(x.X, out, depth+1)
	case *ssa.Phi:
		for _, e := range x.Edges {
			windowRoots(e, out, depth+1)
		}
	}
}

// relatedSlice: a and b are the same buffer or windows of a common buffer (values = values[4:] in a
// loop over a buffer whose total length was tested once, before the loop).
func relatedSlice(a, b ssa.Value) bool {
	if sameSlice(a, b) {
		return true
	}
	ra, rb := map[ssa.Value]bool{}, map[ssa.Value]bool{}
	windowRoots(a, ra, 0)
	windowRoots(b, rb, 0)
	for x := range ra {
		for y := range rb {
			if sameSlice(x, y) {
				return true
			}
		}
	}
	return false
}

func sameSlice(a, b ssa.Value) bool {
	if a == b {
		return true
	}
	// loads of the same field of the same object
	ua, ok1 := a.(*ssa.UnOp)
	ub, ok2 := b.(*ssa.UnOp)
	if ok1 && ok2 && ua.Op == token.MUL && ub.Op == token.MUL {
		return sameBase(ua, ub)
	}
	return false
}

// mentionsLen: does the expression tree of v contain len(s)?
func mentionsLen(v ssa.Value, s ssa.Value, depth int) bool {
	if depth > 5 || v == nil {
		return false
	}
	if x, ok := isLenOf(v); ok && relatedSlice(x, s) {
		return true
	}
	switch y := v.(type) {
	case *ssa.BinOp:
		return mentionsLen(y.X, s, depth+1) || mentionsLen(y.Y, s, depth+1)
	case *ssa.Convert:
		return mentionsLen(y.X, s, depth+1)
	case *ssa.Phi:
		for _, e := range y.Edges {
			if mentionsLen(e, s, depth+1) {
				return true
			}
		}
	}
	return false
}

func (c *Ctx) lenFactsAt(eng *ranges.Engine, fn *ssa.Function, s ssa.Value, b *ssa.BasicBlock) lenFact {
	return c.lenFactsAtDepth(eng, fn, s, b, 0)
}

// lenMinOnOutcome: the lower bound on len(param i) that holds whenever helper sc returns with
// result ridx equal to `want` (bool value / nil error), from the tests dominating those returns.
func (c *Ctx) lenMinOnOutcome(eng *ranges.Engine, sc *ssa.Function, i, ridx int, want bool, depth int) (min int64, parsed, mentions bool) {
	if depth > 2 || i >= len(sc.Params) {
		return 0, true, false
	}
	q := sc.Params[i]
	best := int64(-1)
	parsed = true
	for _, b := range sc.Blocks {
		if len(b.Instrs) == 0 {
			continue
		}
		ret, ok := b.Instrs[len(b.Instrs)-1].(*ssa.Return)
		if !ok || ridx >= len(ret.Results) {
			continue
		}
		rv := ret.Results[ridx]
		if k, ok := rv.(*ssa.Const); ok {
			if rv.Type().String() == "error" {
				if k.IsNil() != want {
					continue
				}
			} else if k.Value != nil && (k.Value.String() == "true") != want {
				continue
			}
		} else if rv.Type().String() == "error" && want {
			// a non-constant error value on the success outcome: only if it may be nil
			if definitelyNonNilError(ret, ridx) {
				continue
			}
		}
		f := c.lenFactsAtDepth(eng, sc, q, b, depth+1)
		if f.anyCheck {
			mentions = true
		}
		if f.unparsed {
			parsed = false
		}
		if best < 0 || f.min < best {
			best = f.min
		}
	}
	if best < 0 {
		best = 0
	}
	return best, parsed, mentions
}

// resultLenOnOutcome: a lower bound on len(result resIdx) of call whenever its result outIdx has the
// outcome `want` (bool value / nil error): the minimum over the callee's matching returns of the
// returned slice's length, where a slice expression x[a:a+n] / x[:n] with n a parameter of the callee
// takes the lower bound of the corresponding argument at the call.
func (c *Ctx) resultLenOnOutcome(eng *ranges.Engine, fn *ssa.Function, call *ssa.Call, resIdx, outIdx int, want bool, depth int) (int64, bool, bool) {
	sc := call.Call.StaticCallee()
	if sc == nil || sc.Blocks == nil || !load.InScope(sc) || depth > 2 || len(call.Call.Args) != len(sc.Params) {
		return 0, false, false
	}
	best := int64(-1)
	allExact := true
	for _, rb := range sc.Blocks {
		if len(rb.Instrs) == 0 {
			continue
		}
		ret, ok := rb.Instrs[len(rb.Instrs)-1].(*ssa.Return)
		if !ok || resIdx >= len(ret.Results) || outIdx >= len(ret.Results) {
			continue
		}
		ov := ret.Results[outIdx]
		if k, ok := ov.(*ssa.Const); ok {
			if ov.Type().String() == "error" {
				if k.IsNil() != want {
					continue
				}
			} else if k.Value != nil && (k.Value.String() == "true") != want {
				continue
			}
		} else if ov.Type().String() == "error" && want && definitelyNonNilError(ret, outIdx) {
			continue
		}
		m := int64(0)
		exactHere := false
		rv := ret.Results[resIdx]
		if sl, ok := rv.(*ssa.Slice); ok && sl.High != nil {
			// length = high - low
			var n ssa.Value
			if sl.Low == nil {
				n = sl.High
			} else if bo, ok := sl.High.(*ssa.BinOp); ok && bo.Op == token.ADD {
				if sameExpr(bo.X, sl.Low, 0) {
					n = bo.Y
				} else if sameExpr(bo.Y, sl.Low, 0) {
					n = bo.X
				}
			}
			if n != nil {
				if pi := paramIndex(sc, stripConv(n)); pi >= 0 {
					av := eng.At(fn, call.Call.Args[pi], call.Block())
					if !av.IsBottom() && av.Lo() > 0 {
						m = av.Lo()
						exactHere = av.Lo() == av.Hi()
					}
				} else if k, ok := n.(*ssa.Const); ok && k.Value != nil {
					m = k.Int64()
					exactHere = true
				}
			}
		}
		if m == 0 {
			if mm, ok := c.lenLowerOfValue(eng, sc, rv, rb, depth+1); ok {
				m = mm
			}
		}
		if !exactHere || (best >= 0 && m != best) {
			allExact = false
		}
		if best < 0 || m < best {
			best = m
		}
	}
	if best < 0 {
		return 0, false, false
	}
	return best, true, allExact
}

func (c *Ctx) lenFactsAtDepth(eng *ranges.Engine, fn *ssa.Function, s ssa.Value, b *ssa.BasicBlock, depth int) lenFact {
	var f lenFact
	// s is a result of a helper call whose outcome is tested on a dominating edge
	// (chunk, ok := seg.Next(6); if !ok { return err } / b, err := r.fill(2); if err != nil { … })
	if ex, ok := s.(*ssa.Extract); ok {
		if call, ok := ex.Tuple.(*ssa.Call); ok {
			for cb := b; cb != nil; cb = cb.Idom() {
				d := cb.Idom()
				if d == nil {
					break
				}
				if len(cb.Preds) != 1 || cb.Preds[0] != d || len(d.Succs) != 2 {
					continue
				}
				if oc, ridx, wantOnTrue, ok := ranges.OutcomeOfCond(ifCond(d)); ok && oc == call {
					want := wantOnTrue == (d.Succs[0] == cb)
					// the helper hands back a tail of its argument (payload, ok := body(data, magic) with
					// `return data[7:], true`): every length test of the argument made before this point
					// carries over, minus the offset (if len(com.Data) <= 12 { continue }; payload[5:])
					if arg, k, ok := resultTailOfArg(call, ex.Index, ridx, want); ok && depth < 2 {
						pf := c.lenFactsAtDepth(eng, fn, arg, b, depth+1)
						if pf.min-k > f.min {
							f.min = pf.min - k
							f.anyCheck = true
						}
						if pf.unparsed {
							f.unparsed = true
						}
					}
					if m, ok, isExact := c.resultLenOnOutcome(eng, fn, call, ex.Index, ridx, want, depth); ok && m > 0 {
						if isExact {
							f.exact = m
						}
						// the outcome test is a length test only if the helper guarantees a length on
						// that outcome (an error test alone says nothing about len)
						if m > f.min {
							f.min = m
						}
						f.anyCheck = true
					}
				}
			}
		}
	}
	if m, known := c.lenLowerOfValue(eng, fn, s, b, 0); known {
		if m > f.min {
			f.min = m
		}
		f.anyCheck = f.anyCheck || m > 0
	}
	// a tail of another slice (rest := data[k:]): the tests of the parent's length carry over
	if sl, ok := s.(*ssa.Slice); ok && sl.High == nil && sl.Max == nil && depth < 2 {
		if _, isSl := sl.X.Type().Underlying().(*types.Slice); isSl {
			if k, ok := constIntOr(sl.Low, 0); ok && k >= 0 {
				pf := c.lenFactsAtDepth(eng, fn, sl.X, b, depth+1)
				if pf.min-k > f.min {
					f.min = pf.min - k
					f.anyCheck = true
				}
			}
		}
	}
	for cb := b; cb != nil; cb = cb.Idom() {
		d := cb.Idom()
		if d == nil {
			break
		}
		if len(cb.Preds) != 1 || cb.Preds[0] != d || len(d.Succs) != 2 {
			continue
		}
		onTrue := d.Succs[0] == cb
		// the length is tested inside a checking helper: if !isFrameHeader(data) { return err }
		if call, ridx, wantOnTrue, ok := ranges.OutcomeOfCond(ifCond(d)); ok {
			if sc := call.Call.StaticCallee(); sc != nil && sc.Blocks != nil && !call.Call.IsInvoke() && len(call.Call.Args) == len(sc.Params) {
				for i, a := range call.Call.Args {
					if !sameSlice(a, s) {
						continue
					}
					m, parsed, mentions := c.lenMinOnOutcome(eng, sc, i, ridx, wantOnTrue == onTrue, depth)
					if mentions {
						f.anyCheck = true
					}
					if !parsed {
						f.unparsed = true
					}
					if m > f.min {
						f.min = m
					}
				}
			}
			continue
		}
		cond, ok := ifCond(d).(*ssa.BinOp)
		if !ok {
			continue
		}
		op := cond.Op
		x, y := cond.X, cond.Y
		mentions := mentionsLen(x, s, 0) || mentionsLen(y, s, 0)
		if mentions {
			f.anyCheck = true
		}
		// normalise to len(s) OP k
		var k ssa.Value
		if lx, ok := isLenOf(x); ok && sameSlice(lx, s) {
			k = y
		} else if ly, ok := isLenOf(y); ok && sameSlice(ly, s) {
			k = x
			switch op {
			case token.LSS:
				op = token.GTR
			case token.LEQ:
				op = token.GEQ
			case token.GTR:
				op = token.LSS
			case token.GEQ:
				op = token.LEQ
			}
		} else {
			if mentions {
				f.unparsed = true
			}
			continue
		}
		if !onTrue {
			switch op {
			case token.LSS:
				op = token.GEQ
			case token.LEQ:
				op = token.GTR
			case token.GTR:
				op = token.LEQ
			case token.GEQ:
				op = token.LSS
			case token.EQL:
				op = token.NEQ
			case token.NEQ:
				op = token.EQL
			}
		}
		kv := eng.At(fn, k, d)
		if kv.IsBottom() {
			f.unparsed = true
			continue
		}
		if _, isConst := k.(*ssa.Const); !isConst {
			f.unparsed = true // compared with a variable: the bound below is sound but not all that is known
		}
		switch op {
		case token.GEQ, token.EQL:
			if kv.Lo() > f.min {
				f.min = kv.Lo()
			}
		case token.GTR:
			if kv.Lo()+1 > f.min && kv.Lo() < posInf {
				f.min = kv.Lo() + 1
			}
		case token.NEQ:
			if kv.Lo() == 0 && kv.Hi() == 0 && f.min < 1 {
				f.min = 1 // len(s) != 0
			}
		}
	}
	return f
}

type sliceStats struct{ sites, constSites, orderSites int }

func (c *Ctx) sliceObligations(eng *ranges.Engine, funcs map[*ssa.Function]bool, streamSlice func(fn *ssa.Function, v ssa.Value) bool) sliceStats {
	var st sliceStats
	var fns []*ssa.Function
	for fn := range funcs {
		fns = append(fns, fn)
	}
	sort.Slice(fns, func(i, j int) bool { return fns[i].String() < fns[j].String() })
	seen := map[string]int{}
	add := func(rule string, fn *ssa.Function, construct string, status report.Status, ins ssa.Instruction, detail string) {
		key := rule + "|" + fn.String() + "|" + construct
		seen[key]++
		if seen[key] > 1 {
			construct = fmt.Sprintf("%s #%d", construct, seen[key])
		}
		c.add(rule, fn, construct, status, c.P.Pos(ins.Pos()), detail)
	}
	for _, fn := range fns {
		for _, b := range fn.Blocks {
			for _, ins := range b.Instrs {
				switch x := ins.(type) {
				case *ssa.Slice:
					if _, isSlice := x.X.Type().Underlying().(*types.Slice); !isSlice {
						continue
					}
					st.sites++
					// S-CONST on slice expressions: the largest constant bound must not exceed len
					maxConst := int64(-1)
					for _, bd := range []ssa.Value{x.Low, x.High} {
						if k, ok := bd.(*ssa.Const); ok && k.Value != nil && k.Int64() > maxConst {
							maxConst = k.Int64()
						}
					}
					if maxConst > 0 {
						st.constSites++
						f := c.lenFactsAt(eng, fn, x.X, b)
						construct := addrExpr(x.X) + "[" + addrExpr(x.Low) + ":" + addrExpr(x.High) + "]"
						switch {
						case f.min >= maxConst:
							add("SLICE-CONST", fn, construct, report.Discharged, ins, fmt.Sprintf("len >= %d established", f.min))
						case f.anyCheck || !streamSlice(fn, x.X):
							add("SLICE-CONST", fn, construct, report.OutOfScope, ins, "length is tested or the buffer is not stream data; bound not established in the domain")
						default:
							if _, isParam := x.X.(*ssa.Parameter); isParam {
								add("SLICE-CONST", fn, construct, report.OutOfScope, ins, "slice is a parameter: length contract with the callers is not decided")
							} else if why := lengthAsked(x.X, b); why != "" {
								add("SLICE-CONST", fn, construct, report.OutOfScope, ins, "a dominating branch asks about the buffer ("+why+"); what that establishes is not decided")
							} else {
								add("SLICE-CONST", fn, construct, report.Violated, ins, fmt.Sprintf("constant slice bound %d on a stream buffer with no test of its length on any dominating path", maxConst))
							}
						}
					}
					// S-UNRELATED: neither bound is computed from the other and no test relates them
					if x.Low != nil && x.High != nil {
						if st2, d := c.unrelatedBounds(eng, fn, x, b); st2 == report.Violated {
							st.orderSites++
							construct := addrExpr(x.X) + "[" + addrExpr(x.Low) + " : " + addrExpr(x.High) + "]"
							if streamSlice(fn, x.X) {
								add("SLICE-UNRELATED", fn, construct, report.Violated, ins, "the slice expression needs low <= high, but "+d+": no dominating test mentions both, and the high bound comes from the stream — a stream that makes it smaller than the low bound panics with slice bounds out of range")
							} else {
								add("SLICE-UNRELATED", fn, construct, report.OutOfScope, ins, "bounds never compared, but the buffer is not stream data")
							}
						} else if st2 == report.Discharged && d == "a dominating comparison relates the bounds" {
							st.orderSites++
							add("SLICE-UNRELATED", fn, addrExpr(x.X)+"["+addrExpr(x.Low)+" : "+addrExpr(x.High)+"]", report.Discharged, ins, d)
						}
					}
					// S-ORDER: s[a : a+n] needs n >= 0
					if x.Low != nil && x.High != nil {
						if bo, ok := x.High.(*ssa.BinOp); ok && bo.Op == token.ADD {
							var n ssa.Value
							if sameSlice(bo.X, x.Low) || bo.X == x.Low {
								n = bo.Y
							} else if sameSlice(bo.Y, x.Low) || bo.Y == x.Low {
								n = bo.X
							}
							if n != nil {
								st.orderSites++
								nv := eng.At(fn, n, b)
								construct := addrExpr(x.X) + "[" + addrExpr(x.Low) + " : " + addrExpr(x.Low) + "+" + addrExpr(n) + "]"
								sts, d := decideRange(nv, 0, posInf, false)
								if c.Dump == "unordered" {
									fmt.Printf("UNORDERED site %s %s status=%v taint=%v stream=%v\n", load.FuncName(fn), construct, sts, nv.Taint, streamSlice(fn, x.X))
								}
								if sts == report.OutOfScope && nv.Taint && streamSlice(fn, x.X) {
									if pair, found := c.unorderedDifference(eng, fn, n, b); found {
										sts, d = report.Violated, "it is the difference "+pair+" of two stream-derived quantities, and no branch anywhere in the library compares the two: a stream that makes the second larger gives a negative length (slice bounds out of range)"
									}
								}
								add("SLICE-ORDER", fn, construct, sts, ins, "length operand of the slice expression: "+d)
							}
						}
					}
				case *ssa.IndexAddr:
					if _, isSlice := x.X.Type().Underlying().(*types.Slice); !isSlice {
						continue
					}
					st.sites++
					k, isConst := x.Index.(*ssa.Const)
					if need, ok := lenMinusConst(x.Index, x.X); ok && !isConst {
						// s[len(s)-k]: needs len(s) >= k
						st.constSites++
						construct := addrExpr(x.X) + fmt.Sprintf("[len-%d]", need)
						sts, detail := c.lenAtLeast(eng, funcs, streamSlice, fn, x.X, b, need)
						add("SLICE-LENREL", fn, construct, sts, ins, detail)
						continue
					}
					if !isConst {
						if c.Dump == "slicevar" {
							f := c.lenFactsAt(eng, fn, x.X, b)
							av := eng.At(fn, x.Index, b)
							if !f.anyCheck && av.Taint {
								fmt.Printf("SLICEVAR %s %s %s[%s] idx=%s stream=%v\n", c.P.Pos(ins.Pos()), fn.String(), addrExpr(x.X), addrExpr(x.Index), av.String(), streamSlice(fn, x.X))
							}
						}
						continue
					}
					st.constSites++
					f := c.lenFactsAt(eng, fn, x.X, b)
					construct := addrExpr(x.X) + "[" + k.Value.String() + "]"
					switch {
					case f.exact > 0 && k.Int64() >= f.exact && !f.unparsed:
						add("SLICE-CONST", fn, construct, report.Violated, ins, fmt.Sprintf("the buffer is the result of a helper that returns exactly %d bytes on the tested outcome; constant index %s is past its end on every execution that gets here", f.exact, k.Value.String()))
					case f.min > k.Int64():
						add("SLICE-CONST", fn, construct, report.Discharged, ins, fmt.Sprintf("len >= %d established on a dominating edge", f.min))
					case f.anyCheck || !streamSlice(fn, x.X):
						add("SLICE-CONST", fn, construct, report.OutOfScope, ins, "length is tested or the buffer is not stream data; bound not established in the domain")
					default:
						if _, isParam := x.X.(*ssa.Parameter); isParam {
							add("SLICE-CONST", fn, construct, report.OutOfScope, ins, "slice is a parameter: length contract with the callers is not decided")
							continue
						}
						if why := lengthAsked(x.X, b); why != "" {
							add("SLICE-CONST", fn, construct, report.OutOfScope, ins, "a dominating branch asks about the buffer ("+why+"); what that establishes is not decided")
							continue
						}
						add("SLICE-CONST", fn, construct, report.Violated, ins, fmt.Sprintf("constant index %s into a stream buffer with no test of its length on any dominating path: a truncated segment panics with index out of range", k.Value.String()))
					}
				}
			}
		}
	}
	return st
}

// leavesOf: the leaf values (parameters, loads, calls, phis) an integer expression is built from.
func leavesOf(v ssa.Value) []ssa.Value {
	var out []ssa.Value
	seen := map[ssa.Value]bool{}
	var walk func(x ssa.Value, depth int)
	walk = func(x ssa.Value, depth int) {
		if x == nil || seen[x] || depth > 12 {
			return
		}
		seen[x] = true
		switch y := x.(type) {
		case *ssa.BinOp:
			walk(y.X, depth+1)
			walk(y.Y, depth+1)
		case *ssa.Convert:
			walk(y.X, depth+1)
		case *ssa.ChangeType:
			walk(y.X, depth+1)
		case *ssa.UnOp:
			if y.Op == token.MUL {
				out = append(out, x) // a load: the leaf is the memory cell, not the object it lives in
				return
			}
			walk(y.X, depth+1)
		case *ssa.Call:
			if b, ok := y.Call.Value.(*ssa.Builtin); ok && (b.Name() == "len" || b.Name() == "cap" || b.Name() == "min" || b.Name() == "max") {
				if b.Name() == "min" || b.Name() == "max" {
					for _, a := range y.Call.Args {
						walk(a, depth+1)
					}
				}
				return
			}
			out = append(out, x)
		case *ssa.Phi:
			// a loop cursor (end := start; for … { end++ }) is built from what flows into it: the phi
			// itself is a leaf (a test may mention it) and so is everything on its edges
			out = append(out, x)
			for _, e := range y.Edges {
				walk(e, depth+1)
			}
		case *ssa.Parameter, *ssa.Extract, *ssa.FreeVar:
			out = append(out, x)
		}
	}
	walk(v, 0)
	return out
}

func hasLeaf(set []ssa.Value, v ssa.Value) bool {
	for _, s := range set {
		if s == v || sameBase(s, v) {
			return true
		}
	}
	return false
}

// unrelatedBounds: s[a:b] with a stream-derived b needs a <= b. Decided only on the shape where
// nothing relates the two: b is not computed from a, and no dominating comparison mentions a leaf
// of a together with a leaf of b.
func (c *Ctx) unrelatedBounds(eng *ranges.Engine, fn *ssa.Function, x *ssa.Slice, b *ssa.BasicBlock) (report.Status, string) {
	if _, ok := x.Low.(*ssa.Const); ok {
		return report.Discharged, "constant low bound"
	}
	if _, ok := x.High.(*ssa.Const); ok {
		return report.Discharged, "constant high bound"
	}
	hv := eng.At(fn, x.High, b)
	lv := eng.At(fn, x.Low, b)
	if hv.IsBottom() || !hv.Taint {
		return report.Discharged, "high bound is not stream-derived"
	}
	if !lv.IsBottom() && !hv.IsBottom() && lv.Hi() <= hv.Lo() {
		return report.Discharged, "ranges ordered"
	}
	la, lb := leavesOf(x.Low), leavesOf(x.High)
	for _, a := range la {
		if hasLeaf(lb, a) {
			return report.Discharged, "high bound computed from the low bound"
		}
	}
	// a bound produced by a helper (end, ok := p.dataEnd(start, n)) may have been related to the
	// other one inside it: only bounds built here, from parameters and loads, are the witness shape
	for _, l := range append(append([]ssa.Value{}, la...), lb...) {
		switch l.(type) {
		case *ssa.Call, *ssa.Extract:
			return report.Discharged, "a bound is the result of a call: not decided"
		}
	}
	for cb := b; cb != nil; cb = cb.Idom() {
		d := cb.Idom()
		if d == nil {
			break
		}
		cond := ifCond(d)
		if cond == nil {
			continue
		}
		lc := leavesOf(cond)
		ra, rb := false, false
		for _, a := range la {
			if hasLeaf(lc, a) {
				ra = true
			}
		}
		for _, bb := range lb {
			if hasLeaf(lc, bb) {
				rb = true
			}
		}
		if ra && rb {
			return report.Discharged, "a dominating comparison relates the bounds"
		}
	}
	return report.Violated, fmt.Sprintf("low %s and high %s are never compared", lv.String(), hv.String())
}

// lenMinusConst: v is len(s) - k for a constant k > 0 (s the indexed slice itself).
func lenMinusConst(v ssa.Value, s ssa.Value) (int64, bool) {
	bo, ok := v.(*ssa.BinOp)
	if !ok || bo.Op != token.SUB {
		return 0, false
	}
	k, ok := bo.Y.(*ssa.Const)
	if !ok || k.Value == nil || k.Int64() <= 0 {
		return 0, false
	}
	if x, ok := isLenOf(bo.X); ok && sameSlice(x, s) {
		return k.Int64(), true
	}
	return 0, false
}

// lenAtLeast decides whether len(s) >= need is established at block b of fn: by the dominating
// tests in fn, or — for a parameter — by the tests in front of every call. It is violated only
// when everything that is tested about the length is understood and establishes less.
func (c *Ctx) lenAtLeast(eng *ranges.Engine, funcs map[*ssa.Function]bool, streamSlice func(fn *ssa.Function, v ssa.Value) bool, fn *ssa.Function, s ssa.Value, b *ssa.BasicBlock, need int64) (report.Status, string) {
	return c.lenAtLeastRec(eng, funcs, streamSlice, fn, s, b, need, 0, 0)
}

func (c *Ctx) lenAtLeastRec(eng *ranges.Engine, funcs map[*ssa.Function]bool, streamSlice func(fn *ssa.Function, v ssa.Value) bool, fn *ssa.Function, s ssa.Value, b *ssa.BasicBlock, need int64, have int64, depth int) (report.Status, string) {
	f := c.lenFactsAt(eng, fn, s, b)
	if have > f.min {
		f.min = have // established further down the call chain, still true here
	}
	if f.min >= need {
		return report.Discharged, fmt.Sprintf("len >= %d established on a dominating edge in %s", f.min, load.FuncName(fn))
	}
	if f.unparsed {
		return report.OutOfScope, "the length is tested against a variable quantity in " + load.FuncName(fn) + "; bound not established in the domain"
	}
	p, isParam := s.(*ssa.Parameter)
	if !isParam {
		if streamSlice(fn, s) {
			return report.Violated, fmt.Sprintf("the index len-%d needs len >= %d, but the only length tests before it (in %s) establish len >= %d: a shorter stream buffer panics with index out of range", need, need, load.FuncName(fn), f.min)
		}
		return report.OutOfScope, "buffer is not stream data"
	}
	if depth > 3 {
		return report.OutOfScope, "buffer passed down through more than three levels: not followed"
	}
	pi := paramIndex(fn, p)
	sites := 0
	var viol, oos string
	var fns []*ssa.Function
	for caller := range funcs {
		fns = append(fns, caller)
	}
	sort.Slice(fns, func(i, j int) bool { return fns[i].String() < fns[j].String() })
	for _, caller := range fns {
		for _, cb := range caller.Blocks {
			for _, ins := range cb.Instrs {
				call, ok := ins.(ssa.CallInstruction)
				if !ok || call.Common().StaticCallee() != fn || pi >= len(call.Common().Args) {
					continue
				}
				sites++
				st, d := c.lenAtLeastRec(eng, funcs, streamSlice, caller, call.Common().Args[pi], cb, need, f.min, depth+1)
				switch st {
				case report.Violated:
					if viol == "" {
						viol = d + " (passed on at " + c.P.Pos(ins.Pos()) + ")"
					}
				case report.OutOfScope:
					if oos == "" {
						oos = d
					}
				}
			}
		}
	}
	exported := fn.Object() != nil && fn.Object().Exported()
	if exported && isByteSlice(p.Type()) {
		// an exported decoding entry point: its caller is the adversary, any length arrives
		if viol == "" {
			viol = fmt.Sprintf("the index len-%d needs len >= %d, but %s is an exported entry point and the only length tests between it and the access establish len >= %d: a %d-byte argument panics with index out of range", need, need, load.FuncName(fn), f.min, f.min)
		}
	} else if sites == 0 {
		return report.OutOfScope, "slice is a parameter with no static call site in the analysed code"
	}
	switch {
	case viol != "":
		return report.Violated, viol
	case oos != "":
		return report.OutOfScope, oos
	}
	return report.Discharged, fmt.Sprintf("every one of the %d call sites establishes len >= %d", sites, need)
}

// sameExpr: two SSA values denote the same pure integer expression (go/ssa performs no common
// subexpression elimination, so `1+i*2` written twice is two instructions).
func sameExpr(a, b ssa.Value, depth int) bool {
	if a == b {
		return true
	}
	if depth > 6 || a == nil || b == nil {
		return false
	}
	switch x := a.(type) {
	case *ssa.Const:
		y, ok := b.(*ssa.Const)
		return ok && x.Value != nil && y.Value != nil && types.Identical(x.Type(), y.Type()) && x.Value.ExactString() == y.Value.ExactString()
	case *ssa.BinOp:
		y, ok := b.(*ssa.BinOp)
		return ok && x.Op == y.Op && sameExpr(x.X, y.X, depth+1) && sameExpr(x.Y, y.Y, depth+1)
	case *ssa.Convert:
		y, ok := b.(*ssa.Convert)
		return ok && types.Identical(x.Type(), y.Type()) && sameExpr(x.X, y.X, depth+1)
	case *ssa.UnOp:
		// s.off read twice inside one expression (s.payload[s.off : s.off+n]): same block, no store
		// or call between the two loads
		y, ok := b.(*ssa.UnOp)
		if !ok || x.Op != token.MUL || y.Op != token.MUL || x.Block() != y.Block() || !sameBase(x, y) {
			return false
		}
		i, j := -1, -1
		for k, ins := range x.Block().Instrs {
			if ins == ssa.Instruction(x) {
				i = k
			}
			if ins == ssa.Instruction(y) {
				j = k
			}
		}
		if i > j {
			i, j = j, i
		}
		for k := i + 1; k < j; k++ {
			switch x.Block().Instrs[k].(type) {
			case *ssa.Store, ssa.CallInstruction, *ssa.MapUpdate:
				return false
			}
		}
		return i >= 0
	}
	return false
}

// lenLowerOfValue: a lower bound on len(v) derivable from how v was made (make with a bounded
// size, a slice field whose every assignment has a bounded size).
func (c *Ctx) lenLowerOfValue(eng *ranges.Engine, fn *ssa.Function, v ssa.Value, b *ssa.BasicBlock, depth int) (int64, bool) {
	if depth > 3 {
		return 0, false
	}
	switch x := v.(type) {
	case *ssa.MakeSlice:
		av := eng.At(fn, x.Len, x.Block())
		if !av.IsBottom() && av.Lo() > 0 {
			return av.Lo(), true
		}
		return 0, true
	case *ssa.Slice:
		// a slice expression that did not panic has exactly high-low elements
		if _, isStr := x.X.Type().Underlying().(*types.Basic); isStr {
			return 0, false
		}
		lo := int64(0)
		loConst := x.Low == nil
		if k, ok := x.Low.(*ssa.Const); ok && k.Value != nil {
			lo, loConst = k.Int64(), true
		}
		if x.High == nil {
			if !loConst {
				return 0, false
			}
			m, ok := c.lenLowerOfValue(eng, fn, x.X, b, depth+1)
			if _, isArr := x.X.Type().Underlying().(*types.Pointer); isArr {
				if at, ok2 := x.X.Type().Underlying().(*types.Pointer).Elem().Underlying().(*types.Array); ok2 {
					m, ok = at.Len(), true
				}
			}
			if !ok || m < lo {
				return 0, ok
			}
			return m - lo, true
		}
		if k, ok := x.High.(*ssa.Const); ok && k.Value != nil && loConst {
			return k.Int64() - lo, true
		}
		if bo, ok := x.High.(*ssa.BinOp); ok && bo.Op == token.ADD && x.Low != nil {
			if k, ok := bo.Y.(*ssa.Const); ok && k.Value != nil && sameExpr(bo.X, x.Low, 0) && k.Int64() >= 0 {
				return k.Int64(), true
			}
			if k, ok := bo.X.(*ssa.Const); ok && k.Value != nil && sameExpr(bo.Y, x.Low, 0) && k.Int64() >= 0 {
				return k.Int64(), true
			}
		}
		return 0, false
	case *ssa.UnOp:
		if x.Op != token.MUL {
			return 0, false
		}
		fa, ok := x.X.(*ssa.FieldAddr)
		if !ok {
			return 0, false
		}
		return c.fieldMinLen(eng, fa, depth)
	case *ssa.Call:
		// append(base, a, b, …): at least len(base) + number of appended elements
		if bi, ok := x.Call.Value.(*ssa.Builtin); ok && bi.Name() == "append" && len(x.Call.Args) >= 1 {
			m, ok := c.lenLowerOfValue(eng, fn, x.Call.Args[0], b, depth+1)
			if !ok {
				m = 0
			}
			if len(x.Call.Args) == 2 {
				if sl, ok := x.Call.Args[1].(*ssa.Slice); ok {
					if al, ok := sl.X.(*ssa.Alloc); ok && al.Comment == "varargs" {
						if at, ok := al.Type().(*types.Pointer).Elem().Underlying().(*types.Array); ok {
							m += at.Len()
						}
					}
				} else if m2, ok := c.lenLowerOfValue(eng, fn, x.Call.Args[1], b, depth+1); ok {
					m += m2
				}
			}
			return m, true
		}
		// a helper that builds the buffer (withSentinel(data)): the minimum over its returns
		sc := x.Call.StaticCallee()
		if sc == nil || sc.Blocks == nil || !load.InScope(sc) || sc.Signature.Results().Len() != 1 {
			return 0, false
		}
		best := int64(-1)
		for _, rb := range sc.Blocks {
			if len(rb.Instrs) == 0 {
				continue
			}
			ret, ok := rb.Instrs[len(rb.Instrs)-1].(*ssa.Return)
			if !ok || len(ret.Results) != 1 {
				continue
			}
			m, ok := c.lenLowerOfValue(eng, sc, ret.Results[0], rb, depth+1)
			if !ok {
				return 0, false
			}
			if best < 0 || m < best {
				best = m
			}
		}
		if best < 0 {
			return 0, false
		}
		return best, true
	case *ssa.Phi:
		best := int64(-1)
		for _, e := range x.Edges {
			m, ok := c.lenLowerOfValue(eng, fn, e, b, depth+1)
			if !ok {
				return 0, false
			}
			if best < 0 || m < best {
				best = m
			}
		}
		if best < 0 {
			best = 0
		}
		return best, true
	}
	return 0, false
}

// fieldMinLen: the minimum length of a slice-typed struct field over every store to it in library
// code; 0 when some allocation may leave it nil.
func (c *Ctx) fieldMinLen(eng *ranges.Engine, fa *ssa.FieldAddr, depth int) (int64, bool) {
	owner := namedOfRecv(fa.X.Type())
	if owner == nil {
		return 0, false
	}
	key := fmt.Sprintf("%p/%d", owner.Obj(), fa.Field)
	if c.minLenMemo == nil {
		c.minLenMemo = map[string][2]int64{}
	}
	if r, ok := c.minLenMemo[key]; ok {
		return r[0], r[1] == 1
	}
	c.minLenMemo[key] = [2]int64{0, 0}
	if eng.FieldMayBeZero(owner.Obj(), fa.Field) {
		return 0, false
	}
	best := int64(-1)
	for _, fn := range c.scopeFuncs() {
		if !eng.Analysed(fn) {
			continue
		}
		for _, b := range fn.Blocks {
			for _, ins := range b.Instrs {
				st, ok := ins.(*ssa.Store)
				if !ok {
					continue
				}
				sfa, ok := st.Addr.(*ssa.FieldAddr)
				if !ok || sfa.Field != fa.Field {
					continue
				}
				if o := namedOfRecv(sfa.X.Type()); o == nil || o.Obj() != owner.Obj() {
					continue
				}
				m, ok := c.lenLowerOfValue(eng, fn, st.Val, b, depth+1)
				if !ok {
					return 0, false
				}
				if best < 0 || m < best {
					best = m
				}
			}
		}
	}
	if best <= 0 {
		return 0, false
	}
	c.minLenMemo[key] = [2]int64{best, 1}
	return best, true
}

// ---------------------------------------------------------------------------------------------
// Unordered difference: a length n = X - Y built from two stream-derived quantities that no test
// anywhere in the library ever orders (X >= Y) can be negative, and s[a : a+n] then panics with
// slice bounds out of range. Quantities are identified by where they live, not by SSA value: a
// struct field (any element of an array/slice field counts as the field), len() of a field, or a
// local value that is stored into such a field. The verdict is given only when both operands
// resolve to such keys; parameters, phis of unrelated things and arithmetic are not decided.

// storageKeyOfAddr: "pkg.Type.field" when addr is (an element of) a field of a named struct.
func storageKeyOfAddr(addr ssa.Value) string {
	for i := 0; i < 6; i++ {
		switch a := addr.(type) {
		case *ssa.IndexAddr:
			addr = a.X
		case *ssa.UnOp:
			if a.Op != token.MUL {
				return ""
			}
			addr = a.X
		case *ssa.FieldAddr:
			if n := namedOfRecv(a.X.Type()); n != nil && n.Obj().Pkg() != nil {
				return n.Obj().Pkg().Path() + "." + n.Obj().Name() + "." + fieldNameOf(a.X.Type(), a.Field)
			}
			return ""
		default:
			return ""
		}
	}
	return ""
}

// srcKeys: the storage keys v is read from (through helper calls that return such reads, depth 2).
func srcKeys(v ssa.Value, depth int) (keys map[string]bool, ok bool) {
	keys = map[string]bool{}
	ok = true
	var walk func(x ssa.Value, d int)
	seen := map[ssa.Value]bool{}
	fieldKeyOf := storageKeyOfAddr
	walk = func(x ssa.Value, d int) {
		if seen[x] || d > 8 {
			return
		}
		seen[x] = true
		// a value that is also stored into a field carries that field's key
		if refs := x.Referrers(); refs != nil {
			for _, r := range *refs {
				if st, isSt := r.(*ssa.Store); isSt && st.Val == x {
					if k := fieldKeyOf(st.Addr); k != "" {
						keys[k] = true
					}
				}
			}
		}
		switch y := x.(type) {
		case *ssa.Const:
		case *ssa.Convert:
			walk(y.X, d+1)
		case *ssa.ChangeType:
			walk(y.X, d+1)
		case *ssa.Phi:
			for _, e := range y.Edges {
				walk(e, d+1)
			}
		case *ssa.UnOp:
			if y.Op != token.MUL {
				ok = false
				return
			}
			if k := fieldKeyOf(y.X); k != "" {
				keys[k] = true
			} else if cell, isCell := y.X.(*ssa.Alloc); isCell && cell.Referrers() != nil {
				// a local variable (var off uint32; binary.Read(r, …, &off)): every load of the cell is
				// the same quantity, and it carries the key of any field one of them is stored into
				for _, cr := range *cell.Referrers() {
					ld, isLd := cr.(*ssa.UnOp)
					if !isLd || ld.Op != token.MUL || ld.Referrers() == nil {
						continue
					}
					vals := []ssa.Value{ld}
					for _, lr := range *ld.Referrers() {
						if cv, isCv := lr.(*ssa.Convert); isCv {
							vals = append(vals, cv)
						}
					}
					for _, val := range vals {
						if val.Referrers() == nil {
							continue
						}
						for _, vr := range *val.Referrers() {
							if st, isSt := vr.(*ssa.Store); isSt && st.Val == val {
								if k := fieldKeyOf(st.Addr); k != "" {
									keys[k] = true
								}
							}
						}
					}
				}
				if len(keys) == 0 {
					ok = false
				}
			} else if len(keys) == 0 {
				ok = false
			}
		case *ssa.Call:
			if s, isLen := isLenOf(y); isLen {
				if ld, isLd := s.(*ssa.UnOp); isLd && ld.Op == token.MUL {
					if k := fieldKeyOf(ld.X); k != "" {
						keys["len:"+k] = true
						return
					}
				}
				// len of a value that is also kept in a field (dec := &T{data: data}; … len(data))
				if refs := s.Referrers(); refs != nil {
					for _, r := range *refs {
						if st, isSt := r.(*ssa.Store); isSt && st.Val == s {
							if k := fieldKeyOf(st.Addr); k != "" {
								keys["len:"+k] = true
							}
						}
					}
				}
				if len(keys) == 0 {
					ok = false
				}
				return
			}
			sc := y.Call.StaticCallee()
			if sc == nil || sc.Blocks == nil || !load.InScope(sc) || depth+d > 10 {
				ok = false
				return
			}
			for _, b := range sc.Blocks {
				if len(b.Instrs) == 0 {
					continue
				}
				if ret, isRet := b.Instrs[len(b.Instrs)-1].(*ssa.Return); isRet && len(ret.Results) >= 1 {
					walk(ret.Results[0], d+2)
				}
			}
		default:
			if len(keys) == 0 {
				ok = false
			}
		}
	}
	walk(v, 0)
	if len(keys) == 0 {
		ok = false
	}
	return keys, ok
}

// subOperands: v is X - Y, directly or as what a helper returns on some path.
func subOperands(v ssa.Value, depth int) [][2]ssa.Value {
	switch x := v.(type) {
	case *ssa.BinOp:
		if x.Op == token.SUB {
			return [][2]ssa.Value{{x.X, x.Y}}
		}
	case *ssa.Convert:
		return subOperands(x.X, depth)
	case *ssa.Call:
		sc := x.Call.StaticCallee()
		if sc == nil || sc.Blocks == nil || !load.InScope(sc) || depth > 1 {
			return nil
		}
		var out [][2]ssa.Value
		for _, b := range sc.Blocks {
			if len(b.Instrs) == 0 {
				continue
			}
			if ret, ok := b.Instrs[len(b.Instrs)-1].(*ssa.Return); ok && len(ret.Results) == 1 {
				out = append(out, subOperands(ret.Results[0], depth+1)...)
			}
		}
		return out
	}
	return nil
}

// orderedSomewhere: some branch condition in the library compares a quantity carrying a key of kx
// with one carrying a key of ky (for one shared key: the key appears on both sides, or the condition
// tests a difference of two such quantities).
func (c *Ctx) orderedSomewhere(kx, ky map[string]bool) bool {
	has := func(ks, want map[string]bool) bool {
		for k := range ks {
			if want[k] {
				return true
			}
		}
		return false
	}
	for _, fn := range c.scopeFuncs() {
		for _, b := range fn.Blocks {
			bo, ok := ifCond(b).(*ssa.BinOp)
			if !ok {
				continue
			}
			switch bo.Op {
			case token.LSS, token.GTR, token.LEQ, token.GEQ, token.EQL, token.NEQ:
			default:
				continue
			}
			sides := [2]map[string]bool{}
			for i, s := range []ssa.Value{bo.X, bo.Y} {
				ks := map[string]bool{}
				for v := range backwardSlice(s, 60) {
					if k1, _ := srcKeys(v, 0); len(k1) > 0 {
						for k := range k1 {
							ks[k] = true
						}
					}
				}
				sides[i] = ks
			}
			if (has(sides[0], kx) && has(sides[1], ky)) || (has(sides[0], ky) && has(sides[1], kx)) {
				return true
			}
			// a difference of the two tested against something: (x - y) < 0
			for _, s := range []ssa.Value{bo.X, bo.Y} {
				for v := range backwardSlice(s, 60) {
					if sb, ok := v.(*ssa.BinOp); ok && sb.Op == token.SUB {
						a, _ := srcKeys(sb.X, 0)
						bb, _ := srcKeys(sb.Y, 0)
						if (has(a, kx) && has(bb, ky)) || (has(a, ky) && has(bb, kx)) {
							return true
						}
					}
				}
			}
		}
	}
	return false
}

// unorderedDifference: n is X - Y of two stream quantities that nothing orders. Returns a
// description of the pair when the witness shape applies.
func (c *Ctx) unorderedDifference(eng *ranges.Engine, fn *ssa.Function, n ssa.Value, b *ssa.BasicBlock) (string, bool) {
	for _, p := range subOperands(n, 0) {
		kx, okx := srcKeys(p[0], 0)
		ky, oky := srcKeys(p[1], 0)
		if c.Dump == "unordered" {
			fmt.Printf("UNORDERED %s: %s - %s keys %v(%v) %v(%v)\n", load.FuncName(fn), addrExpr(p[0]), addrExpr(p[1]), kx, okx, ky, oky)
		}
		if !okx || !oky {
			continue
		}
		if c.orderedSomewhere(kx, ky) {
			continue
		}
		// one quantity computed from the other when it is stored (t.end = t.start + n; offs[i] =
		// offs[i-1] + size) is ordered by construction: not the witness shape
		if c.storedFrom(kx, ky) || c.storedFrom(ky, kx) {
			continue
		}
		// … and the verdict is given only for quantities kept exactly as they were read (a header
		// field stored without arithmetic): anything computed (x1 = x0 + tileWidth, clipped or
		// translated rectangles) has relations the key comparison cannot see
		if !c.storedRaw(kx) || !c.storedRaw(ky) {
			continue
		}
		names := func(m map[string]bool) string {
			var out []string
			for k := range m {
				out = append(out, strings.TrimPrefix(k, load.ModPath+"/"))
			}
			sort.Strings(out)
			return strings.Join(out, ",")
		}
		return fmt.Sprintf("%s - %s", names(kx), names(ky)), true
	}
	return "", false
}

// storedFrom: some store into a field of ka takes a value computed from a load of a field of kb.
func (c *Ctx) storedFrom(ka, kb map[string]bool) bool {
	for _, fn := range c.scopeFuncs() {
		for _, b := range fn.Blocks {
			for _, ins := range b.Instrs {
				st, ok := ins.(*ssa.Store)
				if !ok || !ka[storageKeyOfAddr(st.Addr)] {
					continue
				}
				for v := range backwardSlice(st.Val, 80) {
					if u, isLoad := v.(*ssa.UnOp); isLoad && u.Op == token.MUL && kb[storageKeyOfAddr(u.X)] {
						return true
					}
					if cl, isCall := v.(*ssa.Call); isCall {
						if x, isLen := isLenOf(cl); isLen {
							if ld, isLd := x.(*ssa.UnOp); isLd && ld.Op == token.MUL && kb["len:"+storageKeyOfAddr(ld.X)] {
								return true
							}
						}
					}
				}
			}
		}
	}
	return false
}

// storedRaw: every store into the fields named by keys (len: keys aside) stores a value exactly as
// it was read from the stream: an encoding/binary UintN call, a byte of a slice, or a local cell
// that a reader filled through its address.
func (c *Ctx) storedRaw(keys map[string]bool) bool {
	n := 0
	for _, fn := range c.scopeFuncs() {
		for _, b := range fn.Blocks {
			for _, ins := range b.Instrs {
				st, ok := ins.(*ssa.Store)
				if !ok || !keys[storageKeyOfAddr(st.Addr)] {
					continue
				}
				n++
				v := st.Val
				for {
					if cv, isCv := v.(*ssa.Convert); isCv {
						v = cv.X
						continue
					}
					break
				}
				switch x := v.(type) {
				case *ssa.Call:
					sc := x.Call.StaticCallee()
					if sc == nil || sc.Pkg == nil || sc.Pkg.Pkg.Path() != "encoding/binary" || !strings.HasPrefix(sc.Name(), "Uint") {
						return false
					}
				case *ssa.UnOp:
					if x.Op != token.MUL {
						return false
					}
					switch a := x.X.(type) {
					case *ssa.IndexAddr:
						if !isByteSlice(a.X.Type()) {
							return false
						}
					case *ssa.Alloc:
						escaped := false
						if a.Referrers() != nil {
							for _, r := range *a.Referrers() {
								switch r.(type) {
								case ssa.CallInstruction, *ssa.MakeInterface:
									escaped = true
								}
							}
						}
						if !escaped {
							return false
						}
					default:
						return false
					}
				default:
					return false
				}
			}
		}
	}
	hasField := false
	for k := range keys {
		if !strings.HasPrefix(k, "len:") {
			hasField = true
		}
	}
	return n > 0 || !hasField
}

// resultTailOfArg: on the outcome `want` of result outIdx, result resIdx of call is arg[k:] for one
// argument of the call and one constant k, on every matching return of the callee.
func resultTailOfArg(call *ssa.Call, resIdx, outIdx int, want bool) (ssa.Value, int64, bool) {
	sc := call.Call.StaticCallee()
	if sc == nil || sc.Blocks == nil || !load.InScope(sc) || len(call.Call.Args) != len(sc.Params) {
		return nil, 0, false
	}
	pi, k, n := -1, int64(0), 0
	for _, rb := range sc.Blocks {
		if len(rb.Instrs) == 0 {
			continue
		}
		ret, ok := rb.Instrs[len(rb.Instrs)-1].(*ssa.Return)
		if !ok || resIdx >= len(ret.Results) || outIdx >= len(ret.Results) {
			continue
		}
		ov := ret.Results[outIdx]
		if kc, ok := ov.(*ssa.Const); ok {
			if ov.Type().String() == "error" {
				if kc.IsNil() != want {
					continue
				}
			} else if kc.Value != nil && (kc.Value.String() == "true") != want {
				continue
			}
		} else if ov.Type().String() == "error" && want && definitelyNonNilError(ret, outIdx) {
			continue
		}
		sl, ok := ret.Results[resIdx].(*ssa.Slice)
		if !ok || sl.High != nil || sl.Max != nil {
			return nil, 0, false
		}
		p := paramIndex(sc, sl.X)
		lo, okk := constIntOr(sl.Low, 0)
		if p < 0 || !okk || lo < 0 || (n > 0 && (p != pi || lo != k)) {
			return nil, 0, false
		}
		pi, k = p, lo
		n++
	}
	if n == 0 {
		return nil, 0, false
	}
	return call.Call.Args[pi], k, true
}

// sliceRoots: the values a slice is a window / merge of (through slice expressions, phis and
// type changes), itself included.
func sliceRoots(v ssa.Value) map[ssa.Value]bool {
	out := map[ssa.Value]bool{}
	var walk func(ssa.Value, int)
	walk = func(x ssa.Value, d int) {
		if x == nil || out[x] || d > 10 {
			return
		}
		out[x] = true
		switch y := x.(type) {
		case *ssa.Slice:
			walk(y.X, d+1)
		case *ssa.Phi:
			for _, e := range y.Edges {
				walk(e, d+1)
			}
		case *ssa.ChangeType:
			walk(y.X, d+1)
		}
	}
	walk(v, 0)
	return out
}

// lengthAsked: does some branch that dominates block b depend on the length of s, on s being nil,
// or on the answer of a library helper that was handed s? The SLICE-CONST witness is "nothing ever
// asks about the buffer before the access"; a test whose meaning the engine cannot follow (a
// nil-or-n-bytes helper result tested against nil, len() inside min(), a bool helper written as one
// && chain) makes the access undecided, not violated.
func lengthAsked(s ssa.Value, b *ssa.BasicBlock) string {
	roots := sliceRoots(s)
	related := func(v ssa.Value) bool {
		for r := range sliceRoots(v) {
			if roots[r] {
				return true
			}
		}
		return false
	}
	// the calls that produced the buffer (b, err := p.take(2)): a test of their other results is a
	// question put to the producer
	producers := map[*ssa.Call]bool{}
	for r := range roots {
		switch y := r.(type) {
		case *ssa.Extract:
			if call, ok := y.Tuple.(*ssa.Call); ok {
				producers[call] = true
			}
		case *ssa.Call:
			producers[y] = true
		}
	}
	for _, d := range b.Parent().Blocks {
		if !d.Dominates(b) || len(d.Instrs) == 0 {
			continue
		}
		iff, ok := d.Instrs[len(d.Instrs)-1].(*ssa.If)
		if !ok {
			continue
		}
		for v := range backwardSlice(iff.Cond, 300) {
			switch y := v.(type) {
			case *ssa.Extract:
				if call, ok := y.Tuple.(*ssa.Call); ok && producers[call] && call.Call.StaticCallee() != nil && call.Call.StaticCallee().Blocks != nil && load.IsModule(load.FuncPkgPath(call.Call.StaticCallee())) {
					return "another result of " + calleeName(&call.Call) + ", the library helper that produced the buffer, is tested"
				}
			case *ssa.Call:
				if bi, ok := y.Call.Value.(*ssa.Builtin); ok {
					if (bi.Name() == "len" || bi.Name() == "cap") && len(y.Call.Args) == 1 && related(y.Call.Args[0]) {
						return bi.Name() + "() of the buffer feeds the condition"
					}
					continue
				}
				for _, a := range y.Call.Args {
					if _, isSlice := a.Type().Underlying().(*types.Slice); isSlice && related(a) {
						return "the buffer is handed to " + calleeName(&y.Call) + ", whose answer is tested"
					}
				}
			case *ssa.BinOp:
				if y.Op == token.EQL || y.Op == token.NEQ {
					if isNilConst(y.X) && related(y.Y) || isNilConst(y.Y) && related(y.X) {
						return "the buffer is compared with nil"
					}
				}
			}
		}
	}
	return ""
}
