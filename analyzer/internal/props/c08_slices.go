package props

import (
	"fmt"
	"go/token"
	"go/types"
	"sort"

	"golang.org/x/tools/go/ssa"

	"dcmcheck/internal/ranges"
	"dcmcheck/internal/report"
)

// Slice bounds (rule SLICE, witness-shape only). The interval domain is non-relational, so slice
// accesses are in general out of scope; two shapes are decidable without relating variables:
//
//   S-CONST  s[c] / s[c:] / s[:c] with a constant c on a stream buffer: safe when a dominating
//            test of len(s) establishes len(s) > c (>= c for slice expressions). Violated when no
//            test of len(s) dominates the access at all, in this function or (for a parameter) at
//            every call site.
//   S-ORDER  s[a:b] where b is computed as a + n and the stream-controlled n can be negative
//            (exact), or a and b are unrelated stream values never compared with each other.
//
// Everything else is counted and left out of scope.

// lenFacts collects what dominating conditions say about len(s) at block b.
type lenFact struct {
	min      int64 // proven lower bound on len(s)
	anyCheck bool  // some dominating condition mentions len(s) (or cap(s))
}

func isLenOf(v ssa.Value) (ssa.Value, bool) {
	c, ok := v.(*ssa.Call)
	if !ok {
		return nil, false
	}
	b, ok := c.Call.Value.(*ssa.Builtin)
	if !ok || (b.Name() != "len" && b.Name() != "cap") || len(c.Call.Args) != 1 {
		return nil, false
	}
	return c.Call.Args[0], true
}

func sameSlice(a, b ssa.Value) bool {
	if a == b {
		return true
	}
	// loads of the same field of the same object
	ua, ok1 := a.(*ssa.UnOp)
	ub, ok2 := b.(*ssa.UnOp)
	if ok1 && ok2 && ua.Op == token.MUL && ub.Op == token.MUL {
		return sameBase(ua, ub)
	}
	return false
}

// mentionsLen: does the expression tree of v contain len(s)?
func mentionsLen(v ssa.Value, s ssa.Value, depth int) bool {
	if depth > 5 || v == nil {
		return false
	}
	if x, ok := isLenOf(v); ok && sameSlice(x, s) {
		return true
	}
	switch y := v.(type) {
	case *ssa.BinOp:
		return mentionsLen(y.X, s, depth+1) || mentionsLen(y.Y, s, depth+1)
	case *ssa.Convert:
		return mentionsLen(y.X, s, depth+1)
	case *ssa.Phi:
		for _, e := range y.Edges {
			if mentionsLen(e, s, depth+1) {
				return true
			}
		}
	}
	return false
}

func (c *Ctx) lenFactsAt(eng *ranges.Engine, fn *ssa.Function, s ssa.Value, b *ssa.BasicBlock) lenFact {
	var f lenFact
	if m, known := c.lenLowerOfValue(eng, fn, s, b, 0); known {
		f.min = m
		f.anyCheck = f.anyCheck || m > 0
	}
	for cb := b; cb != nil; cb = cb.Idom() {
		d := cb.Idom()
		if d == nil {
			break
		}
		if len(cb.Preds) != 1 || cb.Preds[0] != d || len(d.Succs) != 2 {
			continue
		}
		cond, ok := ifCond(d).(*ssa.BinOp)
		if !ok {
			continue
		}
		onTrue := d.Succs[0] == cb
		op := cond.Op
		x, y := cond.X, cond.Y
		if mentionsLen(x, s, 0) || mentionsLen(y, s, 0) {
			f.anyCheck = true
		}
		// normalise to len(s) OP k
		var k ssa.Value
		if lx, ok := isLenOf(x); ok && sameSlice(lx, s) {
			k = y
		} else if ly, ok := isLenOf(y); ok && sameSlice(ly, s) {
			k = x
			switch op {
			case token.LSS:
				op = token.GTR
			case token.LEQ:
				op = token.GEQ
			case token.GTR:
				op = token.LSS
			case token.GEQ:
				op = token.LEQ
			}
		} else {
			continue
		}
		if !onTrue {
			switch op {
			case token.LSS:
				op = token.GEQ
			case token.LEQ:
				op = token.GTR
			case token.GTR:
				op = token.LEQ
			case token.GEQ:
				op = token.LSS
			case token.EQL:
				op = token.NEQ
			case token.NEQ:
				op = token.EQL
			}
		}
		kv := eng.At(fn, k, d)
		if kv.IsBottom() {
			continue
		}
		switch op {
		case token.GEQ, token.EQL:
			if kv.Lo() > f.min {
				f.min = kv.Lo()
			}
		case token.GTR:
			if kv.Lo()+1 > f.min && kv.Lo() < posInf {
				f.min = kv.Lo() + 1
			}
		}
	}
	return f
}

type sliceStats struct{ sites, constSites, orderSites int }

func (c *Ctx) sliceObligations(eng *ranges.Engine, funcs map[*ssa.Function]bool, streamSlice func(fn *ssa.Function, v ssa.Value) bool) sliceStats {
	var st sliceStats
	var fns []*ssa.Function
	for fn := range funcs {
		fns = append(fns, fn)
	}
	sort.Slice(fns, func(i, j int) bool { return fns[i].String() < fns[j].String() })
	seen := map[string]int{}
	add := func(rule string, fn *ssa.Function, construct string, status report.Status, ins ssa.Instruction, detail string) {
		key := rule + "|" + fn.String() + "|" + construct
		seen[key]++
		if seen[key] > 1 {
			construct = fmt.Sprintf("%s #%d", construct, seen[key])
		}
		c.add(rule, fn, construct, status, c.P.Pos(ins.Pos()), detail)
	}
	for _, fn := range fns {
		for _, b := range fn.Blocks {
			for _, ins := range b.Instrs {
				switch x := ins.(type) {
				case *ssa.Slice:
					if _, isSlice := x.X.Type().Underlying().(*types.Slice); !isSlice {
						continue
					}
					st.sites++
					// S-CONST on slice expressions: the largest constant bound must not exceed len
					maxConst := int64(-1)
					for _, bd := range []ssa.Value{x.Low, x.High} {
						if k, ok := bd.(*ssa.Const); ok && k.Value != nil && k.Int64() > maxConst {
							maxConst = k.Int64()
						}
					}
					if maxConst > 0 {
						st.constSites++
						f := c.lenFactsAt(eng, fn, x.X, b)
						construct := addrExpr(x.X) + "[" + addrExpr(x.Low) + ":" + addrExpr(x.High) + "]"
						switch {
						case f.min >= maxConst:
							add("SLICE-CONST", fn, construct, report.Discharged, ins, fmt.Sprintf("len >= %d established", f.min))
						case f.anyCheck || !streamSlice(fn, x.X):
							add("SLICE-CONST", fn, construct, report.OutOfScope, ins, "length is tested or the buffer is not stream data; bound not established in the domain")
						default:
							if _, isParam := x.X.(*ssa.Parameter); isParam {
								add("SLICE-CONST", fn, construct, report.OutOfScope, ins, "slice is a parameter: length contract with the callers is not decided")
							} else {
								add("SLICE-CONST", fn, construct, report.Violated, ins, fmt.Sprintf("constant slice bound %d on a stream buffer with no test of its length on any dominating path", maxConst))
							}
						}
					}
					// S-ORDER: s[a : a+n] needs n >= 0
					if x.Low != nil && x.High != nil {
						if bo, ok := x.High.(*ssa.BinOp); ok && bo.Op == token.ADD {
							var n ssa.Value
							if sameSlice(bo.X, x.Low) || bo.X == x.Low {
								n = bo.Y
							} else if sameSlice(bo.Y, x.Low) || bo.Y == x.Low {
								n = bo.X
							}
							if n != nil {
								st.orderSites++
								nv := eng.At(fn, n, b)
								construct := addrExpr(x.X) + "[" + addrExpr(x.Low) + " : " + addrExpr(x.Low) + "+" + addrExpr(n) + "]"
								sts, d := decideRange(nv, 0, posInf, false)
								add("SLICE-ORDER", fn, construct, sts, ins, "length operand of the slice expression: "+d)
							}
						}
					}
				case *ssa.IndexAddr:
					if _, isSlice := x.X.Type().Underlying().(*types.Slice); !isSlice {
						continue
					}
					st.sites++
					k, isConst := x.Index.(*ssa.Const)
					if !isConst {
						if c.Dump == "slicevar" {
							f := c.lenFactsAt(eng, fn, x.X, b)
							av := eng.At(fn, x.Index, b)
							if !f.anyCheck && av.Taint {
								fmt.Printf("SLICEVAR %s %s %s[%s] idx=%s stream=%v\n", c.P.Pos(ins.Pos()), fn.String(), addrExpr(x.X), addrExpr(x.Index), av.String(), streamSlice(fn, x.X))
							}
						}
						continue
					}
					st.constSites++
					f := c.lenFactsAt(eng, fn, x.X, b)
					construct := addrExpr(x.X) + "[" + k.Value.String() + "]"
					switch {
					case f.min > k.Int64():
						add("SLICE-CONST", fn, construct, report.Discharged, ins, fmt.Sprintf("len >= %d established on a dominating edge", f.min))
					case f.anyCheck || !streamSlice(fn, x.X):
						add("SLICE-CONST", fn, construct, report.OutOfScope, ins, "length is tested or the buffer is not stream data; bound not established in the domain")
					default:
						if _, isParam := x.X.(*ssa.Parameter); isParam {
							add("SLICE-CONST", fn, construct, report.OutOfScope, ins, "slice is a parameter: length contract with the callers is not decided")
							continue
						}
						add("SLICE-CONST", fn, construct, report.Violated, ins, fmt.Sprintf("constant index %s into a stream buffer with no test of its length on any dominating path: a truncated segment panics with index out of range", k.Value.String()))
					}
				}
			}
		}
	}
	return st
}

// sameExpr: two SSA values denote the same pure integer expression (go/ssa performs no common
// subexpression elimination, so `1+i*2` written twice is two instructions).
func sameExpr(a, b ssa.Value, depth int) bool {
	if a == b {
		return true
	}
	if depth > 6 || a == nil || b == nil {
		return false
	}
	switch x := a.(type) {
	case *ssa.Const:
		y, ok := b.(*ssa.Const)
		return ok && x.Value != nil && y.Value != nil && types.Identical(x.Type(), y.Type()) && x.Value.ExactString() == y.Value.ExactString()
	case *ssa.BinOp:
		y, ok := b.(*ssa.BinOp)
		return ok && x.Op == y.Op && sameExpr(x.X, y.X, depth+1) && sameExpr(x.Y, y.Y, depth+1)
	case *ssa.Convert:
		y, ok := b.(*ssa.Convert)
		return ok && types.Identical(x.Type(), y.Type()) && sameExpr(x.X, y.X, depth+1)
	}
	return false
}

// lenLowerOfValue: a lower bound on len(v) derivable from how v was made (make with a bounded
// size, a slice field whose every assignment has a bounded size).
func (c *Ctx) lenLowerOfValue(eng *ranges.Engine, fn *ssa.Function, v ssa.Value, b *ssa.BasicBlock, depth int) (int64, bool) {
	if depth > 3 {
		return 0, false
	}
	switch x := v.(type) {
	case *ssa.MakeSlice:
		av := eng.At(fn, x.Len, x.Block())
		if !av.IsBottom() && av.Lo() > 0 {
			return av.Lo(), true
		}
		return 0, true
	case *ssa.Slice:
		// a slice expression that did not panic has exactly high-low elements
		if _, isStr := x.X.Type().Underlying().(*types.Basic); isStr {
			return 0, false
		}
		lo := int64(0)
		loConst := x.Low == nil
		if k, ok := x.Low.(*ssa.Const); ok && k.Value != nil {
			lo, loConst = k.Int64(), true
		}
		if x.High == nil {
			if !loConst {
				return 0, false
			}
			m, ok := c.lenLowerOfValue(eng, fn, x.X, b, depth+1)
			if _, isArr := x.X.Type().Underlying().(*types.Pointer); isArr {
				if at, ok2 := x.X.Type().Underlying().(*types.Pointer).Elem().Underlying().(*types.Array); ok2 {
					m, ok = at.Len(), true
				}
			}
			if !ok || m < lo {
				return 0, ok
			}
			return m - lo, true
		}
		if k, ok := x.High.(*ssa.Const); ok && k.Value != nil && loConst {
			return k.Int64() - lo, true
		}
		if bo, ok := x.High.(*ssa.BinOp); ok && bo.Op == token.ADD && x.Low != nil {
			if k, ok := bo.Y.(*ssa.Const); ok && k.Value != nil && sameExpr(bo.X, x.Low, 0) && k.Int64() >= 0 {
				return k.Int64(), true
			}
			if k, ok := bo.X.(*ssa.Const); ok && k.Value != nil && sameExpr(bo.Y, x.Low, 0) && k.Int64() >= 0 {
				return k.Int64(), true
			}
		}
		return 0, false
	case *ssa.UnOp:
		if x.Op != token.MUL {
			return 0, false
		}
		fa, ok := x.X.(*ssa.FieldAddr)
		if !ok {
			return 0, false
		}
		return c.fieldMinLen(eng, fa, depth)
	case *ssa.Phi:
		best := int64(-1)
		for _, e := range x.Edges {
			m, ok := c.lenLowerOfValue(eng, fn, e, b, depth+1)
			if !ok {
				return 0, false
			}
			if best < 0 || m < best {
				best = m
			}
		}
		if best < 0 {
			best = 0
		}
		return best, true
	}
	return 0, false
}

// fieldMinLen: the minimum length of a slice-typed struct field over every store to it in library
// code; 0 when some allocation may leave it nil.
func (c *Ctx) fieldMinLen(eng *ranges.Engine, fa *ssa.FieldAddr, depth int) (int64, bool) {
	owner := namedOfRecv(fa.X.Type())
	if owner == nil {
		return 0, false
	}
	key := fmt.Sprintf("%p/%d", owner.Obj(), fa.Field)
	if c.minLenMemo == nil {
		c.minLenMemo = map[string][2]int64{}
	}
	if r, ok := c.minLenMemo[key]; ok {
		return r[0], r[1] == 1
	}
	c.minLenMemo[key] = [2]int64{0, 0}
	if eng.FieldMayBeZero(owner.Obj(), fa.Field) {
		return 0, false
	}
	best := int64(-1)
	for _, fn := range c.scopeFuncs() {
		if !eng.Analysed(fn) {
			continue
		}
		for _, b := range fn.Blocks {
			for _, ins := range b.Instrs {
				st, ok := ins.(*ssa.Store)
				if !ok {
					continue
				}
				sfa, ok := st.Addr.(*ssa.FieldAddr)
				if !ok || sfa.Field != fa.Field {
					continue
				}
				if o := namedOfRecv(sfa.X.Type()); o == nil || o.Obj() != owner.Obj() {
					continue
				}
				m, ok := c.lenLowerOfValue(eng, fn, st.Val, b, depth+1)
				if !ok {
					return 0, false
				}
				if best < 0 || m < best {
					best = m
				}
			}
		}
	}
	if best <= 0 {
		return 0, false
	}
	c.minLenMemo[key] = [2]int64{best, 1}
	return best, true
}
