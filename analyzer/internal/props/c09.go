package props

import (
	"fmt"
	"go/token"
	"sort"
	"strings"

	"golang.org/x/tools/go/ssa"

	"dcmcheck/internal/load"
	"dcmcheck/internal/ranges"
	"dcmcheck/internal/report"
)

func init() { Registry["C09"] = runC09 }

// Termination clause of C09 (DESIGN §4 C09): every loop in decode-reachable code makes progress on
// each cycle towards one of its exit tests.
//
// A loop is *proved* when, on every back edge, some integer variable that an exit test of the loop
// reads is strictly increased (or strictly decreased) by the cycle — the classical ranking argument
// for `i < n` / `pos < len(data)` style loops — or when every cycle calls a cursor primitive whose
// summary guarantees that at least one input byte / bit is consumed on success (the error return
// of the primitive leaves the loop).
// *Witness shape* (violated): a cycle on which every variable the exit tests read keeps exactly its
// value (all increments are the constant 0 on one and the same path through the body) and no
// cursor primitive is called: the next iteration sees the same state and takes the same branches.
// Anything else is out of scope.

type loopVerdict struct {
	status report.Status
	detail string
}

func runC09(c *Ctx) Info {
	ep, err := c.entryPoints()
	if err != nil {
		c.C.Fatalf("%v", err)
		return Info{Explanation: "failed"}
	}
	eng, funcs := c.rangeEngine(ep.Dec, true, 64)
	var fns []*ssa.Function
	for fn := range funcs {
		fns = append(fns, fn)
	}
	sort.Slice(fns, func(i, j int) bool { return fns[i].String() < fns[j].String() })
	adv := newAdvanceSummaries(c, eng, funcs)
	nLoops, nProved := 0, 0
	seen := map[string]int{}
	for _, fn := range fns {
		for _, l := range naturalLoops(fn) {
			nLoops++
			v := c.judgeLoop(eng, adv, fn, l)
			construct := "loop at " + blockName(l.Header)
			key := fn.String() + construct
			seen[key]++
			if seen[key] > 1 {
				construct = fmt.Sprintf("%s #%d", construct, seen[key])
			}
			pos := c.P.Pos(firstPos(l.Header))
			c.add("PROGRESS", fn, construct, v.status, pos, v.detail)
			if v.status == report.Discharged {
				nProved++
			}
		}
	}
	c.C.Floor("PROGRESS", nLoops-c.controlCount("PROGRESS"), 250)
	c.C.ExpectControl("PROGRESS")
	nAlloc := c.allocRule(eng, funcs)
	c.C.Floor("ALLOC-READBUF", nAlloc-c.controlCount("ALLOC-READBUF"), 3)
	c.C.ExpectControl("ALLOC-READBUF")
	c.C.ExpectControl("ALLOC-EXP")
	if c.Dump == "advance" {
		var ks []string
		for fn, a := range adv.sum {
			if a.known && a.min != 0 {
				ks = append(ks, fmt.Sprintf("%s: minAdvanceOnSuccess=%d", load.FuncName(fn), a.min))
			}
		}
		sort.Strings(ks)
		for _, k := range ks {
			fmt.Println("ADV", k)
		}
	}
	return Info{
		Explanation:  "Rule PROGRESS over every natural loop of every function reachable from a decoding entry point: proved when each back edge strictly moves an integer variable that an exit test reads (ranking argument; increments evaluated with engine E2 through the merges of the loop body), or when every cycle passes a cursor primitive (io.ReadFull / Reader.ReadByte / Parser reads / bit readers) whose bottom-up summary consumes at least one unit on every non-error return. Violated only on the witness shape: a cycle that leaves every variable read by the exit tests exactly unchanged and calls no cursor primitive. Rule ALLOC-READBUF over every make([]T, n) with a stream-derived n whose result is filled from the stream (io.ReadFull / Read / copy, followed through library helpers): discharged when n*sizeof(T) is at most 64 MiB in the interval domain (width of the length field, guards) or a dominating comparison relates the size to a len(...) term; violated only on the witness shape: a wide stream scalar enters the size with positive sign, every value of it is producible (exact) or it arrives untouched (raw), and no dominating branch bounds it, or the size, from above (guards are read with their polarity: an upper bound on a subtracted term is not a bound on the size); everything else out of scope. The time and memory budgets of the statement are quantities and are not decided.",
		DoesNotCover: "the 10 s / 512 MiB + 64*S budgets; allocations that are not read buffers (sample planes, coefficient arrays, tables: proportional to the declared geometry or to internal quantities; negative / wrapped / exponential sizes are under C08 MAKE); loops whose progress is relational",
		Trusted:      commonTrusted,
		Assumptions:  rangeAssumptions,
		Extra:        map[string]any{"loops": nLoops, "proved": nProved, "functions": len(funcs), "read_buffers": nAlloc},
	}
}

func blockName(b *ssa.BasicBlock) string {
	if b.Comment != "" {
		return b.Comment
	}
	return fmt.Sprintf("block %d", b.Index)
}

func firstPos(b *ssa.BasicBlock) token.Pos {
	for _, ins := range b.Instrs {
		if ins.Pos().IsValid() {
			return ins.Pos()
		}
	}
	for _, s := range b.Succs {
		for _, ins := range s.Instrs {
			if ins.Pos().IsValid() {
				return ins.Pos()
			}
		}
	}
	return token.NoPos
}

// ---------------------------------------------------------------------------------------------
// cursor-advance summaries

type advance struct {
	min   int64 // least number of input units consumed on a return that may carry a nil error
	known bool
}

type advanceSummaries struct {
	c     *Ctx
	eng   *ranges.Engine
	funcs map[*ssa.Function]bool
	sum   map[*ssa.Function]advance
	busy  map[*ssa.Function]bool
}

func newAdvanceSummaries(c *Ctx, eng *ranges.Engine, funcs map[*ssa.Function]bool) *advanceSummaries {
	return &advanceSummaries{c: c, eng: eng, funcs: funcs, sum: map[*ssa.Function]advance{}, busy: map[*ssa.Function]bool{}}
}

// primitiveAdvance: input units consumed by a call to an external reader primitive on success.
func (a *advanceSummaries) primitiveAdvance(fn *ssa.Function, call ssa.CallInstruction) (int64, bool) {
	sc := call.Common().StaticCallee()
	if sc == nil {
		return 0, false
	}
	name := sc.String()
	switch {
	case name == "io.ReadFull" || name == "io.ReadAtLeast":
		// consumes len(buf) bytes
		if len(call.Common().Args) >= 2 {
			return sliceMinLen(a.eng, fn, call.Common().Args[1], call.Block()), true
		}
	case name == "(*bytes.Reader).ReadByte" || name == "(*bufio.Reader).ReadByte":
		return 1, true
	case name == "encoding/binary.Read":
		return 1, true
	case name == "io.CopyN":
		return 0, true
	}
	return 0, false
}

// sliceMinLen: a lower bound on len(v) from its construction (x[:k], make(n)).
func sliceMinLen(eng *ranges.Engine, fn *ssa.Function, v ssa.Value, b *ssa.BasicBlock) int64 {
	switch x := v.(type) {
	case *ssa.Slice:
		if x.High != nil {
			hi := eng.At(fn, x.High, b)
			lo := ranges.Const(0)
			if x.Low != nil {
				lo = eng.At(fn, x.Low, b)
			}
			if !hi.IsBottom() && !lo.IsBottom() && hi.Lo() != posInf && lo.Hi() != posInf && hi.Lo()-lo.Hi() > 0 {
				return hi.Lo() - lo.Hi()
			}
		}
	case *ssa.MakeSlice:
		n := eng.At(fn, x.Len, x.Block())
		if !n.IsBottom() && n.Lo() > 0 {
			return n.Lo()
		}
	}
	return 0
}

// cursorFieldDelta: a store `x.f = x.f + k` / `x.f++` on a field named like a read position.
func cursorFieldDelta(eng *ranges.Engine, fn *ssa.Function, st *ssa.Store) (int64, bool) {
	fa, ok := st.Addr.(*ssa.FieldAddr)
	if !ok {
		return 0, false
	}
	name := strings.ToLower(fieldNameOf(fa.X.Type(), fa.Field))
	if !(name == "offset" || name == "pos" || name == "position" || name == "bp" || name == "bytepos" || name == "idx" || name == "readpos") {
		return 0, false
	}
	bo, ok := st.Val.(*ssa.BinOp)
	if !ok || bo.Op != token.ADD {
		return 0, false
	}
	var inc ssa.Value
	if isLoadOfField(bo.X, fa) {
		inc = bo.Y
	} else if isLoadOfField(bo.Y, fa) {
		inc = bo.X
	} else {
		return 0, false
	}
	av := eng.At(fn, inc, st.Block())
	if av.IsBottom() || av.Lo() == -posInf-1 {
		return 0, false
	}
	return av.Lo(), true
}

func isLoadOfField(v ssa.Value, fa *ssa.FieldAddr) bool {
	u, ok := v.(*ssa.UnOp)
	if !ok || u.Op != token.MUL {
		return false
	}
	f2, ok := u.X.(*ssa.FieldAddr)
	return ok && f2.Field == fa.Field && sameBase(f2.X, fa.X)
}

// instrAdvance: input consumed by one instruction (call to a summarised function / primitive,
// or a cursor-field increment).
func (a *advanceSummaries) instrAdvance(fn *ssa.Function, ins ssa.Instruction) (int64, bool) {
	switch x := ins.(type) {
	case *ssa.Store:
		if d, ok := cursorFieldDelta(a.eng, fn, x); ok {
			return d, true
		}
	case ssa.CallInstruction:
		if d, ok := a.primitiveAdvance(fn, x); ok {
			return d, true
		}
		if sc := x.Common().StaticCallee(); sc != nil && a.funcs[sc] {
			s := a.of(sc)
			if s.known {
				return s.min, true
			}
		}
	}
	return 0, false
}

// of computes minAdvanceOnSuccess(fn): shortest path (in consumed units) from the entry to a return
// that may carry a nil error, ignoring back edges (zero loop iterations).
func (a *advanceSummaries) of(fn *ssa.Function) advance {
	if s, ok := a.sum[fn]; ok {
		return s
	}
	if a.busy[fn] || fn.Blocks == nil {
		return advance{}
	}
	a.busy[fn] = true
	defer delete(a.busy, fn)
	ei := errorResultIndex(fn)
	const inf = int64(1) << 40
	dist := make([]int64, len(fn.Blocks))
	for i := range dist {
		dist[i] = inf
	}
	dist[0] = 0
	any := false
	order := fn.DomPreorder()
	// relax in dominator pre-order a few times (DAG after dropping back edges)
	for iter := 0; iter < 4; iter++ {
		for _, b := range order {
			if dist[b.Index] >= inf {
				continue
			}
			d := dist[b.Index]
			for _, ins := range b.Instrs {
				if w, ok := a.instrAdvance(fn, ins); ok {
					d += w
					if w != 0 {
						any = true
					}
				}
			}
			for _, s := range b.Succs {
				if s.Dominates(b) {
					continue // back edge
				}
				if d < dist[s.Index] {
					dist[s.Index] = d
				}
			}
			if len(b.Instrs) > 0 {
				if ret, ok := b.Instrs[len(b.Instrs)-1].(*ssa.Return); ok {
					_ = ret
				}
			}
		}
	}
	best := inf
	for _, b := range fn.Blocks {
		if len(b.Instrs) == 0 || dist[b.Index] >= inf {
			continue
		}
		ret, ok := b.Instrs[len(b.Instrs)-1].(*ssa.Return)
		if !ok {
			continue
		}
		if ei >= 0 && definitelyNonNilError(ret, ei) {
			continue
		}
		d := dist[b.Index]
		for _, ins := range b.Instrs {
			if w, ok := a.instrAdvance(fn, ins); ok {
				d += w
			}
		}
		if d < best {
			best = d
		}
	}
	s := advance{}
	if any && best < inf {
		s = advance{min: best, known: true}
	}
	a.sum[fn] = s
	return s
}

// ---------------------------------------------------------------------------------------------
// loop verdicts

// deltaSets: the possible values of (v - p) along the paths of the loop body, where p is a header
// phi; nil when v is not of the form p + increments.
func (c *Ctx) deltaSets(eng *ranges.Engine, fn *ssa.Function, v ssa.Value, p *ssa.Phi, l *natLoop, depth int) []ranges.AV {
	if depth > 6 {
		return nil
	}
	if v == ssa.Value(p) {
		return []ranges.AV{ranges.Const(0)}
	}
	switch x := v.(type) {
	case *ssa.BinOp:
		if x.Op != token.ADD && x.Op != token.SUB {
			return nil
		}
		var base, inc ssa.Value
		if ds := c.deltaSets(eng, fn, x.X, p, l, depth+1); ds != nil {
			base, inc = x.X, x.Y
			_ = base
			iv := eng.At(fn, inc, x.Block())
			if iv.IsBottom() {
				return nil
			}
			var out []ranges.AV
			for _, d := range ds {
				if x.Op == token.ADD {
					out = append(out, ranges.Add(d, iv))
				} else {
					out = append(out, ranges.Sub(d, iv))
				}
			}
			return out
		}
		if x.Op == token.ADD {
			if ds := c.deltaSets(eng, fn, x.Y, p, l, depth+1); ds != nil {
				iv := eng.At(fn, x.X, x.Block())
				if iv.IsBottom() {
					return nil
				}
				var out []ranges.AV
				for _, d := range ds {
					out = append(out, ranges.Add(d, iv))
				}
				return out
			}
		}
		return nil
	case *ssa.Phi:
		if !l.Blocks[x.Block()] || x.Block() == l.Header {
			return nil
		}
		// header phi of an inner loop: value on entry, then moved by the inner steps
		var entry, back []ssa.Value
		for i, e := range x.Edges {
			if x.Block().Dominates(x.Block().Preds[i]) {
				back = append(back, e)
			} else {
				entry = append(entry, e)
			}
		}
		if len(back) > 0 {
			var out []ranges.AV
			for _, e := range entry {
				ds := c.deltaSets(eng, fn, e, p, l, depth+1)
				if ds == nil {
					return nil
				}
				out = append(out, ds...)
			}
			up, down := true, true
			for _, e := range back {
				ss := c.deltaSets(eng, fn, e, x, l, depth+1)
				if ss == nil {
					return nil
				}
				for _, d := range ss {
					if d.IsBottom() || d.Lo() < 0 {
						up = false
					}
					if d.IsBottom() || d.Hi() > 0 {
						down = false
					}
				}
			}
			if !up && !down {
				return nil
			}
			var res []ranges.AV
			for _, d := range out {
				if up {
					res = append(res, ranges.Range(d.Lo(), posInf))
				} else {
					res = append(res, ranges.Range(-posInf, d.Hi()))
				}
			}
			return res
		}
		var out []ranges.AV
		for _, e := range x.Edges {
			ds := c.deltaSets(eng, fn, e, p, l, depth+1)
			if ds == nil {
				return nil
			}
			out = append(out, ds...)
		}
		return out
	case *ssa.Convert:
		return c.deltaSets(eng, fn, x.X, p, l, depth+1)
	}
	return nil
}

// testedVars: header phis and struct fields that the loop's exit tests read.
// exitDirs[p] records, for tested phi p, whether some exit test leaves the loop when p is large
// ("up") and/or when p is small ("down").
var exitDirs = map[*ssa.Phi][2]bool{}

func noteExitDir(cond ssa.Value, exitOnTrue bool, p *ssa.Phi) {
	bo, ok := cond.(*ssa.BinOp)
	if !ok {
		d := exitDirs[p]
		d[0], d[1] = true, true // unknown shape: do not restrict
		exitDirs[p] = d
		return
	}
	op := bo.Op
	inX := backwardSlice(bo.X, 200)[p]
	inY := backwardSlice(bo.Y, 200)[p]
	if inX == inY {
		d := exitDirs[p]
		d[0], d[1] = true, true
		exitDirs[p] = d
		return
	}
	if !exitOnTrue {
		switch op {
		case token.LSS:
			op = token.GEQ
		case token.LEQ:
			op = token.GTR
		case token.GTR:
			op = token.LEQ
		case token.GEQ:
			op = token.LSS
		case token.EQL:
			op = token.NEQ
		case token.NEQ:
			op = token.EQL
		}
	}
	if inY {
		switch op {
		case token.LSS:
			op = token.GTR
		case token.LEQ:
			op = token.GEQ
		case token.GTR:
			op = token.LSS
		case token.GEQ:
			op = token.LEQ
		}
	}
	d := exitDirs[p]
	switch op {
	case token.GTR, token.GEQ:
		d[0] = true
	case token.LSS, token.LEQ:
		d[1] = true
	default:
		d[0], d[1] = true, true
	}
	exitDirs[p] = d
}

func testedVars(l *natLoop) (phis []*ssa.Phi, fields []*ssa.FieldAddr, hasExitTest bool, usesIterator bool) {
	seenP := map[*ssa.Phi]bool{}
	for _, b := range l.ordered() {
		exits := false
		for _, s := range b.Succs {
			if !l.Blocks[s] {
				exits = true
			}
		}
		if !exits {
			continue
		}
		cond := ifCond(b)
		if cond == nil {
			continue
		}
		hasExitTest = true
		exitOnTrue := !l.Blocks[b.Succs[0]]
		for v := range backwardSlice(cond, 400) {
			switch x := v.(type) {
			case *ssa.Phi:
				if x.Block() == l.Header {
					noteExitDir(cond, exitOnTrue, x)
				}
				if x.Block() == l.Header && !seenP[x] {
					seenP[x] = true
					phis = append(phis, x)
				}
			case *ssa.UnOp:
				if x.Op == token.MUL {
					if fa, ok := x.X.(*ssa.FieldAddr); ok {
						fields = append(fields, fa)
					}
				}
			case *ssa.Extract:
				if _, ok := x.Tuple.(*ssa.Next); ok {
					usesIterator = true
				}
			}
		}
	}
	return
}

// minCycleWeight: least total weight over the paths header -> latch (inner back edges ignored).
func minCycleWeight(l *natLoop, weight func(ins ssa.Instruction) (int64, bool)) (int64, bool) {
	const inf = int64(1) << 40
	dist := map[*ssa.BasicBlock]int64{l.Header: 0}
	order := l.Header.Parent().DomPreorder()
	any := false
	for iter := 0; iter < 4; iter++ {
		for _, b := range order {
			if !l.Blocks[b] {
				continue
			}
			d, ok := dist[b]
			if !ok {
				continue
			}
			for _, ins := range b.Instrs {
				if w, ok := weight(ins); ok {
					d += w
					if w != 0 {
						any = true
					}
				}
			}
			for _, s := range b.Succs {
				if !l.Blocks[s] || s.Dominates(b) {
					continue
				}
				if old, ok := dist[s]; !ok || d < old {
					dist[s] = d
				}
			}
		}
	}
	best := inf
	for _, la := range l.Latches {
		d, ok := dist[la]
		if !ok {
			continue
		}
		for _, ins := range la.Instrs {
			if w, ok := weight(ins); ok {
				d += w
			}
		}
		if d < best {
			best = d
		}
	}
	if best >= inf {
		return 0, false
	}
	return best, any
}

func (c *Ctx) judgeLoop(eng *ranges.Engine, adv *advanceSummaries, fn *ssa.Function, l *natLoop) loopVerdict {
	phis, fields, hasExit, iter := testedVars(l)
	if iter {
		return loopVerdict{report.Discharged, "range over a map / string: the iterator advances"}
	}
	// 1. ranking by a tested header phi
	if len(phis) > 0 {
		allLatches := true
		var why []string
		for _, la := range l.Latches {
			idx := -1
			for i, p := range l.Header.Preds {
				if p == la {
					idx = i
				}
			}
			ok := false
			for _, p := range phis {
				if idx < 0 || idx >= len(p.Edges) {
					continue
				}
				ds := c.deltaSets(eng, fn, p.Edges[idx], p, l, 0)
				if ds == nil {
					continue
				}
				up, down := true, true
				for _, d := range ds {
					if d.IsBottom() || d.Lo() < 1 {
						up = false
					}
					if d.IsBottom() || d.Hi() > -1 {
						down = false
					}
				}
				// the movement must go towards an exit test (i++ with `i < n`, not with `i < 0`)
				if up && !exitDirs[p][0] {
					up = false
				}
				if down && !exitDirs[p][1] {
					down = false
				}
				if up || down {
					ok = true
					name := p.Comment
					if name == "" {
						name = p.Name()
					}
					why = append(why, name)
					break
				}
			}
			if !ok {
				allLatches = false
			}
		}
		if allLatches {
			return loopVerdict{report.Discharged, "every cycle strictly moves a variable its exit test reads: " + strings.Join(uniq(why), ", ")}
		}
	}
	// 2. every cycle consumes input through a cursor primitive
	if w, any := minCycleWeight(l, func(ins ssa.Instruction) (int64, bool) { return adv.instrAdvance(fn, ins) }); any && w >= 1 {
		return loopVerdict{report.Discharged, fmt.Sprintf("every cycle consumes at least %d input unit(s) through a cursor primitive; its error return leaves the loop", w)}
	}
	// 3. ranking by a tested struct field that every cycle strictly increases / decreases
	for _, fa := range fields {
		wf := func(sign int64) func(ins ssa.Instruction) (int64, bool) {
			return func(ins ssa.Instruction) (int64, bool) {
				st, ok := ins.(*ssa.Store)
				if !ok {
					return 0, false
				}
				sfa, ok := st.Addr.(*ssa.FieldAddr)
				if !ok || sfa.Field != fa.Field || !sameBase(sfa.X, fa.X) {
					return 0, false
				}
				bo, ok := st.Val.(*ssa.BinOp)
				if !ok || (bo.Op != token.ADD && bo.Op != token.SUB) || !isLoadOfField(bo.X, sfa) {
					return -(int64(1) << 30), true // overwritten with something else: no ranking
				}
				iv := eng.At(fn, bo.Y, st.Block())
				if iv.IsBottom() {
					return -(int64(1) << 30), true
				}
				lo, hi := iv.Lo(), iv.Hi()
				if bo.Op == token.SUB {
					lo, hi = -hi, -lo
				}
				if sign > 0 {
					return lo, true
				}
				return -hi, true
			}
		}
		for _, sign := range []int64{1, -1} {
			if w, any := minCycleWeight(l, wf(sign)); any && w >= 1 && w < (int64(1)<<29) {
				return loopVerdict{report.Discharged, "every cycle strictly moves field " + fieldNameOf(fa.X.Type(), fa.Field) + " which the exit test reads"}
			}
		}
	}
	// 4. witness shape: a stall path
	if hasExit && len(phis) > 0 && len(fields) == 0 {
		if where := c.stallPath(eng, fn, l, phis); where != "" {
			return loopVerdict{report.Violated, "on the path through " + where + " every variable the exit tests read keeps exactly its value and nothing is consumed: the next iteration takes the same branches (no progress)"}
		}
	}
	if !hasExit {
		return loopVerdict{report.OutOfScope, "condition-less loop: exits through returns / breaks on data-dependent tests; progress not established"}
	}
	return loopVerdict{report.OutOfScope, "no strictly monotone tested variable and no guaranteed cursor advance found; progress may be relational"}
}

// stallPath: is there a merge block B in the body and a predecessor k such that, coming from k,
// every tested variable is carried around the loop unchanged?
func (c *Ctx) stallPath(eng *ranges.Engine, fn *ssa.Function, l *natLoop, phis []*ssa.Phi) string {
	for _, la := range l.Latches {
		idx := -1
		for i, p := range l.Header.Preds {
			if p == la {
				idx = i
			}
		}
		if idx < 0 {
			continue
		}
		// candidate merge blocks: blocks of inner phis feeding the back-edge values
		cands := map[*ssa.BasicBlock]bool{}
		for _, p := range phis {
			collectPhiBlocks(p.Edges[idx], l, cands, 0)
		}
		for b := range cands {
			for k := range b.Preds {
				all := true
				for _, p := range phis {
					if !zeroDeltaVia(p.Edges[idx], p, b, k, 0) {
						all = false
						break
					}
				}
				if all && !pathHasCalls(b.Preds[k], l) {
					return blockName(b.Preds[k])
				}
			}
		}
	}
	return ""
}

func collectPhiBlocks(v ssa.Value, l *natLoop, out map[*ssa.BasicBlock]bool, depth int) {
	if depth > 5 {
		return
	}
	switch x := v.(type) {
	case *ssa.Phi:
		if l.Blocks[x.Block()] && x.Block() != l.Header {
			out[x.Block()] = true
			for _, e := range x.Edges {
				collectPhiBlocks(e, l, out, depth+1)
			}
		}
	case *ssa.BinOp:
		collectPhiBlocks(x.X, l, out, depth+1)
		collectPhiBlocks(x.Y, l, out, depth+1)
	}
}

// zeroDeltaVia: coming into merge block b from predecessor k, does v equal p exactly?
func zeroDeltaVia(v ssa.Value, p *ssa.Phi, b *ssa.BasicBlock, k int, depth int) bool {
	if depth > 5 {
		return false
	}
	if v == ssa.Value(p) {
		return true
	}
	switch x := v.(type) {
	case *ssa.Phi:
		if x.Block() == b {
			return zeroDeltaVia(x.Edges[k], p, b, k, depth+1)
		}
		return false
	case *ssa.BinOp:
		if x.Op != token.ADD && x.Op != token.SUB {
			return false
		}
		return zeroDeltaVia(x.X, p, b, k, depth+1) && isZeroVia(x.Y, b, k, depth+1) ||
			(x.Op == token.ADD && zeroDeltaVia(x.Y, p, b, k, depth+1) && isZeroVia(x.X, b, k, depth+1))
	}
	return false
}

func isZeroVia(v ssa.Value, b *ssa.BasicBlock, k int, depth int) bool {
	if depth > 5 {
		return false
	}
	if isConstInt(v, 0) {
		return true
	}
	if x, ok := v.(*ssa.Phi); ok && x.Block() == b {
		return isZeroVia(x.Edges[k], b, k, depth+1)
	}
	return false
}

// pathHasCalls: does the block (or a block of the loop that dominates it) call anything that could
// change state (non-builtin call)?
func pathHasCalls(b *ssa.BasicBlock, l *natLoop) bool {
	for x := b; x != nil && l.Blocks[x]; x = x.Idom() {
		for _, ins := range x.Instrs {
			if call, ok := ins.(ssa.CallInstruction); ok {
				if _, isB := call.Common().Value.(*ssa.Builtin); !isB {
					return true
				}
			}
		}
		if x == l.Header {
			break
		}
	}
	return false
}
