package props

import (
	"fmt"
	"go/token"
	"go/types"
	"sort"
	"strings"

	"golang.org/x/tools/go/ssa"

	"dcmcheck/internal/load"
	"dcmcheck/internal/ranges"
	"dcmcheck/internal/report"
)

// Rule ALLOC-READBUF (C09, memory clause — one structural necessary condition of it).
//
// "A short input can [not] make a decoder allocate memory unrelated to the declared width x height x
// components." The allocations that are *by construction* unrelated to the image size are read
// buffers: a byte buffer that is allocated with a length taken from a length field of the stream and
// then filled from the stream (make([]byte, n); io.ReadFull(r, buf) / p.read(buf) / copy(buf, data[o:])).
// Such a buffer can never usefully be larger than the input that is left, so its size must be limited
// — by the width of the field (a 16-bit segment length allocates at most 64 KiB), by a comparison
// with what is left of the input, or by any other test of the field's upper side — BEFORE the
// allocation. Allocate-then-discover-the-data-is-missing is the shape that lets a 20-byte stream
// request gigabytes.
//
// Obligations: every make([]T, n) in decode-reachable code whose n is stream-derived and whose
// result is filled from the stream. Discharged: n*sizeof(T) <= 64 MiB in the interval domain, or a
// dominating comparison relates a leaf of n to a len(...) term. Violated (witness shape): n is wider
// than that, the upper side of n and of every wide stream scalar it is built from is untouched by any
// mask, guard, clamp or comparison between the stream and the allocation. Everything else: out of
// scope. Allocations that are not read buffers (sample planes, coefficient arrays, tables sized from
// the declared geometry) are not obligations of this rule: the property allows memory proportional
// to the declared image size, and the library sets no limit of its own on that size.

const allocBudget = int64(64 << 20)

func elemSize(t types.Type) int64 {
	sl, ok := t.Underlying().(*types.Slice)
	if !ok {
		return 8
	}
	sz := types.SizesFor("gc", "amd64").Sizeof(sl.Elem())
	if sz <= 0 {
		sz = 1
	}
	return sz
}

// fillTarget: the freshly made slice v is handed, as the destination, to something that fills it
// from a reader or from another slice. depth bounds the walk through library helpers.
func (c *Ctx) fillTarget(v ssa.Value, depth int, seen map[ssa.Value]bool) (bool, string) {
	if depth > 3 || v == nil || seen[v] || v.Referrers() == nil {
		return false, ""
	}
	seen[v] = true
	for _, r := range *v.Referrers() {
		switch x := r.(type) {
		case *ssa.Slice:
			if x.X == v {
				if ok, how := c.fillTarget(x, depth, seen); ok {
					return true, how
				}
			}
		case *ssa.Phi:
			if ok, how := c.fillTarget(x, depth+1, seen); ok {
				return true, how
			}
		case ssa.CallInstruction:
			cc := x.Common()
			if b, ok := cc.Value.(*ssa.Builtin); ok {
				if b.Name() == "copy" && len(cc.Args) == 2 && cc.Args[0] == v {
					return true, "copy(buf, …)"
				}
				continue
			}
			ai := -1
			for i, a := range cc.Args {
				if a == v {
					ai = i
				}
			}
			if ai < 0 {
				continue
			}
			if cc.IsInvoke() {
				if cc.Method.Name() == "Read" || cc.Method.Name() == "ReadAt" {
					return true, "(" + cc.Value.Type().String() + ").Read(buf)"
				}
				continue
			}
			sc := cc.StaticCallee()
			if sc == nil {
				continue
			}
			switch sc.String() {
			case "io.ReadFull", "io.ReadAtLeast", "(*bytes.Reader).Read", "(*bytes.Buffer).Read", "(*bufio.Reader).Read", "encoding/binary.Read":
				return true, sc.String() + "(…, buf)"
			}
			if sc.Blocks != nil && load.InScope(sc) && ai < len(sc.Params) && len(cc.Args) == len(sc.Params) && isByteSlice(sc.Params[ai].Type()) {
				if ok, how := c.fillTarget(sc.Params[ai], depth+1, seen); ok {
					return true, load.FuncName(sc) + " → " + how
				}
			}
		}
	}
	return false, ""
}

func mentionsAnyLen(v ssa.Value, depth int) bool {
	if depth > 6 || v == nil {
		return false
	}
	if _, ok := isLenOf(v); ok {
		return true
	}
	switch y := v.(type) {
	case *ssa.BinOp:
		return mentionsAnyLen(y.X, depth+1) || mentionsAnyLen(y.Y, depth+1)
	case *ssa.Convert:
		return mentionsAnyLen(y.X, depth+1)
	case *ssa.Call:
		if b, ok := y.Call.Value.(*ssa.Builtin); ok && (b.Name() == "min" || b.Name() == "max") {
			for _, a := range y.Call.Args {
				if mentionsAnyLen(a, depth+1) {
					return true
				}
			}
		}
		if sc := y.Call.StaticCallee(); sc != nil && (sc.String() == "(*bytes.Reader).Len" || sc.String() == "(*bytes.Buffer).Len") {
			return true
		}
	case *ssa.Phi:
		for _, e := range y.Edges {
			if mentionsAnyLen(e, depth+1) {
				return true
			}
		}
	}
	return false
}

func mentionsAnyOf(v ssa.Value, leaves map[ssa.Value]bool, depth int) bool {
	if depth > 6 || v == nil {
		return false
	}
	if leaves[v] {
		return true
	}
	switch v.(type) {
	case *ssa.UnOp, *ssa.Field:
		// go/ssa has no CSE: a second load of the same field is another value
		for l := range leaves {
			if sameLoc(v, l, 0) {
				return true
			}
		}
	}
	switch y := v.(type) {
	case *ssa.BinOp:
		return mentionsAnyOf(y.X, leaves, depth+1) || mentionsAnyOf(y.Y, leaves, depth+1)
	case *ssa.Convert:
		return mentionsAnyOf(y.X, leaves, depth+1)
	case *ssa.ChangeType:
		return mentionsAnyOf(y.X, leaves, depth+1)
	}
	return false
}

// relatedToInputLength: some branch dominating b compares a value built from one of the leaves with
// a value built from a len(...) term.
func relatedToInputLength(b *ssa.BasicBlock, n ssa.Value, leaves map[ssa.Value]bool) bool {
	for cb := b; cb != nil; cb = cb.Idom() {
		d := cb.Idom()
		if d == nil {
			break
		}
		bo, ok := ifCond(d).(*ssa.BinOp)
		if !ok {
			continue
		}
		switch bo.Op {
		case token.LSS, token.LEQ, token.GTR, token.GEQ:
		default:
			continue
		}
		lx, ly := mentionsAnyOf(bo.X, leaves, 0) || bo.X == n, mentionsAnyOf(bo.Y, leaves, 0) || bo.Y == n
		if (lx && mentionsAnyLen(bo.Y, 0)) || (ly && mentionsAnyLen(bo.X, 0)) {
			return true
		}
	}
	return false
}

func (c *Ctx) allocRule(eng *ranges.Engine, funcs map[*ssa.Function]bool) int {
	var fns []*ssa.Function
	for fn := range funcs {
		fns = append(fns, fn)
	}
	sort.Slice(fns, func(i, j int) bool { return fns[i].String() < fns[j].String() })
	n, nExp := 0, 0
	seen := map[string]int{}
	for _, fn := range fns {
		for _, b := range fn.Blocks {
			for _, ins := range b.Instrs {
				mk, ok := ins.(*ssa.MakeSlice)
				if !ok {
					continue
				}
				av := eng.At(fn, mk.Len, b)
				if av.IsBottom() || !av.Taint {
					continue
				}
				if av.Blowup {
					// ALLOC-EXP: the size is 1<<n (times constants) with a stream-controlled n that nothing keeps
					// below 31 — through data flow or through a trip count (1 << bitLength(maxVal)): a header byte
					// selects the allocation size exponentially, whatever the declared geometry
					nExp++
					c.add("ALLOC-EXP", fn, "make("+strings.TrimPrefix(mk.Type().String(), load.ModPath+"/")+", "+addrExpr(mk.Len)+")", report.Violated, c.P.Pos(mk.Pos()),
						"allocation size "+av.String()+" is derived from 1<<n with a stream-controlled n that no check keeps below 31: a few header bytes request gigabytes — memory unrelated to the declared width x height x components")
					continue
				}
				isFill, how := c.fillTarget(mk, 0, map[ssa.Value]bool{})
				if !isFill {
					continue
				}
				n++
				esz := elemSize(mk.Type())
				construct := "make(" + strings.TrimPrefix(mk.Type().String(), load.ModPath+"/") + ", " + addrExpr(mk.Len) + ") filled by " + how
				key := fn.String() + "|" + construct
				seen[key]++
				if seen[key] > 1 {
					construct = fmt.Sprintf("%s #%d", construct, seen[key])
				}
				pos := c.P.Pos(mk.Pos())
				if av.Hi() <= allocBudget/esz {
					c.add("ALLOC-READBUF", fn, construct, report.Discharged, pos, fmt.Sprintf("size %s x %d bytes is at most 64 MiB whatever the stream says (width of the length field / guards)", av.String(), esz))
					continue
				}
				leaves := map[ssa.Value]bool{}
				var wide []ssa.Value
				for _, l := range leavesOf(mk.Len) {
					leaves[l] = true
				}
				if relatedToInputLength(b, mk.Len, leaves) {
					c.add("ALLOC-READBUF", fn, construct, report.Discharged, pos, "a dominating comparison relates the size to a len(...) term: the buffer is bounded by the input that is present")
					continue
				}
				for _, l := range leavesOf(mk.Len) {
					lav := eng.At(fn, l, b)
					if lav.Taint && lav.Hi() > allocBudget/esz {
						wide = append(wide, l)
					}
				}
				pol := polarityLeaves(mk.Len)
				guarded := upperGuarded(b, mk.Len, pol)
				// the witness: a wide stream scalar that enters the size with positive sign only (through
				// +, - and conversions), every value of which is producible (exact) or which arrives
				// untouched (raw, upper side never limited), and nothing bounds it or the size from above
				var witness []ssa.Value
				for _, l := range wide {
					lav := eng.At(fn, l, b)
					if pol[l] == polPos && (lav.Exact || (lav.Raw && !lav.SanHi)) {
						witness = append(witness, l)
					}
				}
				unlimited := !guarded && len(witness) > 0
				if !unlimited && av.Exact && !guarded {
					// every value of an exact set is producible: the declared length reaches the make as it
					// was assembled from the stream bytes, and no dominating test bounds it from above
					unlimited = true
				}
				wide = witness
				if unlimited {
					var names []string
					for _, l := range wide {
						names = append(names, addrExpr(l)+" "+eng.At(fn, l, b).String())
					}
					c.add("ALLOC-READBUF", fn, construct, report.Violated, pos,
						fmt.Sprintf("read buffer of %s x %d bytes is allocated before anything limits the length it was declared with (%s): no mask, clamp or comparison touches the upper side between the stream and this make, so a header of a few bytes requests up to %s bytes that the input cannot contain — memory unrelated to the declared image size", av.String(), esz, strings.Join(names, ", "), av.String()))
					continue
				}
				c.add("ALLOC-READBUF", fn, construct, report.OutOfScope, pos, "size "+av.String()+" is stream-derived and not bounded in the interval domain, but its upper side was limited somewhere (or is internal arithmetic): not the witness shape")
			}
		}
	}
	return n
}

// upperGuarded: some branch edge dominating b bounds the size n from above: n itself, a leaf that
// enters n positively gets an upper bound, or a leaf that enters n negatively gets a lower bound.
// "E1 < E2" taken on its true side bounds E1 above and E2 below (mirror images for >, >= and for the
// false sides); an upper bound on an expression bounds its positive leaves above and its negative
// leaves below. An equality taken on its true side bounds everything; so does the tested outcome of
// a checking helper that received such a value.
func upperGuarded(b *ssa.BasicBlock, n ssa.Value, pol map[ssa.Value]int) bool {
	find := func(v ssa.Value) (int, bool) {
		if p, ok := pol[v]; ok {
			return p, true
		}
		switch v.(type) {
		case *ssa.UnOp, *ssa.Field:
			for l, p := range pol {
				if sameLoc(v, l, 0) {
					return p, true
				}
			}
		}
		return 0, false
	}
	// does an upper (upper=true) or lower bound on expression e bound n from above?
	helps := func(e ssa.Value, upper bool) bool {
		if e == n {
			return upper
		}
		for l, pe := range polarityLeaves(e) {
			pn, ok := find(l)
			if !ok {
				continue
			}
			if pe&polUnk != 0 || pn&polUnk != 0 {
				return true
			}
			// bound direction on the leaf: upper on e gives upper on its positive leaves
			leafUpper := (upper && pe&polPos != 0) || (!upper && pe&polNeg != 0)
			leafLower := (upper && pe&polNeg != 0) || (!upper && pe&polPos != 0)
			if (leafUpper && pn&polPos != 0) || (leafLower && pn&polNeg != 0) {
				return true
			}
		}
		return false
	}
	for cb := b; cb != nil; cb = cb.Idom() {
		d := cb.Idom()
		if d == nil {
			break
		}
		cond := ifCond(d)
		if cond == nil || len(d.Succs) != 2 {
			continue
		}
		onTrue := d.Succs[0] == cb || d.Succs[0].Dominates(b)
		onFalse := d.Succs[1] == cb || d.Succs[1].Dominates(b)
		if onTrue == onFalse {
			continue // not an edge that decides whether b runs
		}
		if call, _, _, ok := ranges.OutcomeOfCond(cond); ok {
			for _, a := range call.Call.Args {
				if helps(a, true) || helps(a, false) {
					return true
				}
			}
			continue
		}
		bo, ok := cond.(*ssa.BinOp)
		if !ok {
			continue
		}
		switch bo.Op {
		case token.EQL, token.NEQ:
			if (bo.Op == token.EQL) == onTrue {
				if helps(bo.X, true) || helps(bo.X, false) || helps(bo.Y, true) || helps(bo.Y, false) {
					return true
				}
			}
		case token.LSS, token.LEQ:
			// true side: X bounded above, Y below; false side: X >= Y: X below, Y above
			if helps(bo.X, onTrue) || helps(bo.Y, !onTrue) {
				return true
			}
		case token.GTR, token.GEQ:
			if helps(bo.X, !onTrue) || helps(bo.Y, onTrue) {
				return true
			}
		}
	}
	return false
}

// sameLoc: a and b read the same memory location (same field / element chain over the same base).
// Stores in between are ignored: the answer is only used to recognise a guard, never to alarm.
func sameLoc(a, b ssa.Value, depth int) bool {
	if a == b {
		return true
	}
	if depth > 6 || a == nil || b == nil {
		return false
	}
	switch x := a.(type) {
	case *ssa.UnOp:
		y, ok := b.(*ssa.UnOp)
		return ok && x.Op == token.MUL && y.Op == token.MUL && sameLoc(x.X, y.X, depth+1)
	case *ssa.Field:
		y, ok := b.(*ssa.Field)
		return ok && x.Field == y.Field && sameLoc(x.X, y.X, depth+1)
	case *ssa.FieldAddr:
		y, ok := b.(*ssa.FieldAddr)
		return ok && x.Field == y.Field && sameLoc(x.X, y.X, depth+1)
	case *ssa.IndexAddr:
		y, ok := b.(*ssa.IndexAddr)
		return ok && sameLoc(x.X, y.X, depth+1) && sameLoc(x.Index, y.Index, depth+1)
	case *ssa.Const:
		y, ok := b.(*ssa.Const)
		return ok && x.Value != nil && y.Value != nil && x.Value.ExactString() == y.Value.ExactString()
	}
	return false
}

const (
	polPos = 1
	polNeg = 2
	polUnk = 4
)

// polarityLeaves: with which sign each leaf enters an expression built from +, - and conversions;
// anything under another operator is "unknown".
func polarityLeaves(v ssa.Value) map[ssa.Value]int {
	out := map[ssa.Value]int{}
	var walk func(x ssa.Value, sign int, depth int)
	walk = func(x ssa.Value, sign int, depth int) {
		if x == nil || depth > 12 {
			return
		}
		switch y := x.(type) {
		case *ssa.Const:
			return
		case *ssa.Convert:
			walk(y.X, sign, depth+1)
			return
		case *ssa.ChangeType:
			walk(y.X, sign, depth+1)
			return
		case *ssa.BinOp:
			switch y.Op {
			case token.ADD:
				walk(y.X, sign, depth+1)
				walk(y.Y, sign, depth+1)
				return
			case token.SUB:
				walk(y.X, sign, depth+1)
				neg := sign
				if sign == polPos {
					neg = polNeg
				} else if sign == polNeg {
					neg = polPos
				}
				walk(y.Y, neg, depth+1)
				return
			}
			for _, l := range leavesOf(x) {
				out[l] |= polUnk
			}
			return
		case *ssa.Phi:
			for _, l := range leavesOf(x) {
				out[l] |= polUnk
			}
			return
		}
		out[x] |= sign
	}
	walk(v, polPos, 0)
	return out
}
