package props

import (
	"fmt"
	"strings"

	"golang.org/x/tools/go/ssa"

	"dcmcheck/internal/load"
	"dcmcheck/internal/pta"
	"dcmcheck/internal/report"
)

func init() { Registry["C10"] = runC10 }

// nondeterminism sources (DESIGN C10 rule 4)
var nondetImports = map[string]string{
	"time":         "wall-clock dependence",
	"math/rand":    "pseudo-random numbers",
	"math/rand/v2": "pseudo-random numbers",
	"crypto/rand":  "random numbers",
	"os":           "environment / file-system dependence",
}

func runC10(c *Ctx) Info {
	e, err := c.effects()
	if err != nil {
		c.C.Fatalf("%v", err)
		return Info{Explanation: "failed"}
	}
	a := e.A
	// ---- 3. INPUT-RO -----------------------------------------------------------------------
	nInpDis := 0
	seen := map[string]bool{}
	for _, ef := range a.Effects {
		if ef.Ctx != pta.CtxRun {
			continue
		}
		o := ef.Loc.Obj
		if o.Kind != pta.ExtInput {
			nInpDis++
			continue
		}
		if !(e.ReachEnc[ef.Fn] || e.ReachDec[ef.Fn]) {
			continue
		}
		construct := describeInstr(ef.Instr)
		k := load.FuncName(ef.Fn) + "|" + construct
		if seen[k] {
			continue
		}
		seen[k] = true
		w := witnessPathFrom(c, append(append([]*ssa.Function{}, e.EP.Enc...), e.EP.Dec...), ef.Fn)
		if c.Dump != "" {
			w = append(w, whyEffect(a, ef)...)
		}
		c.add("INPUT-RO", ef.Fn, construct, report.Violated, c.P.Pos(ef.Instr.Pos()),
			fmt.Sprintf("%s may write the caller's input buffer %s (%s)", ef.Kind, o.Label, ef.Note), w...)
	}
	c.C.Bulk("INPUT-RO", nInpDis, 0)
	c.C.ExpectControl("INPUT-RO")

	// ---- package-level state written from encode/decode (shared with C18) ------------------
	nG := 0
	seenG := map[string]bool{}
	for _, ef := range a.Effects {
		if ef.Ctx != pta.CtxRun {
			continue
		}
		gl := e.GlobalReach[ef.Loc.Obj]
		if len(gl) == 0 || ef.Loc.Obj.Kind == pta.FuncObj {
			nG++
			continue
		}
		if !(e.ReachEnc[ef.Fn] || e.ReachDec[ef.Fn]) || !e.ReachAPI[ef.Fn] {
			continue
		}
		construct := describeInstr(ef.Instr) + " -> " + strings.Join(gl, ",")
		k := load.FuncName(ef.Fn) + "|" + construct
		if seenG[k] {
			continue
		}
		seenG[k] = true
		c.add("NO-GLOBAL-STATE", ef.Fn, construct, report.Violated, c.P.Pos(ef.Instr.Pos()),
			fmt.Sprintf("%s may write %s (package-level state) during encode/decode: a later call can observe it, so outputs depend on call history", ef.Kind, ef.Loc))
	}
	c.C.Bulk("NO-GLOBAL-STATE", nG, 0)
	c.C.ExpectControl("NO-GLOBAL-STATE")

	// ---- 4. DETERMINISM ---------------------------------------------------------------------
	nImp, _ := c.scanHiddenMechanisms("DETERMINISM", nondetImports)
	c.C.Bulk("DETERMINISM", nImp, 0)
	c.C.ExpectControl("DETERMINISM")
	nRanges := c.mapRangeRule()

	// ---- 1. ORDER-FRAMES --------------------------------------------------------------------
	nLoops := c.orderFramesRule(e)

	// ---- 2. CARRY ---------------------------------------------------------------------------
	carryInfo := c.carryRule(e)

	// ---- 2b. OUTPUT-VIEW: the frame handed over may not live in a buffer the next iteration rewrites
	nViews := c.outputViewRule(e)
	c.C.Floor("OUTPUT-VIEW", nViews-c.controlCount("OUTPUT-VIEW"), 2)
	c.C.ExpectControl("OUTPUT-VIEW")

	// ---- 5. FLOWS-CONTAINER -----------------------------------------------------------------
	c.flowsContainerRule(e)

	return Info{
		Explanation:  "Five rule groups, one per sentence of the statement. ORDER-FRAMES: every GetFrame call sits in a counted loop 0..FrameCount()-1 whose cycle executes exactly one AddFrame fed by that iteration's frame, every other exit returning an error. CARRY: for every object that outlives a frame (jpeg2000.Encoder/Decoder and anything a codec allocates outside its frame loop) the fields written during a call and read before being re-assigned in the next one are computed (must-definition analysis with method summaries); accumulate-only or input-conditionally assigned carried fields are violations. OUTPUT-VIEW: the bytes handed to AddFrame are not a view (followed through slice expressions, locals, helper results and out-parameters; append / copy / Clone end a view) of a buffer field of an object defined outside the frame loop that a call inside the loop mutates in place. INPUT-RO: no write effect (store/copy/append-in-place/sort) on the caller's frame bytes anywhere reachable from an encode/decode entry point (engine E1). DETERMINISM: no time/rand/os/goroutines; every range over a map is order-insensitive. FLOWS-CONTAINER: information-flow necessary condition for the decoded container width to follow BitsAllocated. Decides these structural clauses; byte-equality of lossless round trips is not decided.",
		DoesNotCover: "'for the lossless transfer syntaxes those bytes equal the source frame' (C01-C06); byte-identical output beyond absence of nondeterminism sources; floating-point determinism across architectures",
		Trusted:      append([]string{"frozen effect table for standard-library callees (pta/summaries.go)"}, commonTrusted...),
		Extra: map[string]any{
			"effects_total": len(a.Effects),
			"frame_loops":   nLoops,
			"addframe_sites": nViews,
			"map_ranges":    nRanges,
			"carry":         carryInfo,
		},
	}
}

func whyEffect(a *pta.Analysis, ef pta.Effect) []string {
	switch x := ef.Instr.(type) {
	case *ssa.Store:
		return a.Why(x.Addr, ef.Ctx, baseLoc(ef.Loc))
	case ssa.CallInstruction:
		if len(x.Common().Args) > 0 {
			return a.Why(x.Common().Args[0], ef.Ctx, baseLoc(ef.Loc))
		}
	}
	return nil
}

func baseLoc(l pta.Loc) pta.Loc {
	if l.Obj.Blob {
		return pta.Loc{Obj: l.Obj}
	}
	return pta.Loc{Obj: l.Obj, Path: strings.TrimSuffix(l.Path, "[*]")}
}

// witnessPathFrom gives a shortest call path from one of roots to fn.
func witnessPathFrom(c *Ctx, roots []*ssa.Function, fn *ssa.Function) []string {
	rs := map[*ssa.Function]bool{}
	for _, f := range roots {
		rs[f] = true
	}
	prev := map[*ssa.Function]*ssa.Function{fn: nil}
	queue := []*ssa.Function{fn}
	for len(queue) > 0 {
		f := queue[0]
		queue = queue[1:]
		if rs[f] {
			var path []string
			for x := f; x != nil; x = prev[x] {
				path = append(path, load.FuncName(x))
			}
			return []string{"call path: " + strings.Join(path, " -> ")}
		}
		var callers []*ssa.Function
		if n := c.P.CG.Nodes[f]; n != nil {
			for _, in := range n.In {
				callers = append(callers, in.Caller.Func)
			}
		}
		if f.Parent() != nil {
			callers = append(callers, f.Parent())
		}
		for _, cf := range callers {
			if cf == nil {
				continue
			}
			if _, ok := prev[cf]; !ok {
				prev[cf] = f
				queue = append(queue, cf)
			}
		}
	}
	return nil
}

// placeholders filled in by the other C10 rule files
