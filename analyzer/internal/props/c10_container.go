package props

import (
	"go/types"
	"strings"

	"golang.org/x/tools/go/ssa"

	"dcmcheck/internal/load"
	"dcmcheck/internal/report"
)

// flowsContainerRule implements FLOWS-CONTAINER (DESIGN C10 rule 5): an information-flow necessary
// condition of "every decoded frame has Rows x Columns x SamplesPerPixel x ceil(BitsAllocated/8)
// bytes". If neither Encode nor Decode of a codec (nor anything they call inside the module) ever
// reads FrameInfo.BitsAllocated, the decoded container width cannot vary with it, so
// BitsAllocated = 16 with BitsStored <= 8 (inside the property's domain) cannot yield 2-byte samples.
func (c *Ctx) flowsContainerRule(e *Eff) {
	n := 0
	for _, ct := range e.EP.CodecTypes {
		var roots []*ssa.Function
		for _, name := range []string{"Encode", "Decode"} {
			if m := c.P.Method(ct, name); m != nil {
				roots = append(roots, m)
			}
		}
		if len(roots) == 0 {
			continue
		}
		n++
		reach := c.P.Reachable(roots)
		reads := ""
		for fn := range reach {
			if !load.IsModule(load.FuncPkgPath(fn)) || reads != "" {
				continue
			}
			for _, b := range fn.Blocks {
				for _, ins := range b.Instrs {
					v, ok := ins.(ssa.Value)
					if !ok {
						continue
					}
					owner, f, _, ok := fieldOf(v)
					if !ok || owner == nil || owner.Obj().Pkg() == nil {
						continue
					}
					if owner.Obj().Name() == "FrameInfo" && strings.HasPrefix(owner.Obj().Pkg().Path(), load.DicomPath) && f.Name() == "BitsAllocated" {
						reads = load.FuncName(fn) + " at " + c.P.Pos(ins.Pos())
					}
				}
			}
		}
		construct := typeName(ct) + ": FrameInfo.BitsAllocated"
		if reads != "" {
			c.add("FLOWS-CONTAINER", roots[0], construct, report.Discharged, c.P.Pos(roots[0].Pos()), "BitsAllocated is read in "+reads)
		} else {
			c.add("FLOWS-CONTAINER", roots[0], construct, report.Violated, c.P.Pos(roots[0].Pos()),
				"neither Encode nor Decode (nor anything they call) reads FrameInfo.BitsAllocated: the decoded sample container is chosen from the precision (BitsStored) alone, so a frame with BitsAllocated=16 and BitsStored<=8 is decoded to 1-byte samples instead of Rows*Columns*SamplesPerPixel*2 bytes")
		}
	}
	c.C.Floor("FLOWS-CONTAINER", n-c.controlCount("FLOWS-CONTAINER"), 6)
	c.C.ExpectControl("FLOWS-CONTAINER")
}

func typeName(n *types.Named) string {
	return strings.TrimPrefix(n.Obj().Pkg().Path(), load.ModPath+"/") + "." + n.Obj().Name()
}
