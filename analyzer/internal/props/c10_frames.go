package props

import (
	"fmt"
	"go/token"
	"go/types"

	"golang.org/x/tools/go/ssa"

	"dcmcheck/internal/report"
)

// pixelDataCall returns (receiver value, method name) if ins is an invoke on go-dicom's PixelData.
func pixelDataCall(ins ssa.Instruction) (ssa.CallInstruction, string) {
	call, ok := ins.(ssa.CallInstruction)
	if !ok {
		return nil, ""
	}
	cc := call.Common()
	if !cc.IsInvoke() || !isDicomInterface(cc.Value.Type(), "PixelData") {
		return nil, ""
	}
	return call, cc.Method.Name()
}

// sliceWithAllocCalls extends backwardSlice: a load from a local Alloc also depends on every call
// the Alloc's address is passed to (out-parameter idiom: decodeFrame(src, &dst, ...)).
func sliceWithAllocCalls(v ssa.Value) map[ssa.Value]bool {
	seen := backwardSlice(v, 2000)
	changed := true
	for changed {
		changed = false
		for x := range seen {
			// any pointer-valued object handle: a local Alloc, or an object such as a decoder whose
			// methods were called earlier with other data (decoder.Decode(frame); decoder.GetPixelData())
			al := x
			if _, isPtr := x.Type().Underlying().(*types.Pointer); !isPtr || al.Referrers() == nil {
				continue
			}
			if _, isParam := x.(*ssa.Parameter); isParam {
				continue
			}
			for _, r := range *al.Referrers() {
				switch u := r.(type) {
				case *ssa.Call:
					if !seen[u] {
						for y := range backwardSlice(u, 2000) {
							if !seen[y] {
								seen[y] = true
								changed = true
							}
						}
					}
				case *ssa.Store:
					if u.Addr == al {
						for y := range backwardSlice(u.Val, 2000) {
							if !seen[y] {
								seen[y] = true
								changed = true
							}
						}
					}
				}
			}
		}
	}
	return seen
}

// orderFramesRule implements ORDER-FRAMES (DESIGN C10 rule 1).
func (c *Ctx) orderFramesRule(e *Eff) int {
	nLoops := 0
	for _, fn := range c.scopeFuncs() {
		if !e.ReachCodec[fn] {
			continue
		}
		var gets, adds []ssa.CallInstruction
		for _, b := range fn.Blocks {
			for _, ins := range b.Instrs {
				if call, m := pixelDataCall(ins); call != nil {
					switch m {
					case "GetFrame":
						gets = append(gets, call)
					case "AddFrame":
						adds = append(adds, call)
					}
				}
			}
		}
		if len(gets) == 0 && len(adds) == 0 {
			continue
		}
		loops := naturalLoops(fn)
		usedAdds := map[ssa.CallInstruction]bool{}
		for _, get := range gets {
			nLoops++
			construct := "frame loop around " + addrExpr(get.Common().Value) + ".GetFrame"
			fail := func(why string) {
				c.add("ORDER-FRAMES", fn, construct, report.Violated, c.P.Pos(get.Pos()), why)
			}
			l := innermostLoopOf(loops, get.Block())
			if l == nil {
				fail("GetFrame is not inside a loop: only one frame can be processed")
				continue
			}
			// (a) induction variable
			idx := get.Common().Args[0]
			phi, ok := idx.(*ssa.Phi)
			if !ok || phi.Block() != l.Header {
				fail("the GetFrame argument is not the loop's induction variable (a phi at the loop header)")
				continue
			}
			okInd := true
			for i, ed := range phi.Edges {
				pred := l.Header.Preds[i]
				if l.Blocks[pred] {
					bo, ok := ed.(*ssa.BinOp)
					if !ok || bo.Op != token.ADD || bo.X != phi || !isConstInt(bo.Y, 1) {
						okInd = false
					}
				} else if !isConstInt(ed, 0) {
					okInd = false
				}
			}
			if !okInd {
				fail("the frame index does not start at 0 and step by exactly 1 on every iteration")
				continue
			}
			// (b) bound is FrameCount() of the same PixelData, unmodified
			cond := ifCond(l.Header)
			bo, _ := cond.(*ssa.BinOp)
			if bo == nil || bo.Op != token.LSS || bo.X != phi || l.Blocks[l.Header.Succs[1]] {
				fail("the loop is not of the form `for i := 0; i < n; i++` with the exit on the false edge of the header test")
				continue
			}
			boundOK, arith := false, false
			for v := range backwardSlice(bo.Y, 200) {
				if call, ok := v.(*ssa.Call); ok {
					if cc := call.Common(); cc.IsInvoke() && cc.Method.Name() == "FrameCount" && sameBase(cc.Value, get.Common().Value) {
						boundOK = true
					}
				}
				if b2, ok := v.(*ssa.BinOp); ok && b2 != bo {
					arith = true
				}
			}
			if !boundOK || arith {
				fail("the loop bound is not exactly FrameCount() of the PixelData the frames are read from")
				continue
			}
			// (c) exactly one AddFrame per cycle, fed by this iteration's frame
			var inLoop []ssa.CallInstruction
			for _, ad := range adds {
				if l.Blocks[ad.Block()] {
					inLoop = append(inLoop, ad)
				}
			}
			if len(inLoop) != 1 {
				fail(fmt.Sprintf("%d AddFrame calls inside the frame loop (exactly one is required per iteration)", len(inLoop)))
				continue
			}
			add := inLoop[0]
			usedAdds[add] = true
			if sameBase(add.Common().Value, get.Common().Value) {
				fail("AddFrame is called on the PixelData the frames are read from")
				continue
			}
			if !get.Block().Dominates(add.Block()) {
				fail("GetFrame does not dominate AddFrame within the iteration")
				continue
			}
			domAll := true
			for _, la := range l.Latches {
				if !add.Block().Dominates(la) {
					domAll = false
				}
			}
			if !domAll {
				fail("some path through the loop body returns to the header without calling AddFrame (a frame can be skipped without an error)")
				continue
			}
			if il := innermostLoopOf(loops, add.Block()); il != l {
				fail("AddFrame sits in a nested loop: more than one output frame per input frame is possible")
				continue
			}
			dep := false
			getVal := get.Value()
			for v := range sliceWithAllocCalls(add.Common().Args[0]) {
				if v == ssa.Value(getVal) {
					dep = true
				}
			}
			if !dep {
				fail("the frame passed to AddFrame is not data-dependent on this iteration's GetFrame result")
				continue
			}
			// AddFrame's error must be looked at
			if av := add.Value(); av == nil || av.Referrers() == nil || len(*av.Referrers()) == 0 {
				fail("the error returned by AddFrame is discarded")
				continue
			}
			// (d) every other exit returns a non-nil error
			ei := errorResultIndex(fn)
			badExit := ""
			for _, ex := range l.exitEdges() {
				if ex[0] == l.Header {
					continue
				}
				for _, r := range returnsReachable(ex[1], l.Blocks) {
					if ei < 0 || isNilConst(r.Results[ei]) {
						badExit = c.P.Pos(r.Pos())
					}
				}
			}
			if badExit != "" {
				fail("the loop can be left early (" + badExit + ") with a nil error: later frames are silently dropped")
				continue
			}
			c.add("ORDER-FRAMES", fn, construct, report.Discharged, c.P.Pos(get.Pos()), "counted loop 0..FrameCount()-1, one dominating AddFrame per cycle fed by the iteration's frame, early exits return errors")
		}
		for _, ad := range adds {
			if !usedAdds[ad] {
				c.add("ORDER-FRAMES", fn, "AddFrame outside a frame loop", report.Violated, c.P.Pos(ad.Pos()), "AddFrame is not paired with a GetFrame of the same iteration")
			}
		}
	}
	c.C.Floor("ORDER-FRAMES", nLoops-c.controlCount("ORDER-FRAMES"), 20)
	c.C.ExpectControl("ORDER-FRAMES")
	return nLoops
}

func isConstInt(v ssa.Value, n int64) bool {
	k, ok := v.(*ssa.Const)
	if !ok || k.Value == nil {
		return false
	}
	return k.Int64() == n
}

// controlCount counts obligations of a rule that live in control packages.
func (c *Ctx) controlCount(rule string) int {
	n := 0
	for _, o := range c.C.Obls {
		if o.Rule == rule && o.Control {
			n++
		}
	}
	return n
}
