package props

import (
	"fmt"
	"go/token"
	"go/types"
	"sort"

	"golang.org/x/tools/go/ssa"

	"dcmcheck/internal/load"
	"dcmcheck/internal/ranges"
	"dcmcheck/internal/report"
)

// pixelDataCall returns (receiver value, method name) if ins is an invoke on go-dicom's PixelData.
func pixelDataCall(ins ssa.Instruction) (ssa.CallInstruction, string) {
	call, ok := ins.(ssa.CallInstruction)
	if !ok {
		return nil, ""
	}
	cc := call.Common()
	if !cc.IsInvoke() || !isDicomInterface(cc.Value.Type(), "PixelData") {
		return nil, ""
	}
	return call, cc.Method.Name()
}

// sliceWithAllocCalls extends backwardSlice: a load from a local Alloc also depends on every call
// the Alloc's address is passed to (out-parameter idiom: decodeFrame(src, &dst, ...)).
func sliceWithAllocCalls(v ssa.Value) map[ssa.Value]bool {
	seen := backwardSlice(v, 2000)
	changed := true
	for changed {
		changed = false
		for x := range seen {
			// any pointer-valued object handle: a local Alloc, or an object such as a decoder whose
			// methods were called earlier with other data (decoder.Decode(frame); decoder.GetPixelData())
			al := x
			if _, isPtr := x.Type().Underlying().(*types.Pointer); !isPtr || al.Referrers() == nil {
				continue
			}
			if _, isParam := x.(*ssa.Parameter); isParam {
				continue
			}
			for _, r := range *al.Referrers() {
				switch u := r.(type) {
				case *ssa.Call:
					if !seen[u] {
						for y := range backwardSlice(u, 2000) {
							if !seen[y] {
								seen[y] = true
								changed = true
							}
						}
					}
				case *ssa.Store:
					if u.Addr == al {
						for y := range backwardSlice(u.Val, 2000) {
							if !seen[y] {
								seen[y] = true
								changed = true
							}
						}
					}
				}
			}
		}
	}
	return seen
}

// frameGet / frameAdd: a point in a function where one frame is fetched from / appended to a
// PixelData — the invoke itself, or a call of a helper that does exactly that with its parameters
// (the obligation is then lifted to the call site, values mapped to the caller's).
type frameGet struct {
	site    ssa.CallInstruction
	fn      *ssa.Function
	idx, pd ssa.Value
	val     ssa.Value
	via     string
}

type frameAdd struct {
	site     ssa.CallInstruction
	fn       *ssa.Function
	pd, data ssa.Value
	errVal   ssa.Value
	via      string
}

func paramIndex(fn *ssa.Function, v ssa.Value) int {
	for i, p := range fn.Params {
		if ssa.Value(p) == v {
			return i
		}
	}
	return -1
}

// countedLoop: does loop l visit idx = 0, 1, ..., n-1 in this order, one value per iteration?
// Two shapes: the classic `for i := 0; i < n; i++` (test in the header) and the rotated form go/ssa
// emits for `for i := range n` (entry guarded by 0 < n, i+1 < n tested in the latch). Returns the
// bound n and the blocks whose exit edge is the regular end of the loop.
func countedLoop(l *natLoop, idx ssa.Value) (bound ssa.Value, regular map[*ssa.BasicBlock]bool, why string) {
	phi, ok := idx.(*ssa.Phi)
	if !ok || phi.Block() != l.Header {
		return nil, nil, "the GetFrame argument is not the loop's induction variable (a phi at the loop header)"
	}
	var inc *ssa.BinOp
	for i, ed := range phi.Edges {
		pred := l.Header.Preds[i]
		if l.Blocks[pred] {
			bo, ok := ed.(*ssa.BinOp)
			if !ok || bo.Op != token.ADD || bo.X != phi || !isConstInt(bo.Y, 1) {
				return nil, nil, "the frame index does not start at 0 and step by exactly 1 on every iteration"
			}
			if inc != nil && inc != bo {
				return nil, nil, "the frame index does not start at 0 and step by exactly 1 on every iteration"
			}
			inc = bo
		} else if !isConstInt(ed, 0) {
			return nil, nil, "the frame index does not start at 0 and step by exactly 1 on every iteration"
		}
	}
	if inc == nil {
		return nil, nil, "the frame index does not start at 0 and step by exactly 1 on every iteration"
	}
	notForm := "the loop is not of the form `for i := 0; i < n; i++` (or `for i := range n`) with the exit on the false edge of the test"
	// classic form
	if bo, _ := ifCond(l.Header).(*ssa.BinOp); bo != nil && len(l.Header.Succs) == 2 && (bo.X == ssa.Value(phi) || bo.Y == ssa.Value(phi)) {
		if bo.Op != token.LSS || bo.X != phi || l.Blocks[l.Header.Succs[1]] {
			return nil, nil, notForm
		}
		return bo.Y, map[*ssa.BasicBlock]bool{l.Header: true}, ""
	}
	// rotated form: every latch tests i+1 < n and only its true edge returns to the header; every
	// entry from outside is the true edge of 0 < n
	regular = map[*ssa.BasicBlock]bool{}
	for _, pred := range l.Header.Preds {
		bo, _ := ifCond(pred).(*ssa.BinOp)
		if bo == nil || len(pred.Succs) != 2 || bo.Op != token.LSS || pred.Succs[0] != l.Header {
			return nil, nil, notForm
		}
		if l.Blocks[pred] {
			if bo.X != ssa.Value(inc) || l.Blocks[pred.Succs[1]] {
				return nil, nil, notForm
			}
			regular[pred] = true
		} else if !isConstInt(bo.X, 0) {
			return nil, nil, notForm
		}
		if bound == nil {
			bound = bo.Y
		} else if bound != bo.Y {
			return nil, nil, notForm
		}
	}
	if bound == nil || len(regular) == 0 {
		return nil, nil, notForm
	}
	return bound, regular, ""
}

// frameCountSource: v is FrameCount() of some PixelData value, directly or as the result of a
// helper that returns exactly its parameter's FrameCount() on every successful return
// (info, n, err := openSource(src, dst, ...)). Returns that PixelData value in the caller's terms.
func (c *Ctx) frameCountSource(v ssa.Value, depth int) (ssa.Value, bool) {
	if depth > 2 {
		return nil, false
	}
	var call *ssa.Call
	idx := 0
	switch x := v.(type) {
	case *ssa.Call:
		call = x
	case *ssa.Extract:
		c, ok := x.Tuple.(*ssa.Call)
		if !ok {
			return nil, false
		}
		call, idx = c, x.Index
	case *ssa.UnOp:
		return c.frameCountField(x)
	default:
		return nil, false
	}
	cc := call.Common()
	if cc.IsInvoke() {
		if cc.Method.Name() == "FrameCount" && isDicomInterface(cc.Value.Type(), "PixelData") {
			return cc.Value, true
		}
		return nil, false
	}
	sc := cc.StaticCallee()
	if sc == nil || sc.Blocks == nil || !load.InScope(sc) || len(cc.Args) != len(sc.Params) {
		return nil, false
	}
	ei := errorResultIndex(sc)
	pi := -1
	n := 0
	for _, b := range sc.Blocks {
		if len(b.Instrs) == 0 {
			continue
		}
		ret, ok := b.Instrs[len(b.Instrs)-1].(*ssa.Return)
		if !ok || idx >= len(ret.Results) {
			continue
		}
		if ei >= 0 && !isNilConst(ret.Results[ei]) {
			continue
		}
		n++
		pd, ok := c.frameCountSource(ret.Results[idx], depth+1)
		if !ok {
			return nil, false
		}
		k := paramIndex(sc, pd)
		if k < 0 || (pi >= 0 && k != pi) {
			return nil, false
		}
		pi = k
	}
	if n == 0 || pi < 0 {
		return nil, false
	}
	return cc.Args[pi], true
}

// fieldLoad: v is a load of field f of the struct that root points to.
func fieldLoad(v ssa.Value) (root ssa.Value, f int, ok bool) {
	u, isLoad := v.(*ssa.UnOp)
	if !isLoad || u.Op != token.MUL {
		return nil, 0, false
	}
	fa, isFA := u.X.(*ssa.FieldAddr)
	if !isFA {
		return nil, 0, false
	}
	return fa.X, fa.Field, true
}

// ctorFieldValue: the value that field f of the object root points to was given when the object
// was built, in terms of the function root lives in — for a field that is only ever assigned on
// freshly allocated objects (so it still holds that value). root is a composite literal of this
// function, or the result of a constructor that returns such a literal, with the field taken from
// one of its parameters, on every successful return (frames, err := openFrameStream(src, dst)).
func (c *Ctx) ctorFieldValue(root ssa.Value, f int, depth int) (ssa.Value, bool) {
	if depth > 2 {
		return nil, false
	}
	named := namedOfRecv(root.Type())
	if named == nil || !c.fieldOnlySetAtConstruction(named, f) {
		return nil, false
	}
	switch x := root.(type) {
	case *ssa.Alloc:
		if x.Referrers() == nil {
			return nil, false
		}
		var val ssa.Value
		n := 0
		for _, r := range *x.Referrers() {
			fa, ok := r.(*ssa.FieldAddr)
			if !ok || fa.Field != f || fa.Referrers() == nil {
				continue
			}
			for _, rr := range *fa.Referrers() {
				if st, ok := rr.(*ssa.Store); ok && st.Addr == ssa.Value(fa) {
					val = st.Val
					n++
				}
			}
		}
		if n != 1 {
			return nil, false
		}
		return val, true
	case *ssa.Call, *ssa.Extract:
		var call *ssa.Call
		idx := 0
		if ex, ok := x.(*ssa.Extract); ok {
			call, _ = ex.Tuple.(*ssa.Call)
			idx = ex.Index
		} else {
			call = x.(*ssa.Call)
		}
		if call == nil {
			return nil, false
		}
		sc := call.Call.StaticCallee()
		if sc == nil || sc.Blocks == nil || !load.InScope(sc) || len(call.Call.Args) != len(sc.Params) {
			return nil, false
		}
		ei := errorResultIndex(sc)
		pi, n := -1, 0
		for _, b := range sc.Blocks {
			if len(b.Instrs) == 0 {
				continue
			}
			ret, ok := b.Instrs[len(b.Instrs)-1].(*ssa.Return)
			if !ok || idx >= len(ret.Results) {
				continue
			}
			if ei >= 0 && ei != idx && !isNilConst(ret.Results[ei]) {
				continue
			}
			n++
			v, ok := c.ctorFieldValue(ret.Results[idx], f, depth+1)
			if !ok {
				return nil, false
			}
			k := paramIndex(sc, v)
			if k < 0 || (pi >= 0 && k != pi) {
				return nil, false
			}
			pi = k
		}
		if n == 0 || pi < 0 {
			return nil, false
		}
		return call.Call.Args[pi], true
	}
	return nil, false
}

// frameCountField: ld loads a counter field of a per-call cursor object (frames.count) that holds
// FrameCount() of the PixelData kept in another field of the same object: every assignment of the
// counter anywhere in the library is `x.count = x.src.FrameCount()`, the source field is fixed at
// construction, and a method of the object that assigns the counter on each of its successful paths
// is called on the same object before the load. Returns the PixelData in the caller's terms.
func (c *Ctx) frameCountField(ld *ssa.UnOp) (ssa.Value, bool) {
	root, cf, ok := fieldLoad(ld)
	if !ok {
		return nil, false
	}
	named := namedOfRecv(root.Type())
	if named == nil {
		return nil, false
	}
	sf := -1
	setters := map[*ssa.Function]bool{}
	for _, fn := range c.scopeFuncs() {
		for _, b := range fn.Blocks {
			for _, ins := range b.Instrs {
				st, ok := ins.(*ssa.Store)
				if !ok {
					continue
				}
				fa, ok := st.Addr.(*ssa.FieldAddr)
				if !ok || fa.Field != cf {
					continue
				}
				if n := namedOfRecv(fa.X.Type()); n == nil || n.Obj() != named.Obj() {
					continue
				}
				call, ok := st.Val.(*ssa.Call)
				if !ok || !call.Call.IsInvoke() || call.Call.Method.Name() != "FrameCount" || !isDicomInterface(call.Call.Value.Type(), "PixelData") {
					return nil, false
				}
				r2, f2, ok := fieldLoad(call.Call.Value)
				if !ok || !sameBase(r2, fa.X) || (sf >= 0 && sf != f2) {
					return nil, false
				}
				sf = f2
				setters[fn] = true
			}
		}
	}
	if sf < 0 {
		return nil, false
	}
	// a setter has certainly run on this object before the load
	ran := false
	for _, b := range ld.Parent().Blocks {
		for _, ins := range b.Instrs {
			call, ok := ins.(*ssa.Call)
			if !ok || len(call.Call.Args) == 0 || !sameBase(call.Call.Args[0], root) {
				continue
			}
			m := call.Call.StaticCallee()
			if m == nil || !setters[m] || m.Signature.Recv() == nil || !instrDominates(call, ld) {
				continue
			}
			for _, f := range ranges.MustStoreFields(m) {
				if f == cf {
					ran = true
				}
			}
		}
	}
	if !ran {
		return nil, false
	}
	return c.ctorFieldValue(root, sf, 0)
}

// callbackAddsFrame: function value fv (a closure or named function passed as the per-frame
// callback of a frame-loop helper) appends exactly one frame, computed from its parameter dataIdx,
// to a PixelData other than src on every path that returns a nil error.
func callbackAddsFrame(fv ssa.Value, dataIdx int, src ssa.Value, mark func(ssa.CallInstruction)) (bool, string) {
	var fn *ssa.Function
	var bindings []ssa.Value
	switch x := fv.(type) {
	case *ssa.MakeClosure:
		fn, _ = x.Fn.(*ssa.Function)
		bindings = x.Bindings
	case *ssa.Function:
		fn = x
	case *ssa.ChangeType:
		return callbackAddsFrame(x.X, dataIdx, src, mark)
	}
	if fn == nil || fn.Blocks == nil || dataIdx >= len(fn.Params) {
		return false, "the per-frame callback is not a function literal or named function whose body can be examined"
	}
	var adds []ssa.CallInstruction
	for _, b := range fn.Blocks {
		for _, ins := range b.Instrs {
			if call, m := pixelDataCall(ins); call != nil && m == "AddFrame" {
				adds = append(adds, call)
			}
		}
	}
	if len(adds) != 1 {
		return false, fmt.Sprintf("the per-frame callback %s contains %d AddFrame calls (exactly one is required per frame)", load.FuncName(fn), len(adds))
	}
	add := adds[0]
	if innermostLoopOf(naturalLoops(fn), add.Block()) != nil {
		return false, "AddFrame sits in a loop inside the per-frame callback: more than one output frame per input frame is possible"
	}
	if !sliceWithAllocCalls(add.Common().Args[0])[fn.Params[dataIdx]] {
		return false, "the frame the callback passes to AddFrame is not data-dependent on the frame it was given"
	}
	if av := add.Value(); av == nil || av.Referrers() == nil || len(*av.Referrers()) == 0 {
		return false, "the error returned by AddFrame is discarded in the per-frame callback"
	}
	ei := errorResultIndex(fn)
	for _, b := range fn.Blocks {
		if len(b.Instrs) == 0 {
			continue
		}
		ret, ok := b.Instrs[len(b.Instrs)-1].(*ssa.Return)
		if !ok {
			continue
		}
		if (ei < 0 || isNilConst(ret.Results[ei])) && !instrDominates(add, ret) {
			return false, "the per-frame callback can return a nil error without having called AddFrame (a frame is skipped silently)"
		}
	}
	// destination must not be the source
	dst := add.Common().Value
	if fvr, ok := dst.(*ssa.FreeVar); ok {
		for i, f := range fn.FreeVars {
			if f == fvr && i < len(bindings) {
				dst = bindings[i]
			}
		}
	}
	if u, ok := dst.(*ssa.UnOp); ok {
		// captured by reference: *freevar
		if fvr, ok := u.X.(*ssa.FreeVar); ok {
			for i, f := range fn.FreeVars {
				if f == fvr && i < len(bindings) {
					if al, ok := bindings[i].(*ssa.Alloc); ok && al.Referrers() != nil {
						for _, r := range *al.Referrers() {
							if st, ok := r.(*ssa.Store); ok && st.Addr == ssa.Value(al) {
								dst = st.Val
							}
						}
					}
				}
			}
		}
	}
	if src != nil && sameBase(dst, src) {
		return false, "the per-frame callback appends to the PixelData the frames are read from"
	}
	mark(add)
	return true, ""
}

// callbackAdd looks in loop l of fn for a call of a function-typed parameter that receives the
// frame fetched by get, and checks every closure the callers pass for it.
func callbackAdd(fn *ssa.Function, l *natLoop, get frameGet, callersOf func(*ssa.Function) []ssa.CallInstruction, mark func(ssa.CallInstruction)) (frameAdd, string, bool) {
	var frame ssa.Value
	if get.val != nil && get.val.Referrers() != nil {
		for _, r := range *get.val.Referrers() {
			if ex, ok := r.(*ssa.Extract); ok && ex.Index == 0 {
				frame = ex
			}
		}
	}
	if frame == nil {
		return frameAdd{}, "", false
	}
	for _, b := range l.ordered() {
		for _, ins := range b.Instrs {
			call, ok := ins.(*ssa.Call)
			if !ok {
				continue
			}
			prm, ok := call.Call.Value.(*ssa.Parameter)
			if !ok {
				continue
			}
			dataIdx := -1
			for i, a := range call.Call.Args {
				if a == frame {
					dataIdx = i
				}
			}
			pi := paramIndex(fn, prm)
			srcIdx := paramIndex(fn, get.pd)
			if dataIdx < 0 || pi < 0 {
				continue
			}
			sites := callersOf(fn)
			if len(sites) == 0 {
				return frameAdd{}, "the frame loop hands frames to a callback, but no caller of " + load.FuncName(fn) + " is in the analysed code", true
			}
			for _, cs := range sites {
				args := cs.Common().Args
				if pi >= len(args) {
					continue
				}
				var src ssa.Value
				if srcIdx >= 0 && srcIdx < len(args) {
					src = args[srcIdx]
				}
				if ok, why := callbackAddsFrame(args[pi], dataIdx, src, mark); !ok {
					return frameAdd{}, why + " (callback passed by " + load.FuncName(cs.Parent()) + ")", true
				}
			}
			return frameAdd{site: call, fn: fn, pd: nil, data: frame, errVal: call, via: "callback " + prm.Name()}, "", true
		}
	}
	return frameAdd{}, "", false
}

// orderFramesRule implements ORDER-FRAMES (DESIGN C10 rule 1).
func (c *Ctx) orderFramesRule(e *Eff) int {
	nLoops := 0
	scope := c.scopeFuncs()
	gets := map[*ssa.Function][]frameGet{}
	adds := map[*ssa.Function][]frameAdd{}
	for _, fn := range scope {
		if !e.ReachCodec[fn] {
			continue
		}
		for _, b := range fn.Blocks {
			for _, ins := range b.Instrs {
				if call, m := pixelDataCall(ins); call != nil {
					switch m {
					case "GetFrame":
						gets[fn] = append(gets[fn], frameGet{site: call, fn: fn, idx: call.Common().Args[0], pd: call.Common().Value, val: call.Value()})
					case "AddFrame":
						adds[fn] = append(adds[fn], frameAdd{site: call, fn: fn, pd: call.Common().Value, data: call.Common().Args[0], errVal: call.Value()})
					}
				}
			}
		}
	}
	callersOf := func(callee *ssa.Function) []ssa.CallInstruction {
		var out []ssa.CallInstruction
		for _, fn := range scope {
			if !e.ReachCodec[fn] {
				continue
			}
			for _, b := range fn.Blocks {
				for _, ins := range b.Instrs {
					if call, ok := ins.(ssa.CallInstruction); ok && call.Common().StaticCallee() == callee {
						if _, isGo := ins.(*ssa.Go); !isGo {
							if _, isDefer := ins.(*ssa.Defer); !isDefer {
								out = append(out, call)
							}
						}
					}
				}
			}
		}
		return out
	}
	isCodecMethod := map[*ssa.Function]bool{}
	for _, f := range e.EP.Codec {
		isCodecMethod[f] = true
	}
	// lifting: a helper that fetches (appends) exactly one frame named by its own parameters stands
	// for that operation at each of its call sites. Up to three levels.
	lifted := map[ssa.CallInstruction]bool{}
	for round := 0; round < 3; round++ {
		var fns []*ssa.Function
		for fn := range gets {
			fns = append(fns, fn)
		}
		for fn := range adds {
			if _, dup := gets[fn]; !dup {
				fns = append(fns, fn)
			}
		}
		sort.Slice(fns, func(i, j int) bool { return fns[i].String() < fns[j].String() })
		for _, fn := range fns {
			if isCodecMethod[fn] {
				continue
			}
			loops := naturalLoops(fn)
			// a per-frame step helper: fetches the frame named by its parameters, transforms it and
			// appends it, all in one call (encodeFrame(enc, src, dst, i)). Checked here once; at every
			// call site it stands for one GetFrame and one AddFrame.
			if len(gets[fn]) == 1 && len(adds[fn]) == 1 {
				g, a := gets[fn][0], adds[fn][0]
				pi, pj, pk := paramIndex(fn, g.idx), paramIndex(fn, g.pd), paramIndex(fn, a.pd)
				ei := errorResultIndex(fn)
				sites := callersOf(fn)
				stepOK := innermostLoopOf(loops, g.site.Block()) == nil && innermostLoopOf(loops, a.site.Block()) == nil &&
					pi >= 0 && pj >= 0 && pk >= 0 && pj != pk && ei >= 0 && len(sites) > 0 && !lifted[g.site] &&
					instrDominates(g.site, a.site) && sliceWithAllocCalls(a.data)[g.val] &&
					a.errVal != nil && a.errVal.Referrers() != nil && len(*a.errVal.Referrers()) > 0
				if stepOK {
					for _, b := range fn.Blocks {
						if len(b.Instrs) == 0 {
							continue
						}
						if ret, ok := b.Instrs[len(b.Instrs)-1].(*ssa.Return); ok && isNilConst(ret.Results[ei]) && !instrDominates(a.site, ret) {
							stepOK = false // can succeed without appending
						}
					}
				}
				if stepOK {
					lifted[g.site], lifted[a.site] = true, true
					nLoops++
					c.add("ORDER-FRAMES", fn, "per-frame step helper around "+addrExpr(g.pd)+".GetFrame", report.Discharged, c.P.Pos(g.site.Pos()),
						fmt.Sprintf("fetches the frame named by its parameters, appends exactly one frame derived from it on every nil-error return: the loop obligations are checked at its %d call site(s)", len(sites)))
					for _, cs := range sites {
						caller := cs.Parent()
						args := cs.Common().Args
						if pi >= len(args) || pj >= len(args) || pk >= len(args) || cs.Value() == nil {
							continue
						}
						gets[caller] = append(gets[caller], frameGet{site: cs, fn: caller, idx: args[pi], pd: args[pj], val: cs.Value(), via: load.FuncName(fn)})
						adds[caller] = append(adds[caller], frameAdd{site: cs, fn: caller, pd: args[pk], data: cs.Value(), errVal: cs.Value(), via: load.FuncName(fn)})
					}
					delete(gets, fn)
					delete(adds, fn)
					continue
				}
			}
			var keepG []frameGet
			for _, g := range gets[fn] {
				pi, pj := paramIndex(fn, g.idx), paramIndex(fn, g.pd)
				// the source may live in a field of a cursor object the helper is given
				// (func (fs *frameStream) frame(i int) → fs.src.GetFrame(i)): at each call site it is
				// the value that field was constructed with
				pf := -1
				if pj < 0 {
					if root, f, ok := fieldLoad(g.pd); ok {
						if k := paramIndex(fn, root); k >= 0 {
							pj, pf = k, f
						}
					}
				}
				if innermostLoopOf(loops, g.site.Block()) != nil || pi < 0 || pj < 0 || lifted[g.site] || len(adds[fn]) > 0 {
					keepG = append(keepG, g)
					continue
				}
				// some result must carry the frame on every successful return
				res := -1
				for k := 0; k < fn.Signature.Results().Len() && res < 0; k++ {
					all, any := true, false
					for _, b := range fn.Blocks {
						if len(b.Instrs) == 0 {
							continue
						}
						ret, ok := b.Instrs[len(b.Instrs)-1].(*ssa.Return)
						if !ok {
							continue
						}
						if ei := errorResultIndex(fn); ei >= 0 && !isNilConst(ret.Results[ei]) {
							continue
						}
						any = true
						if !sliceWithAllocCalls(ret.Results[k])[g.val] {
							all = false
						}
					}
					if all && any {
						res = k
					}
				}
				sites := callersOf(fn)
				if res < 0 || len(sites) == 0 {
					keepG = append(keepG, g)
					continue
				}
				pdAt := func(cs ssa.CallInstruction) (ssa.Value, bool) {
					args := cs.Common().Args
					if pj >= len(args) {
						return nil, false
					}
					if pf < 0 {
						return args[pj], true
					}
					return c.ctorFieldValue(args[pj], pf, 0)
				}
				resolvable := true
				for _, cs := range sites {
					if _, ok := pdAt(cs); !ok {
						resolvable = false
					}
				}
				if !resolvable {
					keepG = append(keepG, g)
					continue
				}
				lifted[g.site] = true
				nLoops++
				c.add("ORDER-FRAMES", fn, "frame fetch helper around "+addrExpr(g.pd)+".GetFrame", report.Discharged, c.P.Pos(g.site.Pos()),
					fmt.Sprintf("fetches the frame named by its parameters and returns it: the loop obligations are checked at its %d call site(s)", len(sites)))
				for _, cs := range sites {
					caller := cs.Parent()
					args := cs.Common().Args
					if pi >= len(args) || pj >= len(args) || cs.Value() == nil {
						continue
					}
					pdv, _ := pdAt(cs)
					gets[caller] = append(gets[caller], frameGet{site: cs, fn: caller, idx: args[pi], pd: pdv, val: cs.Value(), via: load.FuncName(fn)})
				}
			}
			if len(keepG) == 0 {
				delete(gets, fn)
			} else {
				gets[fn] = keepG
			}
			var keepA []frameAdd
			for _, a := range adds[fn] {
				pj := paramIndex(fn, a.pd)
				pk := -1
				for v := range backwardSlice(a.data, 400) {
					if k := paramIndex(fn, v); k >= 0 && isByteSlice(fn.Params[k].Type()) && (pk < 0 || k < pk) {
						pk = k
					}
				}
				ei := errorResultIndex(fn)
				if innermostLoopOf(loops, a.site.Block()) != nil || pj < 0 || pk < 0 || ei < 0 || lifted[a.site] || len(gets[fn]) > 0 ||
					a.errVal == nil || a.errVal.Referrers() == nil || len(*a.errVal.Referrers()) == 0 {
					keepA = append(keepA, a)
					continue
				}
				sites := callersOf(fn)
				if len(sites) == 0 {
					keepA = append(keepA, a)
					continue
				}
				lifted[a.site] = true
				for _, cs := range sites {
					caller := cs.Parent()
					args := cs.Common().Args
					if pj >= len(args) || pk >= len(args) {
						continue
					}
					adds[caller] = append(adds[caller], frameAdd{site: cs, fn: caller, pd: args[pj], data: args[pk], errVal: cs.Value(), via: load.FuncName(fn)})
				}
			}
			if len(keepA) == 0 {
				delete(adds, fn)
			} else {
				adds[fn] = keepA
			}
		}
	}
	var fns []*ssa.Function
	seenFn := map[*ssa.Function]bool{}
	for fn := range gets {
		fns, seenFn[fn] = append(fns, fn), true
	}
	for fn := range adds {
		if !seenFn[fn] {
			fns = append(fns, fn)
		}
	}
	sort.Slice(fns, func(i, j int) bool { return fns[i].String() < fns[j].String() })
	loopFns := map[*ssa.Function]bool{}
	viaCallback := map[ssa.CallInstruction]bool{}
	// functions holding a frame loop first, so that callbacks are validated before their own
	// AddFrame calls are looked at
	sort.SliceStable(fns, func(i, j int) bool { return len(gets[fns[i]]) > 0 && len(gets[fns[j]]) == 0 })
	for _, fn := range fns {
		loops := naturalLoops(fn)
		usedAdds := map[ssa.CallInstruction]bool{}
		for _, get := range gets[fn] {
			nLoops++
			loopFns[fn] = true
			what := ".GetFrame"
			if get.via != "" {
				what = " via " + get.via
			}
			construct := "frame loop around " + addrExpr(get.pd) + what
			fail := func(why string) {
				c.add("ORDER-FRAMES", fn, construct, report.Violated, c.P.Pos(get.site.Pos()), why)
			}
			l := innermostLoopOf(loops, get.site.Block())
			if l == nil {
				if why := c.drivenFromOutside(fn); why != "" {
					c.add("ORDER-FRAMES", fn, construct, report.OutOfScope, c.P.Pos(get.site.Pos()), "GetFrame sits in a fetch step that "+why+": the iteration protocol (cursor object / iterator) is not decided")
					continue
				}
				fail("GetFrame is not inside a loop: only one frame can be processed")
				continue
			}
			// (a) induction variable, (b) bound
			bound, regular, why := countedLoop(l, get.idx)
			if why != "" {
				fail(why)
				continue
			}
			boundOK, arith := false, false
			direct := false
			if pd, ok := c.frameCountSource(bound, 0); ok && sameBase(pd, get.pd) {
				boundOK, direct = true, true
			}
			for v := range backwardSlice(bound, 200) {
				if direct {
					break // the bound is the FrameCount() result itself (possibly through a helper)
				}
				if call, ok := v.(*ssa.Call); ok {
					if cc := call.Common(); cc.IsInvoke() && cc.Method.Name() == "FrameCount" && sameBase(cc.Value, get.pd) {
						boundOK = true
					}
				}
				if _, ok := v.(*ssa.BinOp); ok {
					arith = true
				}
			}
			if !boundOK && !arith {
				// a bound that arrives from outside this function (captured by an iterator closure, a
				// parameter, a field) is not followed: undecided, not refuted
				opaque := false
				for v := range backwardSlice(bound, 200) {
					switch y := v.(type) {
					case *ssa.FreeVar, *ssa.Parameter:
						opaque = true
					case *ssa.UnOp:
						if y.Op == token.MUL {
							opaque = true
						}
					}
				}
				if opaque {
					c.add("ORDER-FRAMES", fn, construct, report.OutOfScope, c.P.Pos(get.site.Pos()), "the loop bound arrives from outside the function (captured variable, parameter or field): whether it is FrameCount() is not decided")
					continue
				}
			}
			if !boundOK || arith {
				fail("the loop bound is not exactly FrameCount() of the PixelData the frames are read from")
				continue
			}
			// (c) exactly one AddFrame per cycle, fed by this iteration's frame
			var inLoop []frameAdd
			for _, ad := range adds[fn] {
				if l.Blocks[ad.site.Block()] {
					inLoop = append(inLoop, ad)
				}
			}
			if len(inLoop) == 0 && get.via == "" {
				// the loop hands each frame to a callback parameter (forEachFrame(src, visit)): the
				// callback stands for AddFrame when every closure passed for it adds exactly one frame
				if cb, why, found := callbackAdd(fn, l, get, callersOf, func(ci ssa.CallInstruction) { viaCallback[ci] = true }); found {
					if why != "" {
						fail(why)
						continue
					}
					inLoop = append(inLoop, cb)
				}
			}
			if len(inLoop) != 1 {
				fail(fmt.Sprintf("%d AddFrame calls inside the frame loop (exactly one is required per iteration)", len(inLoop)))
				continue
			}
			add := inLoop[0]
			usedAdds[add.site] = true
			if sameBase(add.pd, get.pd) {
				fail("AddFrame is called on the PixelData the frames are read from")
				continue
			}
			if !instrDominates(get.site, add.site) {
				fail("GetFrame does not dominate AddFrame within the iteration")
				continue
			}
			domAll := true
			for _, la := range l.Latches {
				if !add.site.Block().Dominates(la) {
					domAll = false
				}
			}
			if !domAll {
				fail("some path through the loop body returns to the header without calling AddFrame (a frame can be skipped without an error)")
				continue
			}
			if il := innermostLoopOf(loops, add.site.Block()); il != l {
				fail("AddFrame sits in a nested loop: more than one output frame per input frame is possible")
				continue
			}
			if !sliceWithAllocCalls(add.data)[get.val] {
				fail("the frame passed to AddFrame is not data-dependent on this iteration's GetFrame result")
				continue
			}
			// AddFrame's error must be looked at
			if av := add.errVal; av == nil || av.Referrers() == nil || len(*av.Referrers()) == 0 {
				fail("the error returned by AddFrame is discarded")
				continue
			}
			// (d) every other exit returns a non-nil error
			ei := errorResultIndex(fn)
			badExit := ""
			for _, ex := range l.exitEdges() {
				if regular[ex[0]] {
					continue
				}
				for _, r := range returnsReachable(ex[1], l.Blocks) {
					if ei < 0 || isNilConst(r.Results[ei]) {
						badExit = c.P.Pos(r.Pos())
					}
				}
			}
			if badExit != "" {
				fail("the loop can be left early (" + badExit + ") with a nil error: later frames are silently dropped")
				continue
			}
			c.add("ORDER-FRAMES", fn, construct, report.Discharged, c.P.Pos(get.site.Pos()), "counted loop 0..FrameCount()-1, one dominating AddFrame per cycle fed by the iteration's frame, early exits return errors")
		}
		for _, ad := range adds[fn] {
			if !usedAdds[ad.site] && !viaCallback[ad.site] {
				if len(gets[fn]) == 0 {
					why := c.drivenFromOutside(fn)
					if why == "" && innermostLoopOf(loops, ad.site.Block()) != nil {
						why = "appends inside a loop of its own whose frames come from a fetch step"
					}
					if why != "" {
						c.add("ORDER-FRAMES", fn, "AddFrame fed by a fetch step", report.OutOfScope, c.P.Pos(ad.site.Pos()), "this function fetches no frame itself and "+why+": the pairing with GetFrame (cursor object / iterator) is not decided")
						continue
					}
				}
				c.add("ORDER-FRAMES", fn, "AddFrame outside a frame loop", report.Violated, c.P.Pos(ad.site.Pos()), "AddFrame is not paired with a GetFrame of the same iteration")
			}
		}
	}
	// coverage: every registered codec's Encode and Decode must reach a frame loop that was examined
	missing := 0
	for _, ep := range append(append([]*ssa.Function{}, e.EP.CodecEnc...), e.EP.CodecDec...) {
		if ep.Pkg != nil && load.IsControl(ep.Pkg.Pkg.Path()) {
			continue
		}
		found := false
		for fn := range c.P.Reachable([]*ssa.Function{ep}) {
			if loopFns[fn] {
				found = true
				break
			}
		}
		if !found {
			missing++
			c.C.Fatalf("ORDER-FRAMES: %s reaches no frame loop (GetFrame/AddFrame pairing not found): the rule would pass vacuously for this codec", load.FuncName(ep))
		}
	}
	// the number of loops is not an invariant of the library (one shared ConvertFrames helper can serve
	// every codec): vacuity is excluded by the coverage requirement above, the floor only asks for a loop
	c.C.Floor("ORDER-FRAMES", nLoops-c.controlCount("ORDER-FRAMES"), 1)
	c.C.ExpectControl("ORDER-FRAMES")
	return nLoops
}

func isConstInt(v ssa.Value, n int64) bool {
	k, ok := v.(*ssa.Const)
	if !ok || k.Value == nil {
		return false
	}
	return k.Int64() == n
}

// controlCount counts obligations of a rule that live in control packages.
func (c *Ctx) controlCount(rule string) int {
	n := 0
	for _, o := range c.C.Obls {
		if o.Rule == rule && o.Control {
			n++
		}
	}
	return n
}

// drivenFromOutside: fn is a step of somebody else's loop — called from inside a loop of a caller,
// or used as a function value (iterator body, per-frame callback, method value).
func (c *Ctx) drivenFromOutside(fn *ssa.Function) string {
	if fn.Parent() != nil || c.P.UsedAsValue(fn) {
		return "is a closure / function value driven by its user"
	}
	if n := c.P.CG.Nodes[fn]; n != nil {
		for _, e := range n.In {
			if e.Site == nil || e.Caller == nil || e.Caller.Func == nil || e.Caller.Func.Blocks == nil {
				continue
			}
			if innermostLoopOf(naturalLoops(e.Caller.Func), e.Site.Block()) != nil {
				return "is called from a loop in " + load.FuncName(e.Caller.Func)
			}
		}
	}
	return ""
}
