package props

import (
	"fmt"
	"go/token"
	"go/types"
	"strings"

	"golang.org/x/tools/go/ssa"

	"dcmcheck/internal/load"
	"dcmcheck/internal/report"
)

// mapRangeRule: every `range` over a map in library code must be order-insensitive
// (DESIGN C10 rule 4). Witness shapes (violated): inside the loop body, directly or in a callee
// one level down, (1) bytes are written to a buffer / writer, (2) a slice is appended to without
// a sort.* of that slice afterwards, (3) a floating-point value is accumulated across iterations.
// Recognised order-insensitive bodies (discharged): map inserts, stores indexed by the range key,
// integer / boolean accumulation, appends that are sorted before use. Anything else: out-of-scope.
func (c *Ctx) mapRangeRule() int {
	n := 0
	for _, fn := range c.scopeFuncs() {
		var loops []*natLoop
		for _, b := range fn.Blocks {
			for _, ins := range b.Instrs {
				rg, ok := ins.(*ssa.Range)
				if !ok {
					continue
				}
				if _, isMap := rg.X.Type().Underlying().(*types.Map); !isMap {
					continue
				}
				n++
				if loops == nil {
					loops = naturalLoops(fn)
				}
				c.checkMapRange(fn, rg, loops)
			}
		}
	}
	c.C.Floor("MAP-RANGE", n-c.controlCount("MAP-RANGE"), 3)
	c.C.ExpectControl("MAP-RANGE")
	return n
}

func isWriterCall(call ssa.CallInstruction) string {
	cc := call.Common()
	if cc.IsInvoke() {
		if strings.HasPrefix(cc.Method.Name(), "Write") {
			return "invoke " + cc.Method.Name()
		}
		return ""
	}
	sc := cc.StaticCallee()
	if sc == nil {
		return ""
	}
	s := sc.String()
	switch {
	case strings.HasPrefix(s, "(*bytes.Buffer).Write"), s == "encoding/binary.Write", strings.HasPrefix(s, "io.Copy"), strings.HasPrefix(s, "io.WriteString"), strings.HasPrefix(s, "fmt.Fprint"):
		return s
	}
	return ""
}

func (c *Ctx) checkMapRange(fn *ssa.Function, rg *ssa.Range, loops []*natLoop) {
	construct := "range " + addrExpr(rg.X)
	pos := c.P.Pos(rg.Pos())
	// the Next instruction and its loop
	var next *ssa.Next
	if rg.Referrers() != nil {
		for _, r := range *rg.Referrers() {
			if nx, ok := r.(*ssa.Next); ok {
				next = nx
			}
		}
	}
	if next == nil {
		c.add("MAP-RANGE", fn, construct, report.Discharged, pos, "iterator is never advanced")
		return
	}
	l := innermostLoopOf(loops, next.Block())
	if l == nil {
		c.add("MAP-RANGE", fn, construct, report.OutOfScope, pos, "range loop structure not recognised")
		return
	}
	var reasons []string
	violated := ""
	unknown := ""
	inspect := func(f *ssa.Function, blocks map[*ssa.BasicBlock]bool, depth int) {
		for _, b := range f.Blocks {
			if blocks != nil && !blocks[b] {
				continue
			}
			for _, ins := range b.Instrs {
				switch x := ins.(type) {
				case ssa.CallInstruction:
					if w := isWriterCall(x); w != "" {
						violated = fmt.Sprintf("%s inside the loop body (%s at %s): bytes are emitted in map iteration order", w, load.FuncName(f), c.P.Pos(x.Pos()))
						return
					}
					cc := x.Common()
					if bi, ok := cc.Value.(*ssa.Builtin); ok && bi.Name() == "append" && depth == 0 {
						if dependsOnRangeKey(cc.Args[0], next) {
							reasons = append(reasons, "append onto a slice selected by the range key")
							continue
						}
						if v := x.Value(); v != nil && !appendSortedLater(fn, v) {
							violated = fmt.Sprintf("append at %s collects elements in map iteration order and the slice is not passed to sort.* afterwards", c.P.Pos(x.Pos()))
							return
						}
						reasons = append(reasons, "append sorted before use")
					}
				case *ssa.Phi:
					if depth == 0 && b == l.Header {
						if bt, ok := x.Type().Underlying().(*types.Basic); ok && bt.Info()&types.IsFloat != 0 {
							for _, e := range x.Edges {
								if bo, ok := e.(*ssa.BinOp); ok && (bo.Op == token.ADD || bo.Op == token.SUB || bo.Op == token.MUL) {
									violated = "floating-point accumulation across iterations: the rounded result depends on map iteration order"
									return
								}
							}
						}
					}
				case *ssa.MapUpdate:
					reasons = append(reasons, "map insert")
				}
			}
		}
	}
	inspect(fn, l.Blocks, 0)
	if violated == "" {
		// one level down: static callees invoked in the body
		for _, b := range l.ordered() {
			for _, ins := range b.Instrs {
				if call, ok := ins.(ssa.CallInstruction); ok {
					if sc := call.Common().StaticCallee(); sc != nil && sc.Blocks != nil && load.InScope(sc) {
						inspect(sc, nil, 1)
						if violated != "" {
							break
						}
					}
				}
			}
		}
	}
	switch {
	case violated != "":
		c.add("MAP-RANGE", fn, construct, report.Violated, pos, violated)
	case unknown != "":
		c.add("MAP-RANGE", fn, construct, report.OutOfScope, pos, unknown)
	default:
		c.add("MAP-RANGE", fn, construct, report.Discharged, pos, "no order-sensitive construct in the loop body: "+strings.Join(uniq(reasons), ", "))
	}
}

func uniq(s []string) []string {
	seen := map[string]bool{}
	var out []string
	for _, x := range s {
		if !seen[x] {
			seen[x] = true
			out = append(out, x)
		}
	}
	return out
}

// appendSortedLater: the appended slice value (through phis) reaches an argument of a sort call.
func appendSortedLater(fn *ssa.Function, v ssa.Value) bool {
	seen := map[ssa.Value]bool{}
	work := []ssa.Value{v}
	for len(work) > 0 {
		x := work[len(work)-1]
		work = work[:len(work)-1]
		if seen[x] || x.Referrers() == nil {
			continue
		}
		seen[x] = true
		for _, r := range *x.Referrers() {
			switch u := r.(type) {
			case *ssa.Phi:
				work = append(work, u)
			case *ssa.MakeInterface:
				work = append(work, u)
			case *ssa.Store:
				// stored into a local variable: follow loads of that variable
				if al, ok := u.Addr.(*ssa.Alloc); ok && al.Referrers() != nil {
					for _, rr := range *al.Referrers() {
						if ld, ok := rr.(*ssa.UnOp); ok {
							work = append(work, ld)
						}
					}
				}
			case ssa.CallInstruction:
				if sc := u.Common().StaticCallee(); sc != nil {
					s := sc.String()
					if strings.HasPrefix(s, "sort.") || strings.HasPrefix(s, "slices.Sort") {
						return true
					}
				}
				if bi, ok := u.Common().Value.(*ssa.Builtin); ok && bi.Name() == "append" {
					if cv := u.Value(); cv != nil {
						work = append(work, cv)
					}
				}
			}
		}
	}
	return false
}

// dependsOnRangeKey: v's derivation contains the key produced by this map iteration.
func dependsOnRangeKey(v ssa.Value, next *ssa.Next) bool {
	for x := range backwardSlice(v, 300) {
		if ex, ok := x.(*ssa.Extract); ok && ex.Tuple == ssa.Value(next) && ex.Index == 1 {
			return true
		}
	}
	return false
}
