package props

import (
	"fmt"
	"go/token"
	"go/types"
	"sort"
	"strings"

	"golang.org/x/tools/go/ssa"

	"dcmcheck/internal/load"
	"dcmcheck/internal/report"
)

// OUTPUT-VIEW (C10, "frame i does not depend on later frames"): the bytes handed to AddFrame in one
// iteration of a frame loop must not be a *view* of a buffer owned by an object that outlives the
// iteration and is rewritten by the next one. Shape decided:
//
//	enc := newEncoder()                     // defined outside the frame loop
//	for i := 0; i < n; i++ {
//	    enc.Reset(); …; out := enc.Bytes()  // Bytes() returns e.buf.Bytes() / e.buf — no copy
//	    dst.AddFrame(out)                   // PixelData keeps the slice
//	}
//
// A view is followed through slice expressions, phis, tuple extraction, local variables, results of
// library helpers and out-parameters (*dst = enc.GetBuffer()); append / copy / Clone end it.
// violated: the AddFrame argument is a view of field F of an object defined outside the loop, some
// call inside the loop mutates F in place (Write*, Truncate, Reset, F = F[:0], append onto F), and no
// code reachable from those calls re-allocates F. Anything else is discharged (no view) or out of
// scope (view, but F may be re-allocated per call / no in-place writer found).

type viewSrc struct {
	base  ssa.Value // object the buffer belongs to (a parameter inside summaries)
	field *types.Var
	via   string
}

type outView struct {
	c       *Ctx
	resMemo map[*ssa.Function]map[int][]viewSrc // result index -> views of parameters
	outMemo map[*ssa.Function]map[int][]viewSrc // out-parameter index -> views of parameters
	busy    map[*ssa.Function]bool
}

func isBufferType(t types.Type) bool {
	if isByteSlice(t) {
		return true
	}
	s := t.String()
	return s == "bytes.Buffer" || s == "*bytes.Buffer"
}

// bufferOwner: v is (an address of / a load of) a buffer-typed field of some object.
func bufferOwner(v ssa.Value) (base ssa.Value, f *types.Var, ok bool) {
	switch x := v.(type) {
	case *ssa.FieldAddr:
		if _, fld, b, ok := fieldOf(x); ok && isBufferType(fld.Type()) {
			return b, fld, true
		}
	case *ssa.UnOp:
		if x.Op == token.MUL {
			if fa, ok := x.X.(*ssa.FieldAddr); ok {
				return bufferOwner(fa)
			}
		}
	}
	return nil, nil, false
}

var bufferViewMethods = map[string]bool{"Bytes": true, "Next": true, "AvailableBuffer": true}
var bufferMutators = map[string]bool{"Write": true, "WriteByte": true, "WriteString": true, "WriteRune": true, "Truncate": true, "Reset": true, "ReadFrom": true}

func bytesBufferMethod(call ssa.CallInstruction) (recv ssa.Value, name string, ok bool) {
	sc := call.Common().StaticCallee()
	if sc == nil || sc.Signature.Recv() == nil || load.FuncPkgPath(sc) != "bytes" {
		return nil, "", false
	}
	if !strings.HasSuffix(sc.Signature.Recv().Type().String(), "bytes.Buffer") || len(call.Common().Args) == 0 {
		return nil, "", false
	}
	return call.Common().Args[0], sc.Name(), true
}

// views: which owned buffers v may be a view of, inside fn.
func (o *outView) views(v ssa.Value, fn *ssa.Function, depth int, seen map[ssa.Value]bool) []viewSrc {
	if v == nil || depth > 6 || seen[v] {
		return nil
	}
	seen[v] = true
	switch x := v.(type) {
	case *ssa.Slice:
		return o.views(x.X, fn, depth, seen)
	case *ssa.ChangeType:
		return o.views(x.X, fn, depth, seen)
	case *ssa.Convert:
		if isByteSlice(x.Type()) && isByteSlice(x.X.Type()) {
			return o.views(x.X, fn, depth, seen)
		}
	case *ssa.Phi:
		var out []viewSrc
		for _, e := range x.Edges {
			out = append(out, o.views(e, fn, depth, seen)...)
		}
		return out
	case *ssa.Extract:
		if call, ok := x.Tuple.(*ssa.Call); ok {
			return o.callViews(call, x.Index, fn, depth)
		}
	case *ssa.Call:
		return o.callViews(x, 0, fn, depth)
	case *ssa.UnOp:
		if x.Op != token.MUL {
			return nil
		}
		if b, f, ok := bufferOwner(x); ok && isByteSlice(f.Type()) {
			return []viewSrc{{base: b, field: f, via: "field " + f.Name()}}
		}
		// a local variable: what was stored into it, or written through its address by a helper
		if al, ok := x.X.(*ssa.Alloc); ok && al.Referrers() != nil {
			var out []viewSrc
			for _, r := range *al.Referrers() {
				switch y := r.(type) {
				case *ssa.Store:
					if y.Addr == al {
						out = append(out, o.views(y.Val, fn, depth, seen)...)
					}
				case ssa.CallInstruction:
					sc := y.Common().StaticCallee()
					if sc == nil || sc.Blocks == nil || !load.IsModule(load.FuncPkgPath(sc)) {
						continue
					}
					for k, a := range y.Common().Args {
						if a != al {
							continue
						}
						_, outs := o.summary(sc, depth+1)
						for _, vs := range outs[k] {
							if pi := paramIndex(sc, vs.base); pi >= 0 && pi < len(y.Common().Args) {
								out = append(out, viewSrc{base: y.Common().Args[pi], field: vs.field, via: load.FuncName(sc) + " -> " + vs.via})
							}
						}
					}
				}
			}
			return out
		}
	}
	return nil
}

func (o *outView) callViews(call *ssa.Call, resIdx int, fn *ssa.Function, depth int) []viewSrc {
	if recv, name, ok := bytesBufferMethod(call); ok {
		if bufferViewMethods[name] {
			if b, f, ok := bufferOwner(recv); ok {
				return []viewSrc{{base: b, field: f, via: "(" + f.Name() + ")." + name + "()"}}
			}
		}
		return nil
	}
	sc := call.Common().StaticCallee()
	if sc == nil || sc.Blocks == nil || !load.IsModule(load.FuncPkgPath(sc)) {
		return nil
	}
	res, _ := o.summary(sc, depth+1)
	var out []viewSrc
	for _, vs := range res[resIdx] {
		if pi := paramIndex(sc, vs.base); pi >= 0 && pi < len(call.Common().Args) {
			out = append(out, viewSrc{base: call.Common().Args[pi], field: vs.field, via: load.FuncName(sc) + " -> " + vs.via})
		}
	}
	return out
}

// summary: for each result / out-parameter of g, the parameter-owned buffers it may be a view of.
func (o *outView) summary(g *ssa.Function, depth int) (res, outs map[int][]viewSrc) {
	if r, ok := o.resMemo[g]; ok {
		return r, o.outMemo[g]
	}
	if o.busy[g] || depth > 6 {
		return nil, nil
	}
	o.busy[g] = true
	defer delete(o.busy, g)
	res, outs = map[int][]viewSrc{}, map[int][]viewSrc{}
	keep := func(vs []viewSrc) []viewSrc {
		var out []viewSrc
		for _, v := range vs {
			if root := ownerRoot(v.base); root != nil {
				if _, isParam := root.(*ssa.Parameter); isParam {
					out = append(out, viewSrc{base: root, field: v.field, via: v.via})
				}
			}
		}
		return out
	}
	for _, b := range g.Blocks {
		for _, ins := range b.Instrs {
			switch x := ins.(type) {
			case *ssa.Return:
				for i, rv := range x.Results {
					if isByteSlice(rv.Type()) {
						res[i] = append(res[i], keep(o.views(rv, g, depth, map[ssa.Value]bool{}))...)
					}
				}
			case *ssa.Store:
				if p, ok := x.Addr.(*ssa.Parameter); ok && isByteSlice(x.Val.Type()) {
					if k := paramIndex(g, p); k >= 0 {
						outs[k] = append(outs[k], keep(o.views(x.Val, g, depth, map[ssa.Value]bool{}))...)
					}
				}
			}
		}
	}
	o.resMemo[g], o.outMemo[g] = res, outs
	return res, outs
}

// ownerRoot: the object a buffer owner expression hangs off (x in x.a.b), through field loads.
func ownerRoot(v ssa.Value) ssa.Value {
	for i := 0; i < 8 && v != nil; i++ {
		switch x := v.(type) {
		case *ssa.UnOp:
			if x.Op == token.MUL {
				if fa, ok := x.X.(*ssa.FieldAddr); ok {
					v = fa.X
					continue
				}
			}
			return v
		case *ssa.FieldAddr:
			v = x.X
			continue
		}
		return v
	}
	return v
}

// fieldWrites classifies what code reachable from g does to buffer field f: in-place mutation
// and / or re-allocation.
func (o *outView) fieldWrites(g *ssa.Function, f *types.Var, seen map[*ssa.Function]bool) (mut, realloc string) {
	if g == nil || g.Blocks == nil || seen[g] || len(seen) > 400 || !load.IsModule(load.FuncPkgPath(g)) {
		return "", ""
	}
	seen[g] = true
	for _, b := range g.Blocks {
		for _, ins := range b.Instrs {
			switch x := ins.(type) {
			case *ssa.Store:
				if fa, ok := x.Addr.(*ssa.FieldAddr); ok {
					if _, fld, _, ok := fieldOf(fa); ok && fld == f {
						if derivedFromField(x.Val, f, 0) {
							if mut == "" {
								mut = fmt.Sprintf("%s re-slices / appends onto %s at %s", load.FuncName(g), f.Name(), o.c.P.Pos(x.Pos()))
							}
						} else if realloc == "" {
							realloc = fmt.Sprintf("%s assigns %s at %s", load.FuncName(g), f.Name(), o.c.P.Pos(x.Pos()))
						}
					}
				}
				// element store into the field's backing array
				if ia, ok := x.Addr.(*ssa.IndexAddr); ok {
					if _, fld, ok := bufferOwner(ia.X); ok && fld == f && mut == "" {
						mut = fmt.Sprintf("%s stores into %s at %s", load.FuncName(g), f.Name(), o.c.P.Pos(x.Pos()))
					}
				}
			case ssa.CallInstruction:
				if recv, name, ok := bytesBufferMethod(x); ok {
					if _, fld, ok := bufferOwner(recv); ok && fld == f && bufferMutators[name] && mut == "" {
						mut = fmt.Sprintf("%s calls %s.%s at %s", load.FuncName(g), f.Name(), name, o.c.P.Pos(x.Pos()))
					}
					continue
				}
				// a buffer handed to a writer helper (binary.Write(e.buf, …), io.Copy(e.buf, …))
				if sc := x.Common().StaticCallee(); sc != nil && !load.IsModule(load.FuncPkgPath(sc)) {
					for _, a := range x.Common().Args {
						if mi, ok := a.(*ssa.MakeInterface); ok {
							a = mi.X
						}
						if _, fld, ok := bufferOwner(a); ok && fld == f && mut == "" && !strings.HasPrefix(sc.Name(), "Read") {
							mut = fmt.Sprintf("%s hands %s to %s at %s", load.FuncName(g), f.Name(), sc.String(), o.c.P.Pos(x.Pos()))
						}
					}
				}
				if sc := x.Common().StaticCallee(); sc != nil {
					m2, r2 := o.fieldWrites(sc, f, seen)
					if mut == "" {
						mut = m2
					}
					if realloc == "" {
						realloc = r2
					}
				}
			}
		}
	}
	return mut, realloc
}

// derivedFromField: v is computed from the current value of field f (f[:0], append(f, …)).
func derivedFromField(v ssa.Value, f *types.Var, depth int) bool {
	if v == nil || depth > 6 {
		return false
	}
	switch x := v.(type) {
	case *ssa.Slice:
		return derivedFromField(x.X, f, depth+1)
	case *ssa.UnOp:
		if _, fld, ok := bufferOwner(x); ok && fld == f {
			return true
		}
	case *ssa.Call:
		if b, ok := x.Call.Value.(*ssa.Builtin); ok && b.Name() == "append" && len(x.Call.Args) > 0 {
			return derivedFromField(x.Call.Args[0], f, depth+1)
		}
	case *ssa.Phi:
		for _, e := range x.Edges {
			if derivedFromField(e, f, depth+1) {
				return true
			}
		}
	}
	return false
}

func (c *Ctx) outputViewRule(e *Eff) int {
	o := &outView{c: c, resMemo: map[*ssa.Function]map[int][]viewSrc{}, outMemo: map[*ssa.Function]map[int][]viewSrc{}, busy: map[*ssa.Function]bool{}}
	n := 0
	for _, fn := range c.scopeFuncs() {
		if !e.ReachCodec[fn] {
			continue
		}
		var loops []*natLoop
		for _, b := range fn.Blocks {
			for _, ins := range b.Instrs {
				call, m := pixelDataCall(ins)
				if call == nil || m != "AddFrame" || len(call.Common().Args) == 0 {
					continue
				}
				if loops == nil {
					loops = naturalLoops(fn)
				}
				l := innermostLoopOf(loops, b)
				if l == nil {
					continue
				}
				n++
				construct := "frame handed to " + addrExpr(call.Common().Value) + ".AddFrame"
				vs := o.views(call.Common().Args[0], fn, 0, map[ssa.Value]bool{})
				sort.Slice(vs, func(i, j int) bool { return vs[i].via < vs[j].via })
				verdict, detail := report.Discharged, "the frame is not a view of a buffer owned by an object that outlives the iteration"
				for _, v := range vs {
					root := ownerRoot(v.base)
					if root == nil {
						continue
					}
					if in, ok := root.(ssa.Instruction); ok && in.Block() != nil && l.Blocks[in.Block()] {
						continue // the owner is created inside the iteration
					}
					if _, isPhi := root.(*ssa.Phi); isPhi {
						continue
					}
					// what the loop does to the buffer
					mut, realloc := "", ""
					for blk := range l.Blocks {
						for _, li := range blk.Instrs {
							lc, ok := li.(ssa.CallInstruction)
							if !ok {
								continue
							}
							sc := lc.Common().StaticCallee()
							if sc == nil {
								continue
							}
							m2, r2 := o.fieldWrites(sc, v.field, map[*ssa.Function]bool{})
							if mut == "" {
								mut = m2
							}
							if realloc == "" {
								realloc = r2
							}
						}
					}
					switch {
					case mut != "" && realloc == "":
						verdict = report.Violated
						detail = fmt.Sprintf("the frame is a view of buffer field %s (%s) of %s, which is defined outside the frame loop; %s — the next iteration overwrites the bytes PixelData already holds for this frame", v.field.Name(), v.via, addrExpr(root), mut)
					case verdict != report.Violated:
						verdict = report.OutOfScope
						detail = fmt.Sprintf("the frame is a view of buffer field %s (%s) of an object defined outside the loop; in-place writer: %q, re-allocation: %q — not decided", v.field.Name(), v.via, mut, realloc)
					}
				}
				c.add("OUTPUT-VIEW", fn, construct, verdict, c.P.Pos(call.Pos()), detail)
			}
		}
	}
	return n
}
