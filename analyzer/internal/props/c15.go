package props

import (
	"fmt"
	"go/constant"
	"go/types"
	"sort"

	"golang.org/x/tools/go/ssa"

	"dcmcheck/internal/report"
)

func init() { Registry["C15"] = runC15 }

// pixel-buffer fields of the standard library image types and the stride
// fields / offset methods that must accompany any direct use of them.
var imgPixFields = map[string]map[string][]string{
	"Gray":     {"Pix": {"Stride", "PixOffset"}},
	"Gray16":   {"Pix": {"Stride", "PixOffset"}},
	"RGBA":     {"Pix": {"Stride", "PixOffset"}},
	"RGBA64":   {"Pix": {"Stride", "PixOffset"}},
	"NRGBA":    {"Pix": {"Stride", "PixOffset"}},
	"NRGBA64":  {"Pix": {"Stride", "PixOffset"}},
	"CMYK":     {"Pix": {"Stride", "PixOffset"}},
	"Alpha":    {"Pix": {"Stride", "PixOffset"}},
	"Alpha16":  {"Pix": {"Stride", "PixOffset"}},
	"Paletted": {"Pix": {"Stride", "PixOffset"}},
	"YCbCr":    {"Y": {"YStride", "YOffset"}, "Cb": {"CStride", "COffset"}, "Cr": {"CStride", "COffset"}},
	"NYCbCrA":  {"A": {"AStride", "AOffset"}},
}

// runC15: rule STRIDE (DESIGN §4 C15).
func runC15(c *Ctx) Info {
	nPix, nImgUses := 0, 0
	for _, fn := range c.scopeFuncs() {
		// collect, per image type name, which accompanying members are used in this function
		used := map[string]map[string]bool{}
		mark := func(tn, member string) {
			if used[tn] == nil {
				used[tn] = map[string]bool{}
			}
			used[tn][member] = true
		}
		type pixRead struct {
			tn, field string
			instr     ssa.Instruction
		}
		var reads []pixRead
		for _, b := range fn.Blocks {
			for _, ins := range b.Instrs {
				if v, ok := ins.(ssa.Value); ok {
					if owner, f, _, ok := fieldOf(v); ok && owner != nil && owner.Obj().Pkg() != nil && owner.Obj().Pkg().Path() == "image" {
						nImgUses++
						tn := owner.Obj().Name()
						mark(tn, f.Name())
						if m, ok := imgPixFields[tn]; ok {
							if _, isPix := m[f.Name()]; isPix {
								reads = append(reads, pixRead{tn, f.Name(), ins})
							}
						}
					}
				}
				if call, ok := ins.(ssa.CallInstruction); ok {
					if callee := call.Common().StaticCallee(); callee != nil && callee.Signature.Recv() != nil {
						if n := namedOfRecv(callee.Signature.Recv().Type()); n != nil && n.Obj().Pkg() != nil && n.Obj().Pkg().Path() == "image" {
							nImgUses++
							mark(n.Obj().Name(), callee.Name())
						}
					}
				}
			}
		}
		for _, r := range reads {
			nPix++
			need := imgPixFields[r.tn][r.field]
			ok := false
			for _, m := range need {
				if used[r.tn][m] {
					ok = true
				}
			}
			construct := fmt.Sprintf("image.%s.%s", r.tn, r.field)
			if ok {
				c.add("STRIDE", fn, construct, report.Discharged, c.P.Pos(r.instr.Pos()), fmt.Sprintf("function also uses %v of image.%s", need, r.tn))
			} else {
				c.add("STRIDE", fn, construct, report.Violated, c.P.Pos(r.instr.Pos()),
					fmt.Sprintf("pixel buffer %s of image.%s is used without %v: image/jpeg returns SubImage views whose Pix keeps the MCU-padded stride, so the whole buffer is not width*height tightly packed samples", r.field, r.tn, need))
			}
		}
	}
	nChroma := c.subsampleRule()
	c.C.ExpectControl("SUBSAMPLE")
	c.C.ExpectControl("STRIDE")
	c.C.Note("image.* member uses in library+controls: %d; pixel-buffer field reads: %d", nImgUses, nPix)
	return Info{
		Explanation:  "Rule STRIDE over the SSA of every library function: each read of a pixel-buffer field (Pix / Y / Cb / Cr) of a standard-library image type must be accompanied, in the same function, by a read of the matching stride field or a call of the matching offset method. This is a necessary condition of the clause 'return width x height x components tightly packed samples' for decoders that repack an image/jpeg result; the +-2 grey-level agreement itself is not decided. Rule SUBSAMPLE: a function that indexes the Cb / Cr planes of an image.YCbCr itself (instead of At / YCbCrAt / COffset) must dispatch on SubsampleRatio over every ratio the image package declares, or end its dispatch in an error: a ratio that falls into a default written for another one reads the wrong chroma sample (or past the plane).",
		DoesNotCover: "numeric agreement with image/jpeg, MCU addressing, chroma upsampling, restart markers (all value-level)",
		Trusted:      commonTrusted,
		Extra:        map[string]any{"pix_field_reads": nPix, "image_member_uses": nImgUses, "direct_chroma_readers": nChroma},
	}
}

// subsampleRule (SUBSAMPLE): direct chroma-plane readers must be exhaustive over image.YCbCrSubsampleRatio.
func (c *Ctx) subsampleRule() int {
	pk := c.P.ByPath["image"]
	if pk == nil {
		return 0
	}
	tn, _ := pk.Types.Scope().Lookup("YCbCrSubsampleRatio").(*types.TypeName)
	if tn == nil {
		return 0
	}
	named := tn.Type().(*types.Named)
	consts := map[int64]string{}
	for _, name := range pk.Types.Scope().Names() {
		if k, ok := pk.Types.Scope().Lookup(name).(*types.Const); ok && types.Identical(k.Type(), named) {
			if v, ok := constant.Int64Val(k.Val()); ok {
				consts[v] = name
			}
		}
	}
	dispatches := map[*ssa.Function]*progDispatch{}
	for _, d := range findDispatches(c, named) {
		dispatches[d.fn] = d
	}
	n := 0
	for _, fn := range c.scopeFuncs() {
		direct, viaOffset := false, false
		var at ssa.Instruction
		for _, b := range fn.Blocks {
			for _, ins := range b.Instrs {
				if v, ok := ins.(ssa.Value); ok {
					if owner, f, _, ok := fieldOf(v); ok && owner != nil && owner.Obj().Pkg() != nil && owner.Obj().Pkg().Path() == "image" && owner.Obj().Name() == "YCbCr" && (f.Name() == "Cb" || f.Name() == "Cr") {
						direct = true
						if at == nil {
							at = ins
						}
					}
				}
				if call, ok := ins.(ssa.CallInstruction); ok {
					if callee := call.Common().StaticCallee(); callee != nil && callee.Signature.Recv() != nil {
						if rn := namedOfRecv(callee.Signature.Recv().Type()); rn != nil && rn.Obj().Pkg() != nil && rn.Obj().Pkg().Path() == "image" && rn.Obj().Name() == "YCbCr" && callee.Name() == "COffset" {
							viaOffset = true
						}
					}
				}
			}
		}
		if !direct {
			continue
		}
		n++
		construct := "chroma planes of image.YCbCr"
		switch {
		case viaOffset:
			c.add("SUBSAMPLE", fn, construct, report.Discharged, c.P.Pos(at.Pos()), "chroma offsets come from YCbCr.COffset, which handles every subsample ratio")
		case dispatches[fn] == nil:
			c.add("SUBSAMPLE", fn, construct, report.Violated, c.P.Pos(at.Pos()), "the Cb / Cr planes are indexed directly without COffset and without any dispatch on SubsampleRatio: only one sampling layout can be right")
		default:
			d := dispatches[fn]
			var missing []string
			for v, name := range consts {
				if _, ok := d.cases[v]; !ok {
					missing = append(missing, name)
				}
			}
			sort.Strings(missing)
			// a default that stands for exactly one remaining ratio is a complete dispatch
			if len(missing) > 1 && !d.hasDef {
				c.add("SUBSAMPLE", fn, construct, report.Violated, c.P.Pos(at.Pos()), fmt.Sprintf("the Cb / Cr planes are indexed directly and the dispatch on SubsampleRatio does not list %v, which fall into a default written for another ratio (not an error): a stream with that sampling is decoded from the wrong chroma samples or indexes past the plane", missing))
			} else {
				c.add("SUBSAMPLE", fn, construct, report.Discharged, c.P.Pos(at.Pos()), "dispatch on SubsampleRatio lists every declared ratio or ends in an error")
			}
		}
	}
	return n
}

func namedOfRecv(t types.Type) *types.Named {
	for {
		switch x := t.(type) {
		case *types.Pointer:
			t = x.Elem()
		case *types.Named:
			return x
		default:
			return nil
		}
	}
}
