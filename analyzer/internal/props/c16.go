package props

import (
	"fmt"
	"go/constant"
	"go/token"
	"go/types"
	"sort"
	"strings"

	"golang.org/x/tools/go/ssa"

	"dcmcheck/internal/load"
	"dcmcheck/internal/report"
)

func init() { Registry["C16"] = runC16 }

// ---------------------------------------------------------------------------------------------
// sink writes

// linear is a byte count: constant + sum of opaque terms (len(x), T.Len(), k*len(x)).
type linear struct {
	k     int64
	terms map[string]int64
	bad   bool // not expressible
}

func (l linear) String() string {
	if l.bad {
		return "?"
	}
	var ts []string
	for t, c := range l.terms {
		if c == 1 {
			ts = append(ts, t)
		} else if c != 0 {
			ts = append(ts, fmt.Sprintf("%d*%s", c, t))
		}
	}
	sort.Strings(ts)
	ts = append(ts, fmt.Sprint(l.k))
	return strings.Join(ts, " + ")
}

func linConst(k int64) linear { return linear{k: k, terms: map[string]int64{}} }

func linTerm(t string) linear { return linear{terms: map[string]int64{t: 1}} }

func (l linear) add(o linear) linear {
	r := linear{k: l.k + o.k, terms: map[string]int64{}, bad: l.bad || o.bad}
	for t, c := range l.terms {
		r.terms[t] += c
	}
	for t, c := range o.terms {
		r.terms[t] += c
	}
	return r
}

func (l linear) scale(k int64) linear {
	r := linear{k: l.k * k, terms: map[string]int64{}, bad: l.bad}
	for t, c := range l.terms {
		r.terms[t] = c * k
	}
	return r
}

func (l linear) mulTerm(t linear) linear {
	// l * t where one of them is a constant
	if len(l.terms) == 0 && !l.bad {
		return t.scale(l.k)
	}
	if len(t.terms) == 0 && !t.bad {
		return l.scale(t.k)
	}
	return linear{bad: true}
}

func (l linear) equal(o linear) bool {
	if l.bad || o.bad || l.k != o.k {
		return false
	}
	for t, c := range l.terms {
		if o.terms[t] != c {
			return false
		}
	}
	for t, c := range o.terms {
		if l.terms[t] != c {
			return false
		}
	}
	return true
}

// valKey names an SSA value stably (function-qualified register / parameter name): the same value has
// the same key on every run, and distinct values of one function have distinct keys.
func valKey(v ssa.Value) string {
	if v == nil {
		return "<nil>"
	}
	if p := v.Parent(); p != nil {
		return p.Name() + "." + v.Name()
	}
	return v.Name()
}

// linearOf parses an integer SSA expression into a linear form.
func linearOf(v ssa.Value, depth int) linear {
	if depth > 8 {
		return linear{bad: true}
	}
	switch x := v.(type) {
	case *ssa.Const:
		if x.Value != nil && x.Value.Kind() == constant.Int {
			if k, ok := constant.Int64Val(x.Value); ok {
				return linConst(k)
			}
		}
		return linear{bad: true}
	case *ssa.Convert:
		return linearOf(x.X, depth+1)
	case *ssa.ChangeType:
		return linearOf(x.X, depth+1)
	case *ssa.BinOp:
		switch x.Op {
		case token.ADD:
			return linearOf(x.X, depth+1).add(linearOf(x.Y, depth+1))
		case token.MUL:
			return linearOf(x.X, depth+1).mulTerm(linearOf(x.Y, depth+1))
		}
		return linear{bad: true}
	case *ssa.Parameter:
		if isIntBasic(x.Type()) {
			return linTerm("@" + valKey(x))
		}
		return linear{bad: true}
	case *ssa.Call:
		cc := x.Call
		if b, ok := cc.Value.(*ssa.Builtin); ok && b.Name() == "len" && len(cc.Args) == 1 {
			return linTerm("len(" + sliceIdentity(cc.Args[0]) + ")")
		}
		if sc := cc.StaticCallee(); sc != nil && sc.String() == "(*bytes.Buffer).Len" && len(cc.Args) == 1 {
			return linTerm("len(" + valKey(cc.Args[0]) + ".bytes)")
		}
	}
	return linear{bad: true}
}

// sliceIdentity names the byte string a []byte value denotes: T.Bytes() and T.Len() refer to the
// same content; otherwise the SSA value itself.
func sliceIdentity(v ssa.Value) string {
	// conversions between slice types of the same bytes (segmentPayload <-> []byte) are transparent
	for {
		if ct, ok := v.(*ssa.ChangeType); ok {
			v = ct.X
			continue
		}
		if cv, ok := v.(*ssa.Convert); ok && isByteSlice(cv.X.Type()) && isByteSlice(cv.Type()) {
			v = cv.X
			continue
		}
		break
	}
	if c, ok := v.(*ssa.Call); ok {
		if sc := c.Call.StaticCallee(); sc != nil && sc.String() == "(*bytes.Buffer).Bytes" && len(c.Call.Args) == 1 {
			return valKey(c.Call.Args[0]) + ".bytes"
		}
	}
	// two loads of the same field of the same object denote the same bytes when the function never
	// stores to that field (s.payload read for len() and again for Write)
	if u, ok := v.(*ssa.UnOp); ok && u.Op == token.MUL {
		if fa, ok := u.X.(*ssa.FieldAddr); ok {
			if fn := u.Parent(); fn != nil && !storesToField(fn, fa) {
				return fmt.Sprintf("%s.f%d", valKey(fa.X), fa.Field)
			}
		}
	}
	return valKey(v)
}

// storesToField: does fn contain a store to field fa.Field of an object of fa's struct type?
func storesToField(fn *ssa.Function, fa *ssa.FieldAddr) bool {
	for _, b := range fn.Blocks {
		for _, ins := range b.Instrs {
			st, ok := ins.(*ssa.Store)
			if !ok {
				continue
			}
			if o, ok := st.Addr.(*ssa.FieldAddr); ok && o.Field == fa.Field && types.Identical(o.X.Type(), fa.X.Type()) {
				return true
			}
		}
	}
	return false
}

type sinkWrite struct {
	ins    ssa.CallInstruction
	what   string    // "marker", "value", "bytes", "segment", "call"
	val    ssa.Value // written value (unwrapped)
	size   linear    // bytes written
	marker int64     // constant uint16 value >= 0xFF00 if the write is a marker constant, else -1
	callee string
	decl   *linear   // a length field whose value is known as a linear form (synthesised fields)
	psot   linear    // what == "sot": the Psot value, in the caller's terms
	isot   ssa.Value // what == "sot": the Isot argument
}

// instrIndexIn: a stable position of an instruction inside its function (block index * 1000 + offset).
func instrIndexIn(ins ssa.Instruction) int {
	b := ins.Block()
	for i, x := range b.Instrs {
		if x == ins {
			return b.Index*1000 + i
		}
	}
	return b.Index * 1000
}

func unwrapIface(v ssa.Value) ssa.Value {
	if mi, ok := v.(*ssa.MakeInterface); ok {
		return mi.X
	}
	return v
}

func constUint16(v ssa.Value) int64 {
	c, ok := v.(*ssa.Const)
	if !ok || c.Value == nil || c.Value.Kind() != constant.Int {
		return -1
	}
	b, ok := c.Type().Underlying().(*types.Basic)
	if !ok || b.Kind() != types.Uint16 {
		return -1
	}
	k, _ := constant.Int64Val(c.Value)
	return k
}

func sizeofBasic(t types.Type) int64 {
	b, ok := t.Underlying().(*types.Basic)
	if !ok {
		return -1
	}
	switch b.Kind() {
	case types.Uint8, types.Int8, types.Bool:
		return 1
	case types.Uint16, types.Int16:
		return 2
	case types.Uint32, types.Int32, types.Float32:
		return 4
	case types.Uint64, types.Int64, types.Float64:
		return 8
	}
	return -1
}

// sinkWritesOf lists the writes fn performs on sink value s, in dominance order. ok=false when
// two writes are not ordered by dominance (conditional writes).
func sinkWritesOf(fn *ssa.Function, s ssa.Value) (ws []sinkWrite, ordered bool) {
	for _, b := range fn.Blocks {
		for _, ins := range b.Instrs {
			call, ok := ins.(ssa.CallInstruction)
			if !ok {
				continue
			}
			cc := call.Common()
			sc := cc.StaticCallee()
			if sc == nil || len(cc.Args) == 0 {
				continue
			}
			name := sc.String()
			w := sinkWrite{ins: call, marker: -1, callee: name}
			switch {
			case name == "encoding/binary.Write" && len(cc.Args) == 3 && unwrapIface(cc.Args[0]) == s:
				w.val = unwrapIface(cc.Args[2])
				w.what = "value"
				if sz := sizeofBasic(w.val.Type()); sz > 0 {
					w.size = linConst(sz)
				} else if isByteSlice(w.val.Type()) {
					w.size = linTerm("len(" + sliceIdentity(w.val) + ")")
				} else {
					w.size = linear{bad: true}
				}
				if m := constUint16(w.val); m >= 0xFF00 {
					w.marker = m
					w.what = "marker"
				}
			case cc.Args[0] == s && (name == "(*bytes.Buffer).WriteByte" || strings.HasSuffix(name, "standard.Writer).WriteByte")):
				w.what, w.size = "value", linConst(1)
				w.val = cc.Args[1]
			case cc.Args[0] == s && (name == "(*bytes.Buffer).Write" || strings.HasSuffix(name, "standard.Writer).Write") || strings.HasSuffix(name, "standard.Writer).WriteBytes")):
				w.what = "bytes"
				w.val = cc.Args[1]
				w.size = linTerm("len(" + sliceIdentity(cc.Args[1]) + ")")
			case cc.Args[0] == s && name == "(*bytes.Buffer).WriteString":
				w.what, w.val, w.size = "bytes", cc.Args[1], linear{bad: true}
			case cc.Args[0] == s && strings.HasSuffix(name, "standard.Writer).WriteUint16"):
				w.what, w.val, w.size = "value", cc.Args[1], linConst(2)
			case cc.Args[0] == s && strings.HasSuffix(name, "standard.Writer).WriteMarker"):
				w.what, w.val, w.size = "marker", cc.Args[1], linConst(2)
				w.marker = constUint16(cc.Args[1])
			case cc.Args[0] == s && strings.HasSuffix(name, "standard.Writer).WriteSegment"):
				w.what, w.val = "segment", cc.Args[1]
				w.marker = constUint16(cc.Args[1])
				w.size = linConst(4).add(linTerm("len(" + sliceIdentity(cc.Args[2]) + ")"))
			default:
				// a helper that receives the sink
				passes := false
				for _, a := range cc.Args {
					if a == s || unwrapIface(a) == s {
						passes = true
					}
				}
				if !passes {
					continue
				}
				if name == "(*bytes.Buffer).Len" || name == "(*bytes.Buffer).Bytes" || name == "(*bytes.Buffer).Cap" || name == "(*bytes.Buffer).String" {
					continue
				}
				w.what, w.size = "call", linear{bad: true}
				if m := markerOnlyHelper(sc, s, cc.Args); m >= 0 {
					w.what, w.marker, w.size = "marker", m, linConst(2)
				} else if pi, ok := markerParamHelper(sc, s, cc.Args); ok {
					// the code is handed on from this function's own caller (a generic segment writer
					// that uses the marker helper): symbolic marker
					if f := emitFieldOf(2, cc.Args[pi]); f.what == "marker" {
						w.what, w.marker, w.size, w.val = "marker", f.marker, linConst(2), cc.Args[pi]
					}
				}
				if h := sotHelper(sc); h.ok && h.sink < len(cc.Args) && unwrapIface(cc.Args[h.sink]) == s && len(cc.Args) == len(sc.Params) {
					// a helper that writes one complete SOT segment; Psot is its expression over the arguments
					w.what, w.marker, w.size = "sot", mSOT, linConst(12)
					w.psot = substParams(h.psot, sc, cc.Args)
					if h.isot >= 0 {
						w.isot = cc.Args[h.isot]
					}
				}
				if h := segmentHelper(sc); h.ok && h.sink < len(cc.Args) && unwrapIface(cc.Args[h.sink]) == s && len(cc.Args) == len(sc.Params) {
					// a generic marker-segment writer (marker, len(payload)+2, payload): one segment
					w.what, w.marker = "segment", -1
					if h.marker >= 0 {
						w.val = cc.Args[h.marker]
						w.marker = constMarker(cc.Args[h.marker])
					}
					if h.body >= 0 {
						w.size = linConst(4).add(linTerm("len(" + sliceIdentity(cc.Args[h.body]) + ")"))
						// a payload built in place (append chain / staged buffer) with constant-size
						// fields: the segment is taken apart like a hand-written one, so that the fields
						// after the length (Isot, Psot, …) stay visible to the rules
						if w.marker >= 0xFF00 {
							var fs []emitField
							okf := false
							switch cc.Args[h.body].(type) {
							case *ssa.Call, *ssa.Phi:
								fs, okf = chainFields(fn, cc.Args[h.body], nil, 0)
							default:
								fs, okf = stagedFields(cc.Args[h.body], call)
							}
							total := linConst(2)
							for _, f := range fs {
								total = total.add(f.size)
							}
							if okf && len(fs) > 0 && !total.bad {
								ws = append(ws, sinkWrite{ins: call, what: "marker", marker: w.marker, size: linConst(2), callee: name + " (segment marker)"})
								ws = append(ws, sinkWrite{ins: call, what: "value", size: linConst(2), decl: &total, callee: name + " (segment length = len(payload)+2)"})
								for _, f := range fs {
									what := f.what
									if what == "marker" {
										what = "value"
									}
									ws = append(ws, sinkWrite{ins: call, what: what, val: f.val, size: f.size, marker: -1, callee: name + " (payload field)"})
								}
								continue
							}
						}
					} else {
						w.size = linConst(4).add(linTerm("len(payload emitted at " + call.Parent().Name() + "#" + fmt.Sprint(instrIndexIn(call)) + ")"))
					}
				}
				if w.what == "call" {
					if body, ok := plainBodyHelper(sc, s, call); ok {
						ws = append(ws, body...)
						continue
					}
				}
			}
			ws = append(ws, expandWrite(fn, w)...)
		}
	}
	sort.SliceStable(ws, func(i, j int) bool { return instrDominates(ws[i].ins, ws[j].ins) && ws[i].ins != ws[j].ins })
	// a marker written on its own, followed by one buffer that starts with the 16-bit length field and
	// carries the rest of the segment (writeMarker(buf, SOT); sot := AppendUint16(nil, 10) …; buf.Write(sot)):
	// the buffer is taken apart like a staged segment
	for i := 0; i+1 < len(ws); i++ {
		nx := ws[i+1]
		if ws[i].what != "marker" || nx.what != "bytes" || nx.val == nil || strings.HasSuffix(nx.callee, "(staged field)") {
			continue
		}
		if _, bearing := j2kSegmentMarkers[ws[i].marker]; !bearing {
			continue
		}
		var fs []emitField
		okf := false
		switch nx.val.(type) {
		case *ssa.Call, *ssa.Phi:
			fs, okf = chainFields(fn, nx.val, nil, 0)
		default:
			fs, okf = stagedFields(nx.val, nx.ins)
		}
		if !okf || len(fs) < 2 || fs[0].what != "value" || !fs[0].size.equal(linConst(2)) {
			continue
		}
		var rep []sinkWrite
		for _, f := range fs {
			what := f.what
			if what == "marker" {
				what = "value"
			}
			rep = append(rep, sinkWrite{ins: nx.ins, what: what, val: f.val, size: f.size, marker: -1, callee: nx.callee + " (staged field)"})
		}
		ws = append(ws[:i+1], append(rep, ws[i+2:]...)...)
	}
	ordered = true
	for i := 0; i+1 < len(ws); i++ {
		if !instrDominates(ws[i].ins, ws[i+1].ins) {
			ordered = false
		}
	}
	return ws, ordered
}

// ---------------------------------------------------------------------------------------------

const (
	mSOI = 0xFFD8
	mEOI = 0xFFD9
	mSOC = 0xFF4F
	mEOC = 0xFFD9
	mSOT = 0xFF90
	mSOD = 0xFF93
)

func standaloneJPEGMarker(m int64) bool {
	return m == mSOI || m == mEOI || (m >= 0xFFD0 && m <= 0xFFD7)
}

func runC16(c *Ctx) Info {
	ep, err := c.entryPoints()
	if err != nil {
		c.C.Fatalf("%v", err)
		return Info{Explanation: "failed"}
	}
	reach := c.P.Reachable(ep.Enc)
	var fns []*ssa.Function
	for _, fn := range c.scopeFuncs() {
		if reach[fn] || load.IsControl(load.FuncPkgPath(fn)) {
			fns = append(fns, fn)
		}
	}
	if strings.HasPrefix(c.Dump, "writes:") {
		for _, fn := range fns {
			if !strings.Contains(fn.String(), strings.TrimPrefix(c.Dump, "writes:")) {
				continue
			}
			fmt.Printf("WRITES %s segmentHelper=%+v sotHelper=%+v\n", fn.String(), segmentHelper(fn), sotHelper(fn).ok)
			for _, sk := range outputSinks(fn) {
				ws, ord := sinkWritesOf(fn, sk)
				fmt.Printf("  sink %s ordered=%v\n", addrExpr(sk), ord)
				for _, w := range ws {
					v := "-"
					if w.val != nil {
						v = addrExpr(w.val)
					}
					fmt.Printf("    %-8s marker=%#x size=%s val=%s callee=%s\n", w.what, w.marker, w.size.String(), v, w.callee)
				}
			}
		}
	}
	nFraming := c.orderFramingRule(fns)
	nOwnerLen, nBytes := c.ownerLengthRule(fns)
	nSink := c.ownerSinkRule(fns)
	nHdr, hdrMissing := c.flowsHeaderRule(reach)
	c.C.Floor("ORDER-FRAMING", nFraming-c.controlCount("ORDER-FRAMING"), 5)
	// a marker constant handed to a helper (builder constructor, generic emitter): the segment is
	// written through the generic emitter whose own length field is checked above
	if c.genericEmitters > 0 {
		for _, fn := range fns {
			if !producesOutput(fn) {
				continue
			}
			for _, b := range fn.Blocks {
				for _, ins := range b.Instrs {
					call, ok := ins.(ssa.CallInstruction)
					if !ok {
						continue
					}
					sc := call.Common().StaticCallee()
					if sc == nil || !load.InScope(sc) {
						continue
					}
					for _, a := range call.Common().Args {
						if m := constMarker(a); m >= 0xFF00 {
							if _, known := j2kSegmentMarkers[m]; known && !c.markersSeen[m] {
								if bt, ok := a.Type().Underlying().(*types.Basic); ok && bt.Kind() == types.Uint16 {
									c.markersSeen[m] = true
								}
							}
						}
					}
				}
			}
		}
	}
	// anchors, independent of how many functions share the work: every JPEG 2000 stream needs SIZ,
	// COD, QCD and SOT, so a segment writer for each must have been found and counted
	for _, m := range []int64{0xFF51, 0xFF52, 0xFF5C, 0xFF90} {
		if !c.markersSeen[m] {
			c.C.Fatalf("BYTES: no writer of the mandatory %s segment (0x%04X) was recognised in encode-reachable code: the rule would pass vacuously", j2kSegmentMarkers[m], m)
		}
	}
	c.C.Floor("BYTES", nBytes-c.controlCount("BYTES"), 3)
	c.C.Floor("OWNER-SINK", nSink-c.controlCount("OWNER-SINK"), 3)
	c.C.Floor("FLOWS-HEADER", nHdr-c.controlCount("FLOWS-HEADER"), 20)
	if len(hdrMissing) > 0 {
		c.C.Note("FLOWS-HEADER: EncodeParams fields not found by name (no obligation generated): %v", hdrMissing)
	}
	for _, r := range []string{"ORDER-FRAMING", "BYTES", "OWNER-SINK", "FLOWS-HEADER"} {
		c.C.ExpectControl(r)
	}
	return Info{
		Explanation:  "ORDER-FRAMING: in every top-level encode function the start-marker write dominates every other write to the sink, the end-marker write dominates every nil-error return and nothing is written after it. OWNER-LENGTH: length-bearing JPEG markers are emitted only through Writer.WriteSegment (which computes len+2); a manual marker+length+payload sequence is handed to BYTES. BYTES: for every JPEG 2000 marker segment and SOT/Psot the bytes written between the marker and the next marker are counted symbolically (constant + len(x) terms, range loops multiplied) and compared with the expression stored in the length field. OWNER-SINK: an entropy coder's byte sink is discovered structurally — a field (io.Writer, bytes.Buffer, []byte) of a library struct, in encode-reachable code, for which some method of the struct both tests what it emits against 0xFF/0xFF00 and writes the field (Huffman, Golomb, packet-header bit writer, MQ coder, HT MEL/MagSgn/VLC writers); every function that writes such a field must apply that test itself or be a raw emit helper called only by functions that do. FLOWS-HEADER: every integer argument of a package-level Encode function (and the geometry / precision / coding-style fields of jpeg2000.EncodeParams) that is consumed by arithmetic, allocation or indexing must have a data path (forward, field-based, context-insensitive value flow over the whole library) into a value stored or passed inside a function that emits a marker, or into image/jpeg.Encode: a header that cannot vary with an argument the coded data varies with cannot declare it.",
		DoesNotCover: "that stuffing is arithmetically correct (MQ 0x8F rule), field order inside a header, marker codes inside packet bodies, TLM totals beyond the per-part expression, that a header field sits at the right offset or equals the argument exactly (FLOWS-HEADER decides dependence only; value-preserving narrowing is NARROW under C17)",
		Trusted:      commonTrusted,
		Extra:        map[string]any{"framing_functions": nFraming, "length_sites": nOwnerLen, "bytes_segments": nBytes, "sinks": nSink, "header_flow_sources": nHdr},
	}
}

// startMarkerWrite finds a write of the start marker in fn and returns the sink.
func startMarkerWrite(fn *ssa.Function) (sink ssa.Value, start ssa.CallInstruction, endMarker int64) {
	for _, s := range outputSinks(fn) {
		ws, _ := sinkWritesOf(fn, s)
		for _, w := range ws {
			if w.what != "marker" {
				continue
			}
			if strings.HasSuffix(w.callee, "WriteMarker") && w.marker == mSOI {
				return s, w.ins, mEOI
			}
			if !strings.HasSuffix(w.callee, "WriteMarker") && w.marker == mSOC {
				return s, w.ins, mEOC
			}
		}
	}
	return nil, nil, 0
}

// producesOutput: the function writes to a caller-supplied sink or returns bytes; a function that
// only fills local buffers to measure their length (estimateFixedOverhead) emits nothing.
func producesOutput(fn *ssa.Function) bool {
	for _, p := range fn.Params {
		t := p.Type().String()
		if strings.HasSuffix(t, "bytes.Buffer") || strings.HasSuffix(t, "standard.Writer") || strings.HasSuffix(t, "io.Writer") {
			return true
		}
	}
	res := fn.Signature.Results()
	for i := 0; i < res.Len(); i++ {
		if isByteSlice(res.At(i).Type()) {
			return true
		}
	}
	return false
}

func (c *Ctx) orderFramingRule(fns []*ssa.Function) int {
	n := 0
	for _, fn := range fns {
		if !producesOutput(fn) {
			continue
		}
		sink, start, endM := startMarkerWrite(fn)
		if start == nil {
			continue
		}
		n++
		construct := "framing of " + addrExpr(sink)
		st, at, why := c.framingAt(fn, sink, start, endM, 0)
		pos := c.P.Pos(start.Pos())
		if at != nil {
			pos = c.P.Pos(at.Pos())
		}
		c.add("ORDER-FRAMING", fn, construct, st, pos, why)
	}
	return n
}

// framingAt decides the framing of one output: `start` (the start-marker write, or a call of a
// helper that writes it) must dominate every other write to sink in fn, an end-marker write must
// dominate every nil-error return and be followed by nothing. A helper that opens the frame on a
// sink it was given and never closes it (writeMainHeader(buf): SOC + segments) hands the obligation
// to each of its callers, where the call stands for the start-marker write; callers that only
// measure a local buffer (they produce no output) carry none.
func (c *Ctx) framingAt(fn *ssa.Function, sink ssa.Value, start ssa.CallInstruction, endM int64, depth int) (report.Status, ssa.Instruction, string) {
	ws, _ := sinkWritesOf(fn, sink)
	var end ssa.CallInstruction
	for _, w := range ws {
		if w.ins == start {
			continue
		}
		if !instrDominates(start, w.ins) {
			return report.Violated, w.ins, "a write to the output (" + w.callee + ") is not dominated by the start-marker write: bytes can precede SOI/SOC"
		}
		if w.what == "marker" && w.marker == endM {
			end = w.ins
		}
	}
	if end == nil {
		if c.P.UsedAsValue(fn) {
			// one step of a sequence that some other function drives (a table of emit functions, a
			// callback): where the end marker is written relative to it is not decided here
			return report.OutOfScope, start, "the start marker is written by a function value (a step of a sequence driven elsewhere); the order of the steps is not decided"
		}
		if p, isParam := sink.(*ssa.Parameter); isParam && depth < 3 {
			pi := paramIndex(fn, p)
			sites, measuring := 0, 0
			for _, g := range c.scopeFuncs() {
				for _, b := range g.Blocks {
					for _, ins := range b.Instrs {
						call, ok := ins.(*ssa.Call)
						if !ok || call.Call.StaticCallee() != fn || pi >= len(call.Call.Args) {
							continue
						}
						if !producesOutput(g) {
							measuring++
							continue
						}
						sites++
						if st, at, why := c.framingAt(g, unwrapIface(call.Call.Args[pi]), call, endM, depth+1); st != report.Discharged {
							return st, at, why + " (frame opened by " + load.FuncName(fn) + ", called from " + load.FuncName(g) + ")"
						}
					}
				}
			}
			if sites > 0 {
				return report.Discharged, start, fmt.Sprintf("opens the frame on a sink it is given; each of its %d emitting call sites closes it: start dominates all writes, end marker dominates every nil-error return", sites)
			}
			if measuring > 0 {
				return report.OutOfScope, start, fmt.Sprintf("opens the frame on a buffer it is given; its %d callers only measure a local buffer and emit nothing", measuring)
			}
		}
		return report.Violated, start, "no end-marker write (EOI/EOC) on the same output in this function"
	}
	for _, w := range ws {
		if w.ins != end && instrDominates(end, w.ins) {
			return report.Violated, w.ins, "a write to the output (" + w.callee + ") follows the end marker"
		}
	}
	ei := errorResultIndex(fn)
	for _, b := range fn.Blocks {
		if len(b.Instrs) == 0 {
			continue
		}
		ret, ok := b.Instrs[len(b.Instrs)-1].(*ssa.Return)
		if !ok {
			continue
		}
		if ei >= 0 && definitelyNonNilError(ret, ei) {
			continue
		}
		if !instrDominates(end, ret) && !dominatesOnNilPaths(fn, end, ret, ei) {
			return report.Violated, ret, "a return with a nil error is not dominated by the end-marker write: a stream without EOI/EOC can be returned"
		}
	}
	return report.Discharged, start, "start marker dominates all writes; end marker dominates every nil-error return; nothing written after it"
}

// dominatesOnNilPaths: instruction a lies on every path from the entry to return ret along which
// ret's error can be nil. Handles the err-chaining style (err := A(); if err == nil { err = B() }; …;
// if err != nil { return nil, err }; return out, nil): an edge into a block whose error phi receives,
// on that edge, a value just tested non-nil cannot lie on a path to a return that needs the phi nil.
func dominatesOnNilPaths(fn *ssa.Function, a ssa.Instruction, ret *ssa.Return, ei int) bool {
	if ei < 0 {
		return false
	}
	// the error variable whose nil-ness guards ret: ret.Results[ei] itself (a phi), or the phi tested
	// by the branch that leads to ret when the result is the nil constant
	var guard *ssa.Phi
	if p, ok := ret.Results[ei].(*ssa.Phi); ok {
		guard = p
	} else if isNilConst(ret.Results[ei]) {
		for b := ret.Block(); b != nil && guard == nil; b = b.Idom() {
			d := b.Idom()
			if d == nil {
				break
			}
			bo, ok := ifCond(d).(*ssa.BinOp)
			if !ok || len(d.Succs) != 2 {
				continue
			}
			var v ssa.Value
			if isNilConst(bo.Y) {
				v = bo.X
			} else if isNilConst(bo.X) {
				v = bo.Y
			}
			p, isPhi := v.(*ssa.Phi)
			if !isPhi || p.Type().String() != "error" {
				continue
			}
			// ret must lie on the side where the phi is nil
			nilSide := d.Succs[0]
			if bo.Op == token.NEQ {
				nilSide = d.Succs[1]
			} else if bo.Op != token.EQL {
				continue
			}
			if nilSide == b || nilSide.Dominates(ret.Block()) {
				guard = p
			}
		}
	}
	if guard == nil {
		return false
	}
	// edges on which a phi of the chain receives a value known non-nil on that very edge
	type edge struct{ from, to *ssa.BasicBlock }
	dead := map[edge]bool{}
	var mark func(p *ssa.Phi, depth int)
	seen := map[*ssa.Phi]bool{}
	mark = func(p *ssa.Phi, depth int) {
		if seen[p] || depth > 12 {
			return
		}
		seen[p] = true
		for i, op := range p.Edges {
			pred := p.Block().Preds[i]
			if bo, ok := ifCond(pred).(*ssa.BinOp); ok && len(pred.Succs) == 2 && pred.Succs[0] != pred.Succs[1] {
				var tested ssa.Value
				if isNilConst(bo.Y) {
					tested = bo.X
				} else if isNilConst(bo.X) {
					tested = bo.Y
				}
				if tested == op {
					nonNilSucc := pred.Succs[0]
					if bo.Op == token.EQL {
						nonNilSucc = pred.Succs[1]
					} else if bo.Op != token.NEQ {
						nonNilSucc = nil
					}
					if nonNilSucc == p.Block() {
						dead[edge{pred, p.Block()}] = true
					}
				}
			}
		}
	}
	mark(guard, 0)
	if len(dead) == 0 {
		return false
	}
	// is ret reachable from the entry without passing a's block, using live edges only?
	ab := a.Block()
	visited := map[*ssa.BasicBlock]bool{}
	var walk func(b *ssa.BasicBlock) bool
	walk = func(b *ssa.BasicBlock) bool {
		if b == ab || visited[b] {
			return false
		}
		visited[b] = true
		if b == ret.Block() {
			return true
		}
		for _, sc := range b.Succs {
			if dead[edge{b, sc}] {
				continue
			}
			if walk(sc) {
				return true
			}
		}
		return false
	}
	if len(fn.Blocks) == 0 || fn.Blocks[0] == ab {
		return true
	}
	return !walk(fn.Blocks[0])
}

// ownerLengthRule: OWNER-LENGTH (JPEG family) and BYTES (JPEG 2000 + manual JPEG segments).
func (c *Ctx) ownerLengthRule(fns []*ssa.Function) (nOwner, nBytes int) {
	c.markersSeen = map[int64]bool{}
	c.genericEmitters = 0
	for _, fn := range fns {
		if !producesOutput(fn) {
			continue
		}
		isWriteSegment := strings.HasSuffix(fn.String(), "standard.Writer).WriteSegment")
		if h := segmentHelper(fn); h.ok {
			// the generic segment writer itself: its length field must be len(payload)+2
			ws, _ := sinkWritesOf(fn, fn.Params[h.sink])
			nBytes++
			st, detail := c.countSegment(fn, ws, 0)
			if st == report.Discharged {
				c.genericEmitters++
			}
			c.add("BYTES", fn, "generic marker segment ("+addrExpr(ws[0].val)+", "+addrExpr(ws[2].val)+")", st, c.P.Pos(ws[0].ins.Pos()), detail)
			continue
		}
		for _, s := range outputSinks(fn) {
			ws, ordered := sinkWritesOf(fn, s)
			for wi, w := range ws {
				if w.what == "segment" && w.marker >= 0 && !strings.HasSuffix(w.callee, "WriteSegment") {
					c.markersSeen[w.marker] = true
				}
				if w.what == "sot" {
					// SOT written by a helper: Psot (over the arguments) against what this function writes
					// from here to the end of the tile-part (header segments, SOD, one run of tile data)
					nBytes++
					c.markersSeen[mSOT] = true
					st, detail := countTilePart(fn, ws, wi)
					c.add("BYTES", fn, "tile-part after "+w.callee, st, c.P.Pos(w.ins.Pos()), detail)
					continue
				}
				if w.what != "marker" || w.marker < 0 {
					if w.what == "marker" && w.marker < 0 && !isWriteSegment && strings.HasSuffix(w.callee, "WriteMarker") && !strings.HasSuffix(fn.String(), "standard.Writer).WriteMarker") {
						nOwner++
						c.add("OWNER-LENGTH", fn, "WriteMarker("+addrExpr(w.val)+")", report.OutOfScope, c.P.Pos(w.ins.Pos()), "marker value is not a constant: which marker is written is not decided")
					}
					continue
				}
				if isWriteSegment {
					continue
				}
				jpegStyle := strings.HasSuffix(w.callee, "WriteMarker")
				if jpegStyle {
					nOwner++
					if standaloneJPEGMarker(w.marker) {
						c.add("OWNER-LENGTH", fn, fmt.Sprintf("WriteMarker(0x%04X)", w.marker), report.Discharged, c.P.Pos(w.ins.Pos()), "stand-alone marker (no length field)")
						continue
					}
				} else if w.marker == mSOC || w.marker == mEOC || w.marker == mSOD || w.marker == 0xFF92 {
					continue // stand-alone JPEG 2000 markers
				}
				// a length-bearing marker written by hand: count the segment
				nBytes++
				c.markersSeen[w.marker] = true
				construct := fmt.Sprintf("segment 0x%04X", w.marker)
				_ = ordered
				// the writes that follow this marker: those it dominates, which must form a chain
				seq := []sinkWrite{w}
				chain := true
				for oi, o := range ws {
					if (o.ins != w.ins && instrDominates(w.ins, o.ins)) || (o.ins == w.ins && oi > wi) {
						seq = append(seq, o)
					}
				}
				sort.SliceStable(seq, func(a, b int) bool { return seq[a].ins != seq[b].ins && instrDominates(seq[a].ins, seq[b].ins) })
				for k := 0; k+1 < len(seq); k++ {
					if !instrDominates(seq[k].ins, seq[k+1].ins) {
						chain = false
					}
				}
				if !chain {
					c.add("BYTES", fn, construct, report.OutOfScope, c.P.Pos(w.ins.Pos()), "writes following this marker are not totally ordered by dominance (conditional writes): not counted")
					continue
				}
				st, detail := c.countSegment(fn, seq, 0)
				c.add("BYTES", fn, construct, st, c.P.Pos(w.ins.Pos()), detail)
			}
		}
	}
	return
}

// loopTrip returns the linear trip count of the innermost loop containing ins (relative to the
// loop containing ref, which is excluded), or ok=false.
func loopTrip(fn *ssa.Function, loops []*natLoop, ins, ref ssa.Instruction) (linear, bool) {
	l := innermostLoopOf(loops, ins.Block())
	rl := innermostLoopOf(loops, ref.Block())
	if l == nil || l == rl {
		return linConst(1), true
	}
	if rl != nil && !rl.Blocks[l.Header] {
		return linear{bad: true}, false
	}
	// nested deeper than one level relative to ref: not handled
	if outer := enclosing(loops, l); outer != rl {
		return linear{bad: true}, false
	}
	// range loop / counted loop: header (or a body block) tests  i < n  with n = len(x) or invariant
	for _, b := range l.ordered() {
		cond, ok := ifCond(b).(*ssa.BinOp)
		if !ok || cond.Op != token.LSS {
			continue
		}
		exits := false
		for _, s := range b.Succs {
			if !l.Blocks[s] {
				exits = true
			}
		}
		if !exits {
			continue
		}
		n := linearOf(cond.Y, 0)
		if !n.bad {
			return n, true
		}
	}
	return linear{bad: true}, false
}

func enclosing(loops []*natLoop, l *natLoop) *natLoop {
	var best *natLoop
	for _, o := range loops {
		if o == l || !o.Blocks[l.Header] || len(o.Blocks) <= len(l.Blocks) {
			continue
		}
		if best == nil || len(o.Blocks) < len(best.Blocks) {
			best = o
		}
	}
	return best
}

// countSegment checks the length field of the segment whose marker is ws[i].
func (c *Ctx) countSegment(fn *ssa.Function, ws []sinkWrite, i int) (report.Status, string) {
	loops := naturalLoops(fn)
	m := ws[i]
	if i+1 >= len(ws) {
		return report.OutOfScope, "marker is the last write in this function: segment body written elsewhere"
	}
	lw := ws[i+1]
	if lw.what == "bytes" {
		// marker followed by a pre-assembled segment T.Bytes(): the length field is T's first write
		if call, ok := lw.val.(*ssa.Call); ok {
			if sc := call.Call.StaticCallee(); sc != nil && sc.String() == "(*bytes.Buffer).Bytes" {
				inner, ordered := sinkWritesOf(fn, call.Call.Args[0])
				if !ordered || len(inner) == 0 {
					return report.OutOfScope, "pre-assembled segment buffer is written conditionally: not counted"
				}
				if inner[0].what != "value" || !inner[0].size.equal(linConst(2)) {
					return report.Violated, "the pre-assembled segment does not start with a 16-bit length field"
				}
				declared := linearOf(inner[0].val, 0)
				total := linConst(0)
				for _, w := range inner {
					trip, ok := loopTrip(fn, loops, w.ins, inner[0].ins)
					if !ok || w.size.bad {
						return report.OutOfScope, "pre-assembled segment contains a write that is not countable: " + w.callee
					}
					total = total.add(w.size.mulTerm(trip))
				}
				if declared.bad {
					return report.OutOfScope, "declared length is not a linear expression"
				}
				if declared.equal(total) {
					return report.Discharged, "pre-assembled segment: declared length " + declared.String() + " equals the counted bytes"
				}
				return report.Violated, "length field declares " + declared.String() + " but the pre-assembled segment has " + total.String() + " bytes"
			}
		}
	}
	if lw.what != "value" || !lw.size.equal(linConst(2)) {
		return report.Violated, "a length-bearing marker is not followed by a 16-bit length field (next write: " + lw.callee + ")"
	}
	var declared linear
	if lw.decl != nil {
		declared = *lw.decl
	} else {
		declared = linearOf(lw.val, 0)
	}
	if declared.bad {
		return report.OutOfScope, "declared length is not a linear expression of len()/constants: " + addrExpr(lw.val)
	}
	isSOT := m.marker == mSOT
	// count bytes from the length field (inclusive) to the end of the segment
	total := linConst(2)
	var psot *sinkWrite
	sawSOD := false
	psotCount := linConst(4) // marker(2)+Lsot(2) already written when counting Psot from the marker
	end := len(ws)
	for j := i + 2; j < len(ws); j++ {
		w := ws[j]
		if w.what == "marker" && !(isSOT && w.marker == mSOD) {
			end = j
			break
		}
		if w.what == "call" || w.what == "segment" {
			end = j
			break
		}
		trip, ok := loopTrip(fn, loops, w.ins, m.ins)
		if !ok {
			return report.OutOfScope, "a write inside a loop whose trip count is not a linear expression: " + w.callee
		}
		sz := w.size
		if sz.bad {
			return report.OutOfScope, "size of a written value is not countable: " + w.callee
		}
		if isSOT {
			if psot == nil && w.what == "value" && sz.equal(linConst(4)) && j == i+3 {
				pw := ws[j]
				psot = &pw
			}
			psotCount = psotCount.add(sz.mulTerm(trip))
			if w.what == "marker" && w.marker == mSOD {
				sawSOD = true
				// the tile data follows SOD: one more write belongs to the tile-part
				if j+1 < len(ws) && ws[j+1].what == "bytes" {
					psotCount = psotCount.add(ws[j+1].size)
				} else {
					return report.OutOfScope, "SOD is not followed by a single write of the tile data"
				}
				end = j + 2
				break
			}
			if j < i+6 { // Lsot covers Isot(2) Psot(4) TPsot(1) TNsot(1)
				total = total.add(sz.mulTerm(trip))
			}
			continue
		}
		total = total.add(sz.mulTerm(trip))
	}
	_ = end
	if isSOT {
		if !declared.equal(linConst(10)) {
			return report.Violated, "Lsot must be 10, declared " + declared.String()
		}
		if !total.equal(linConst(10)) {
			return report.Violated, fmt.Sprintf("SOT segment body counts %s bytes, Lsot declares 10", total.String())
		}
		if psot == nil {
			return report.OutOfScope, "Psot write not recognised"
		}
		if !sawSOD {
			// the function writes the SOT segment only: the tile-part extent is its caller's
			if sotHelper(fn).ok {
				return report.Discharged, "SOT helper: Lsot = 10 and the segment is 12 bytes; Psot is compared with the bytes of the tile-part at every call site"
			}
			return report.OutOfScope, "SOT segment without the rest of the tile-part in this function: Psot not decided here"
		}
		pd := linearOf(psot.val, 0)
		if pd.bad {
			return report.OutOfScope, "Psot is not a linear expression: " + addrExpr(psot.val)
		}
		if pd.equal(psotCount) {
			return report.Discharged, "Lsot = 10 and Psot = " + pd.String() + " equal the counted bytes of the tile-part"
		}
		return report.Violated, "Psot declares " + pd.String() + " but the tile-part written here has " + psotCount.String() + " bytes: a reader following Psot lands at the wrong offset"
	}
	if declared.equal(total) {
		return report.Discharged, "declared length " + declared.String() + " equals the counted bytes"
	}
	return report.Violated, "length field declares " + declared.String() + " but " + total.String() + " bytes are written for the segment (length field included)"
}

// countTilePart: ws[i] is a call of an SOT-writing helper; count the bytes up to the end of the
// tile-part and compare with the Psot the helper was given.
func countTilePart(fn *ssa.Function, ws []sinkWrite, i int) (report.Status, string) {
	loops := naturalLoops(fn)
	m := ws[i]
	if m.psot.bad {
		return report.OutOfScope, "Psot handed to the SOT helper is not a linear expression of len()/constants"
	}
	total := linConst(12)
	for j := i + 1; j < len(ws); j++ {
		w := ws[j]
		if w.ins != m.ins && !instrDominates(m.ins, w.ins) {
			continue
		}
		trip, ok := loopTrip(fn, loops, w.ins, m.ins)
		if !ok || w.size.bad {
			return report.OutOfScope, "a write between SOT and SOD is not countable: " + w.callee
		}
		total = total.add(w.size.mulTerm(trip))
		if w.what == "marker" && w.marker == mSOD {
			if j+1 < len(ws) && ws[j+1].what == "bytes" && !ws[j+1].size.bad {
				total = total.add(ws[j+1].size)
				if m.psot.equal(total) {
					return report.Discharged, "Psot = " + m.psot.String() + " equals the counted bytes of the tile-part"
				}
				return report.Violated, "Psot declares " + m.psot.String() + " but the tile-part written here has " + total.String() + " bytes: a reader following Psot lands at the wrong offset"
			}
			return report.OutOfScope, "SOD is not followed by a single write of the tile data"
		}
		if w.what == "sodcall" {
			if j+1 < len(ws) && ws[j+1].what == "bytes" && !ws[j+1].size.bad {
				total = total.add(ws[j+1].size)
				if m.psot.equal(total) {
					return report.Discharged, "Psot = " + m.psot.String() + " equals the counted bytes of the tile-part"
				}
				return report.Violated, "Psot declares " + m.psot.String() + " but the tile-part written here has " + total.String() + " bytes: a reader following Psot lands at the wrong offset"
			}
			return report.OutOfScope, "SOD is not followed by a single write of the tile data"
		}
	}
	return report.OutOfScope, "no SOD write follows the SOT helper in this function"
}

// ownerSinkRule: OWNER-SINK.
func (c *Ctx) ownerSinkRule(encodeFns []*ssa.Function) int {
	// Structural discovery (no names): an entropy coder's byte sink is a field F (io.Writer,
	// bytes.Buffer, []byte) of a library struct type T for which some method of T both tests what it
	// emits against 0xFF / 0xFF00 and writes F. Every function writing such an F must then apply the
	// escaping itself, or be a raw emit helper that only such functions call.
	type sinkKey struct {
		tn *types.TypeName
		f  int
	}
	isSinkFieldType := func(t types.Type) bool {
		s := t.String()
		return s == "io.Writer" || strings.HasSuffix(s, "bytes.Buffer") || isByteSlice(t)
	}
	writers := map[sinkKey]map[*ssa.Function][]ssa.Instruction{}
	for _, fn := range encodeFns {
		for _, b := range fn.Blocks {
			for _, ins := range b.Instrs {
				fa, ok := ins.(*ssa.FieldAddr)
				if !ok {
					continue
				}
				nn := namedOfRecv(fa.X.Type())
				if nn == nil || nn.Obj().Pkg() == nil {
					continue
				}
				pp := nn.Obj().Pkg().Path()
				if !(load.IsModule(pp) || load.IsControl(pp)) {
					continue
				}
				st, ok := nn.Underlying().(*types.Struct)
				if !ok || fa.Field >= st.NumFields() || !isSinkFieldType(st.Field(fa.Field).Type()) {
					continue
				}
				uses := sinkUses(fa)
				if len(uses) == 0 {
					continue
				}
				k := sinkKey{nn.Obj(), fa.Field}
				if writers[k] == nil {
					writers[k] = map[*ssa.Function][]ssa.Instruction{}
				}
				writers[k][fn] = append(writers[k][fn], uses...)
			}
		}
	}
	var keys []sinkKey
	for k, ws := range writers {
		// qualifies when a method of the type itself escapes and writes the field
		// ... directly, or through a raw emit helper of the same type that it calls
		q := false
		isMethodOfT := func(fn *ssa.Function) bool {
			if fn.Signature.Recv() == nil {
				return false
			}
			rn := namedOfRecv(fn.Signature.Recv().Type())
			return rn != nil && rn.Obj() == k.tn
		}
		for fn := range ws {
			if !isMethodOfT(fn) {
				continue
			}
			if escapes(fn) {
				q = true
				break
			}
			for _, caller := range encodeFns {
				if !isMethodOfT(caller) || !escapes(caller) {
					continue
				}
				for _, b := range caller.Blocks {
					for _, ins := range b.Instrs {
						if call, ok := ins.(ssa.CallInstruction); ok && call.Common().StaticCallee() == fn {
							q = true
						}
					}
				}
			}
		}
		if q {
			keys = append(keys, k)
		}
	}
	sort.Slice(keys, func(i, j int) bool {
		a, b := keys[i], keys[j]
		if a.tn.Pkg().Path() != b.tn.Pkg().Path() {
			return a.tn.Pkg().Path() < b.tn.Pkg().Path()
		}
		if a.tn.Name() != b.tn.Name() {
			return a.tn.Name() < b.tn.Name()
		}
		return a.f < b.f
	})
	n := 0
	for _, k := range keys {
		n++
		st := k.tn.Type().Underlying().(*types.Struct)
		construct := strings.TrimPrefix(k.tn.Pkg().Path(), load.ModPath+"/") + "." + k.tn.Name() + "." + st.Field(k.f).Name()
		var fns []*ssa.Function
		for fn := range writers[k] {
			fns = append(fns, fn)
		}
		sort.Slice(fns, func(i, j int) bool { return fns[i].String() < fns[j].String() })
		okAll := true
		var names []string
		var owner *ssa.Function
		for _, fn := range fns {
			names = append(names, fn.Name())
			if escapes(fn) && owner == nil {
				owner = fn
			}
			if !c.escapesOrOnlyCalledByEscapers(fn, 0, map[*ssa.Function]bool{}) {
				// a buffered coder: completed (already escaped) bytes are collected in a staging field of
				// the same object and handed to the sink in chunks (e.w.Write(e.out[:e.n]) in Flush). Such
				// a hand-over adds no bytes of its own; the obligation lies on whoever stores into the
				// staging field
				if c.onlyForwardsStaged(k.tn, writers[k][fn], encodeFns) {
					names[len(names)-1] += " (forwards a staging buffer filled only by escaping functions)"
					continue
				}
				okAll = false
				c.add("OWNER-SINK", fn, construct+" written in "+fn.Name(), report.Violated, c.P.Pos(writers[k][fn][0].Pos()),
					"the entropy coder's byte sink is written by a function that never tests what it emits against 0xFF (and is not a raw helper called only by functions that do): bytes emitted here bypass marker escaping, so an unescaped 0xFF xx can appear in the entropy-coded data")
			}
		}
		if okAll {
			c.add("OWNER-SINK", owner, construct, report.Discharged, "-", fmt.Sprintf("written only in %v, each of which tests what it emits against 0xFF (or is a raw helper of one that does)", names))
		}
	}
	return n
}

// escapesOrOnlyCalledByEscapers: fn applies the escaping itself (tests against 0xFF), or it is an
// unexported raw emit helper whose every caller is a method of the same type that does
// (writeByte -> emit): the obligation moves one level up, no further.
func (c *Ctx) escapesOrOnlyCalledByEscapers(fn *ssa.Function, depth int, visiting map[*ssa.Function]bool) bool {
	if fn == nil {
		return false
	}
	if escapes(fn) {
		return true
	}
	if fn.Object() != nil && fn.Object().Exported() {
		return false
	}
	recvOf := func(f *ssa.Function) *types.TypeName {
		if f.Signature.Recv() == nil {
			return nil
		}
		if n := namedOfRecv(f.Signature.Recv().Type()); n != nil {
			return n.Obj()
		}
		return nil
	}
	own := recvOf(fn)
	n := 0
	for _, caller := range c.scopeFuncs() {
		for _, b := range caller.Blocks {
			for _, ins := range b.Instrs {
				call, ok := ins.(ssa.CallInstruction)
				if !ok || call.Common().StaticCallee() != fn {
					continue
				}
				n++
				if !escapes(caller) || own == nil || recvOf(caller) != own {
					return false
				}
			}
		}
	}
	return n > 0
}

// sinkUses: instructions that write through (or leak) the sink stored at field address fa.
func sinkUses(fa *ssa.FieldAddr) []ssa.Instruction {
	var out []ssa.Instruction
	if fa.Referrers() == nil {
		return nil
	}
	for _, r := range *fa.Referrers() {
		switch x := r.(type) {
		case *ssa.UnOp: // load of the sink value
			if x.Referrers() == nil {
				continue
			}
			if isByteSlice(x.Type()) {
				for _, u := range *x.Referrers() {
					switch y := u.(type) {
					case *ssa.IndexAddr:
						if y.Referrers() != nil {
							for _, w := range *y.Referrers() {
								if st, ok := w.(*ssa.Store); ok && st.Addr == ssa.Value(y) {
									out = append(out, st)
								}
							}
						}
					case *ssa.Call:
						if bi, ok := y.Call.Value.(*ssa.Builtin); ok && bi.Name() == "copy" && len(y.Call.Args) > 0 && y.Call.Args[0] == ssa.Value(x) {
							out = append(out, y)
						}
					}
				}
				continue
			}
			for _, u := range *x.Referrers() {
				switch y := u.(type) {
				case ssa.CallInstruction:
					cc := y.Common()
					if cc.IsInvoke() && cc.Value == x {
						if strings.HasPrefix(cc.Method.Name(), "Write") {
							out = append(out, y)
						}
						continue
					}
					if sc := cc.StaticCallee(); sc != nil {
						s := sc.String()
						if s == "(*bytes.Buffer).Len" || s == "(*bytes.Buffer).Bytes" || s == "(*bytes.Buffer).Reset" {
							continue
						}
					}
					out = append(out, y) // passed to / called on something else: may write
				case *ssa.Store, *ssa.MakeInterface, *ssa.Return:
					out = append(out, u)
				}
			}
		case ssa.CallInstruction:
			// method on the embedded value (bytes.Buffer held by value): &x.buf passed as receiver
			cc := x.Common()
			if sc := cc.StaticCallee(); sc != nil {
				s := sc.String()
				if s == "(*bytes.Buffer).Len" || s == "(*bytes.Buffer).Bytes" || s == "(*bytes.Buffer).Reset" || s == "(*bytes.Buffer).Cap" {
					continue
				}
			}
			out = append(out, x)
		case *ssa.Store:
			// assigning the sink (constructor / reset) is not a write to the stream; growing a byte
			// slice sink by append is: F = append(F, b...)
			if x.Addr != ssa.Value(fa) {
				continue
			}
			if call, ok := x.Val.(*ssa.Call); ok {
				if bi, ok := call.Call.Value.(*ssa.Builtin); ok && bi.Name() == "append" && len(call.Call.Args) > 0 {
					if ld, ok := call.Call.Args[0].(*ssa.UnOp); ok && ld.Op == token.MUL {
						if fa2, ok := ld.X.(*ssa.FieldAddr); ok && fa2.Field == fa.Field && sameBase(fa2.X, fa.X) {
							out = append(out, x)
						}
					}
				}
			}
		}
	}
	return out
}

// escapes: the function tests what it emits against 0xFF itself, or asks a predicate of the coder
// that does — a store-free function with a result that compares with 0xFF and whose answer is used
// here (c := bw.capacity(), where capacity() is `if bw.last == 0xff { return 7 }; return 8`).
func escapes(fn *ssa.Function) bool {
	if fn == nil {
		return false
	}
	if testsFF(fn) {
		return true
	}
	for _, b := range fn.Blocks {
		for _, ins := range b.Instrs {
			call, ok := ins.(*ssa.Call)
			if !ok || call.Referrers() == nil || len(*call.Referrers()) == 0 {
				continue
			}
			g := call.Call.StaticCallee()
			if g == nil || g.Blocks == nil || g.Signature.Results().Len() == 0 || !testsFF(g) {
				continue
			}
			pure := true
			for _, gb := range g.Blocks {
				for _, gi := range gb.Instrs {
					switch gi.(type) {
					case *ssa.Store, *ssa.MapUpdate, ssa.CallInstruction:
						pure = false
					}
				}
			}
			if pure {
				return true
			}
		}
	}
	return false
}

// testsFF: the function compares some value with the constant 0xFF or 0xFF00 (byte-stuffing test).
func testsFF(fn *ssa.Function) bool {
	if fn == nil {
		return false
	}
	for _, b := range fn.Blocks {
		for _, ins := range b.Instrs {
			bo, ok := ins.(*ssa.BinOp)
			if !ok {
				continue
			}
			switch bo.Op {
			case token.EQL, token.NEQ, token.LSS, token.GTR, token.LEQ, token.GEQ:
			default:
				continue
			}
			for _, v := range []ssa.Value{bo.X, bo.Y} {
				if k, ok := v.(*ssa.Const); ok && k.Value != nil && k.Value.Kind() == constant.Int {
					if iv, ok := constant.Int64Val(k.Value); ok && (iv == 0xFF || iv == 0xFF00) {
						return true
					}
				}
			}
		}
	}
	return false
}

// onlyForwardsStaged: every one of the given sink writes hands over a slice of a byte array / byte
// slice field G of the same struct type, and every function that stores into G applies the escaping
// (or is a raw helper of one that does).
func (c *Ctx) onlyForwardsStaged(tn *types.TypeName, uses []ssa.Instruction, encodeFns []*ssa.Function) bool {
	if len(uses) == 0 {
		return false
	}
	staged := map[int]bool{}
	for _, u := range uses {
		call, ok := u.(ssa.CallInstruction)
		if !ok {
			return false
		}
		cc := call.Common()
		var data ssa.Value
		switch {
		case cc.IsInvoke() && cc.Method.Name() == "Write" && len(cc.Args) == 1:
			data = cc.Args[0]
		case cc.StaticCallee() != nil && cc.StaticCallee().String() == "(*bytes.Buffer).Write" && len(cc.Args) == 2:
			data = cc.Args[1]
		default:
			return false
		}
		sl, ok := data.(*ssa.Slice)
		if !ok {
			return false
		}
		base := sl.X
		if ld, ok := base.(*ssa.UnOp); ok && ld.Op == token.MUL {
			base = ld.X
		}
		fa, ok := base.(*ssa.FieldAddr)
		if !ok {
			return false
		}
		nn := namedOfRecv(fa.X.Type())
		if nn == nil || nn.Obj() != tn {
			return false
		}
		staged[fa.Field] = true
	}
	// every store into a staged field, anywhere in encode-reachable code, is made by an escaping function
	for _, fn := range encodeFns {
		for _, b := range fn.Blocks {
			for _, ins := range b.Instrs {
				fa, ok := ins.(*ssa.FieldAddr)
				if !ok || !staged[fa.Field] {
					continue
				}
				nn := namedOfRecv(fa.X.Type())
				if nn == nil || nn.Obj() != tn {
					continue
				}
				if storesThrough(fa) && !c.escapesOrOnlyCalledByEscapers(fn, 0, map[*ssa.Function]bool{}) {
					return false
				}
			}
		}
	}
	return true
}

// storesThrough: some element of the array / slice at field address fa is stored to (or the field
// is grown by append, or is the destination of a copy) through this address.
func storesThrough(fa *ssa.FieldAddr) bool {
	if fa.Referrers() == nil {
		return false
	}
	elemStore := func(v ssa.Value) bool {
		if v.Referrers() == nil {
			return false
		}
		for _, u := range *v.Referrers() {
			switch y := u.(type) {
			case *ssa.IndexAddr:
				if y.Referrers() != nil {
					for _, w := range *y.Referrers() {
						if st, ok := w.(*ssa.Store); ok && st.Addr == ssa.Value(y) {
							return true
						}
					}
				}
			case *ssa.Slice:
				if y.Referrers() != nil {
					for _, w := range *y.Referrers() {
						if call, ok := w.(*ssa.Call); ok {
							if bi, ok := call.Call.Value.(*ssa.Builtin); ok && bi.Name() == "copy" && call.Call.Args[0] == ssa.Value(y) {
								return true
							}
						}
					}
				}
			case *ssa.Call:
				if bi, ok := y.Call.Value.(*ssa.Builtin); ok && (bi.Name() == "copy" || bi.Name() == "append") && len(y.Call.Args) > 0 && y.Call.Args[0] == v {
					return true
				}
			}
		}
		return false
	}
	if elemStore(fa) {
		return true
	}
	for _, r := range *fa.Referrers() {
		switch x := r.(type) {
		case *ssa.UnOp:
			if elemStore(x) {
				return true
			}
		case *ssa.Store:
			if x.Addr == ssa.Value(fa) {
				if call, ok := x.Val.(*ssa.Call); ok {
					if bi, ok := call.Call.Value.(*ssa.Builtin); ok && bi.Name() == "append" {
						return true
					}
				}
			}
		}
	}
	return false
}
