package props

import (
	"go/constant"
	"go/token"
	"go/types"
	"regexp"
	"sort"
	"strconv"
	"strings"

	"golang.org/x/tools/go/ssa"

	"dcmcheck/internal/load"
)

// Byte-emission idioms (DESIGN §4 C16, as built). A header can be produced three ways:
//
//   1. field by field on the sink:       binary.Write(buf, BE, v) / buf.WriteByte / w.WriteUint16
//   2. staged in a fixed buffer:         var seg [12]byte; BE.PutUint16(seg[0:2], m); seg[10] = x; buf.Write(seg[:])
//   3. built by an append chain:         b = BE.AppendUint16(b, m); b = append(b, x, y); buf.Write(b)
//
// The rules (ORDER-FRAMING, BYTES, FLOWS-TILEIDX) work on one representation, the ordered list of
// sinkWrite fields; this file expands a write of a staged buffer or of an append chain into its
// fields, so that a refactoring between the idioms leaves the obligations in place.

type emitField struct {
	size   linear
	val    ssa.Value
	what   string // "value", "marker", "bytes"
	marker int64
}

var putRe = regexp.MustCompile(`^\(encoding/binary\.(?:big|little)Endian\)\.(Put|Append)Uint(16|32|64)$`)

// putCall: is call a PutUintK / AppendUintK of encoding/binary? Returns kind, byte width, buffer and value.
func putCall(call ssa.CallInstruction) (kind string, width int64, buf, val ssa.Value, ok bool) {
	sc := call.Common().StaticCallee()
	if sc == nil {
		return "", 0, nil, nil, false
	}
	m := putRe.FindStringSubmatch(sc.String())
	args := call.Common().Args
	if m == nil || len(args) != 3 {
		return "", 0, nil, nil, false
	}
	bits, _ := strconv.Atoi(m[2])
	return m[1], int64(bits / 8), args[1], args[2], true
}

func emitFieldOf(size int64, v ssa.Value) emitField {
	f := emitField{size: linConst(size), val: v, what: "value", marker: -1}
	if size == 2 {
		if m := constMarker(v); m >= 0xFF00 {
			f.what, f.marker = "marker", m
		} else if u, ok := stripConv(v).(*ssa.UnOp); ok && u.Op == token.MUL {
			// the marker code is a field of a builder object handed in by the caller
			if fa, ok := u.X.(*ssa.FieldAddr); ok {
				if _, isParam := fa.X.(*ssa.Parameter); isParam {
					if b, ok := u.Type().Underlying().(*types.Basic); ok && b.Kind() == types.Uint16 {
						f.what, f.marker = "marker", -2
					}
				}
			}
		} else if p, ok := stripConv(v).(*ssa.Parameter); ok {
			// the marker code is the caller's (generic segment writer): symbolic marker
			if b, ok := p.Type().Underlying().(*types.Basic); ok && b.Kind() == types.Uint16 {
				f.what, f.marker = "marker", -2
			}
		}
	}
	return f
}

// constMarker: the value of a 16-bit constant (typed uint16, possibly through a conversion).
func constMarker(v ssa.Value) int64 {
	v = stripConv(v)
	c, ok := v.(*ssa.Const)
	if !ok || c.Value == nil || c.Value.Kind() != constant.Int {
		return -1
	}
	k, ok := constant.Int64Val(c.Value)
	if !ok || k < 0 || k > 0xFFFF {
		return -1
	}
	return k
}

func constIntOr(v ssa.Value, def int64) (int64, bool) {
	if v == nil {
		return def, true
	}
	c, ok := v.(*ssa.Const)
	if !ok || c.Value == nil || c.Value.Kind() != constant.Int {
		return 0, false
	}
	k, ok := constant.Int64Val(c.Value)
	return k, ok
}

// stagedBase: v is (a full-length view of) a local byte array or a make([]byte, n) buffer.
func stagedBase(v ssa.Value) (base ssa.Value, n linear, ok bool) {
	for {
		sl, isSl := v.(*ssa.Slice)
		if !isSl {
			break
		}
		if lo, ok := constIntOr(sl.Low, 0); !ok || lo != 0 || sl.High != nil {
			return nil, linear{}, false
		}
		v = sl.X
	}
	switch x := v.(type) {
	case *ssa.Alloc:
		at, ok := x.Type().(*types.Pointer).Elem().Underlying().(*types.Array)
		if !ok || !isByteBasic(at.Elem()) {
			return nil, linear{}, false
		}
		return x, linConst(at.Len()), true
	case *ssa.MakeSlice:
		if !isByteSlice(x.Type()) {
			return nil, linear{}, false
		}
		n := linearOf(x.Len, 0)
		if n.bad || (len(n.terms) == 0 && n.k == 0) {
			return nil, linear{}, false
		}
		return x, n, true
	}
	return nil, linear{}, false
}

func domOrNil(a, at ssa.Instruction) bool { return at == nil || instrDominates(a, at) }

func isByteBasic(t types.Type) bool {
	b, ok := t.Underlying().(*types.Basic)
	return ok && b.Kind() == types.Uint8
}

type stagedWrite struct {
	off, size int64 // size < 0: to the end of the buffer
	field     emitField
	opaque    bool
}

// stagedFields: the fields of a staged buffer at the point `at` where it is written out.
func stagedFields(v ssa.Value, at ssa.Instruction) ([]emitField, bool) {
	base, n, ok := stagedBase(v)
	if !ok || base.Referrers() == nil {
		return nil, false
	}
	var ws []stagedWrite
	isViewOfBase := func(x ssa.Value) bool {
		b2, _, ok := stagedBase(x)
		return ok && b2 == base
	}
	for _, r := range *base.Referrers() {
		if r == at {
			continue
		}
		switch x := r.(type) {
		case *ssa.IndexAddr:
			if x.Referrers() == nil {
				continue
			}
			for _, u := range *x.Referrers() {
				st, isStore := u.(*ssa.Store)
				if !isStore || st.Addr != ssa.Value(x) {
					continue // a read
				}
				off, ok := constIntOr(x.Index, 0)
				if !ok || x.Index == nil || !domOrNil(st, at) {
					return nil, false
				}
				ws = append(ws, stagedWrite{off: off, size: 1, field: emitFieldOf(1, st.Val)})
			}
		case *ssa.Slice:
			lo, ok := constIntOr(x.Low, 0)
			if !ok {
				return nil, false
			}
			hi := int64(-1)
			if x.High != nil {
				if hi, ok = constIntOr(x.High, 0); !ok {
					return nil, false
				}
			}
			if x.Referrers() == nil {
				continue
			}
			for _, u := range *x.Referrers() {
				if u == at {
					continue
				}
				if call, isCall := u.(ssa.CallInstruction); isCall {
					if kind, width, buf, val, ok := putCall(call); ok && kind == "Put" && buf == ssa.Value(x) {
						if !domOrNil(call, at) {
							return nil, false
						}
						ws = append(ws, stagedWrite{off: lo, size: width, field: emitFieldOf(width, val)})
						continue
					}
					if b, isB := call.Common().Value.(*ssa.Builtin); isB && (b.Name() == "len" || b.Name() == "cap") {
						continue
					}
				}
				if lo == 0 && hi < 0 && isViewOfBase(x) {
					// another full view (seg[:]) used elsewhere: only the write-out itself is expected
					if _, isCall := u.(ssa.CallInstruction); isCall {
						return nil, false
					}
				}
				// the window is filled some other way (copy, loop-carried sub-slice, helper): its
				// bytes are counted, their values are not modelled
				sz := int64(-1)
				if hi >= 0 {
					sz = hi - lo
				}
				ws = append(ws, stagedWrite{off: lo, size: sz, opaque: true})
			}
		case ssa.CallInstruction:
			if b, isB := x.Common().Value.(*ssa.Builtin); isB && (b.Name() == "len" || b.Name() == "cap") {
				continue
			}
			return nil, false
		case *ssa.DebugRef:
		default:
			return nil, false
		}
	}
	// explicit fields first, in offset order; opaque windows fill what is left
	sort.SliceStable(ws, func(i, j int) bool {
		if ws[i].off != ws[j].off {
			return ws[i].off < ws[j].off
		}
		return !ws[i].opaque && ws[j].opaque
	})
	ws = mergeByteSplits(ws)
	var out []emitField
	pos := int64(0)
	total := int64(-1)
	if len(n.terms) == 0 {
		total = n.k
	}
	for _, w := range ws {
		if w.opaque {
			continue
		}
		if w.off < pos {
			return nil, false // overlapping explicit fields
		}
		if w.off > pos {
			out = append(out, emitField{size: linConst(w.off - pos), what: "bytes", marker: -1})
		}
		out = append(out, w.field)
		pos = w.off + w.size
	}
	if total >= 0 {
		if pos > total {
			return nil, false
		}
		if pos < total {
			out = append(out, emitField{size: linConst(total - pos), what: "bytes", marker: -1})
		}
	} else {
		out = append(out, emitField{size: n.add(linConst(-pos)), what: "bytes", marker: -1})
	}
	return out, true
}

// byteOfWord: v is byte(x >> s) (or byte(x), s = 0; an `& 0xFF` mask is transparent).
func byteOfWord(v ssa.Value) (x ssa.Value, shift int64, ok bool) {
	cv, isCv := v.(*ssa.Convert)
	if !isCv || !isByteBasic(cv.Type()) {
		return nil, 0, false
	}
	y := cv.X
	if bo, isBo := y.(*ssa.BinOp); isBo && bo.Op == token.AND {
		if k, okk := constIntOr(bo.Y, -1); okk && k == 0xFF {
			y = bo.X
		}
	}
	if bo, isBo := y.(*ssa.BinOp); isBo && bo.Op == token.SHR {
		if k, okk := constIntOr(bo.Y, -1); okk && k > 0 && k%8 == 0 {
			return bo.X, k, true
		}
		return nil, 0, false
	}
	if _, isConst := y.(*ssa.Const); isConst {
		return nil, 0, false
	}
	return y, 0, true
}

// mergeByteSplits: adjacent one-byte stores of byte(x>>8), byte(x) (or the four bytes of a 32-bit x,
// most significant first) are one big-endian field holding x.
func mergeByteSplits(ws []stagedWrite) []stagedWrite {
	var out []stagedWrite
	for i := 0; i < len(ws); i++ {
		w := ws[i]
		merged := false
		if !w.opaque && w.size == 1 && w.field.val != nil {
			if x, sh, ok := byteOfWord(w.field.val); ok && (sh == 8 || sh == 24) {
				n := int(sh/8) + 1
				if i+n <= len(ws) {
					good := true
					for j := 1; j < n; j++ {
						nx := ws[i+j]
						if nx.opaque || nx.size != 1 || nx.off != w.off+int64(j) || nx.field.val == nil {
							good = false
							break
						}
						x2, sh2, ok2 := byteOfWord(nx.field.val)
						if !ok2 || x2 != x || sh2 != sh-int64(8*j) {
							good = false
							break
						}
					}
					if good {
						out = append(out, stagedWrite{off: w.off, size: int64(n), field: emitFieldOf(int64(n), x)})
						i += n - 1
						merged = true
					}
				}
			}
		}
		if !merged {
			out = append(out, w)
		}
	}
	return out
}

// chainFields: the fields of a byte slice built by a chain of appends ending in v.
func chainFields(fn *ssa.Function, v ssa.Value, stop ssa.Value, depth int) ([]emitField, bool) {
	if depth > 40 {
		return nil, false
	}
	if stop != nil && v == stop {
		return nil, true
	}
	switch x := v.(type) {
	case *ssa.Const:
		if x.IsNil() {
			return nil, true
		}
	case *ssa.MakeSlice:
		if k, ok := constIntOr(x.Len, -1); ok && k == 0 && x.Len != nil {
			return nil, true
		}
		return stagedFields(x, nil)
	case *ssa.Slice:
		if k, ok := constIntOr(x.High, -1); ok && k == 0 && x.High != nil {
			return nil, true // b[:0]
		}
		if fs, ok := stagedFields(x, nil); ok {
			return fs, true
		}
	case *ssa.Parameter:
		if isByteSlice(x.Type()) {
			return []emitField{{size: linTerm("len(" + sliceIdentity(x) + ")"), val: x, what: "bytes", marker: -1}}, true
		}
	case *ssa.Call:
		if kind, width, buf, val, ok := putCall(x); ok && kind == "Append" {
			prev, ok := chainFields(fn, buf, stop, depth+1)
			if !ok {
				return nil, false
			}
			return append(prev, emitFieldOf(width, val)), true
		}
		if b, isB := x.Call.Value.(*ssa.Builtin); isB && b.Name() == "append" && len(x.Call.Args) >= 1 {
			prev, ok := chainFields(fn, x.Call.Args[0], stop, depth+1)
			if !ok {
				return nil, false
			}
			if len(x.Call.Args) == 1 {
				return prev, true
			}
			s := x.Call.Args[1]
			// append(b, x, y): a varargs array filled by stores
			if sl, isSl := s.(*ssa.Slice); isSl {
				if al, isAl := sl.X.(*ssa.Alloc); isAl && al.Comment == "varargs" && al.Referrers() != nil {
					at, _ := al.Type().(*types.Pointer).Elem().Underlying().(*types.Array)
					if at == nil {
						return nil, false
					}
					elems := make([]ssa.Value, at.Len())
					for _, r := range *al.Referrers() {
						ia, ok := r.(*ssa.IndexAddr)
						if !ok || ia.Referrers() == nil {
							continue
						}
						k, ok := constIntOr(ia.Index, -1)
						if !ok || k < 0 || k >= at.Len() {
							return nil, false
						}
						for _, u := range *ia.Referrers() {
							if st, ok := u.(*ssa.Store); ok {
								elems[k] = st.Val
							}
						}
					}
					for _, e := range elems {
						prev = append(prev, emitFieldOf(1, e))
					}
					return prev, true
				}
			}
			if bt, isStr := s.Type().Underlying().(*types.Basic); isStr && bt.Info()&types.IsString != 0 {
				if k, ok := s.(*ssa.Const); ok && k.Value != nil && k.Value.Kind() == constant.String {
					return append(prev, emitField{size: linConst(int64(len(constant.StringVal(k.Value)))), val: s, what: "bytes", marker: -1}), true
				}
				return nil, false
			}
			return append(prev, emitField{size: linTerm("len(" + sliceIdentity(s) + ")"), val: s, what: "bytes", marker: -1}), true
		}
	case *ssa.Phi:
		// loop-carried accumulator: fields of one iteration times the trip count
		loops := naturalLoops(fn)
		var l *natLoop
		for _, cand := range loops {
			if cand.Header == x.Block() {
				l = cand
			}
		}
		if l == nil {
			return nil, false
		}
		var outside, inside ssa.Value
		for i, e := range x.Edges {
			if l.Blocks[x.Block().Preds[i]] {
				if inside != nil && inside != e {
					return nil, false
				}
				inside = e
			} else {
				if outside != nil && outside != e {
					return nil, false
				}
				outside = e
			}
		}
		if inside == nil || outside == nil {
			return nil, false
		}
		prev, ok := chainFields(fn, outside, stop, depth+1)
		if !ok {
			return nil, false
		}
		body, ok := chainFields(fn, inside, x, depth+1)
		if !ok {
			return nil, false
		}
		trip, ok := tripOfLoop(l)
		if !ok {
			return nil, false
		}
		for _, f := range body {
			f.size = f.size.mulTerm(trip)
			if f.size.bad {
				return nil, false
			}
			if f.what == "marker" {
				f.what = "value"
			}
			prev = append(prev, f)
		}
		return prev, true
	}
	return nil, false
}

// tripOfLoop: the linear trip count of a counted / range loop (the bound of its exiting `<` test).
func tripOfLoop(l *natLoop) (linear, bool) {
	for _, b := range l.ordered() {
		cond, ok := ifCond(b).(*ssa.BinOp)
		if !ok || cond.Op != token.LSS {
			continue
		}
		exits := false
		for _, s := range b.Succs {
			if !l.Blocks[s] {
				exits = true
			}
		}
		if !exits {
			continue
		}
		if n := linearOf(cond.Y, 0); !n.bad {
			return n, true
		}
	}
	return linear{bad: true}, false
}

// expandWrite: a write of a whole byte slice is replaced by the fields of the staged buffer or
// append chain behind it, when it is one.
func expandWrite(fn *ssa.Function, w sinkWrite) []sinkWrite {
	if w.what != "bytes" || w.val == nil {
		return []sinkWrite{w}
	}
	var fs []emitField
	ok := false
	switch w.val.(type) {
	case *ssa.Call, *ssa.Phi:
		fs, ok = chainFields(fn, w.val, nil, 0)
	default:
		fs, ok = stagedFields(w.val, w.ins)
	}
	if !ok || len(fs) == 0 {
		return []sinkWrite{w}
	}
	// Only a buffer that carries a marker is taken apart (the marker and the fields after it are
	// what the rules look at); any other buffer stays one opaque run of len(v) bytes, so that a
	// length field computed as len(v)+2 is compared with the same term.
	hasMarker := false
	for _, f := range fs {
		if f.what == "marker" {
			hasMarker = true
		}
	}
	if !hasMarker {
		// … except a small fixed array filled by one Put call (var l [2]byte; BE.PutUint16(l[:], n);
		// buf.Write(l[:])): that is the field-by-field idiom with a detour, its length is a constant
		base, _, okb := stagedBase(w.val)
		_, isArr := base.(*ssa.Alloc)
		if !(okb && isArr && len(fs) == 1 && fs[0].what == "value" && !fs[0].size.bad && len(fs[0].size.terms) == 0 && fs[0].size.k <= 8) {
			return []sinkWrite{w}
		}
	}
	var out []sinkWrite
	for _, f := range fs {
		out = append(out, sinkWrite{ins: w.ins, what: f.what, val: f.val, size: f.size, marker: f.marker, callee: w.callee + " (staged field)"})
	}
	return out
}

// isSinkType: *bytes.Buffer, io.Writer, *standard.Writer.
func isSinkType(t types.Type) bool {
	s := t.String()
	return strings.HasSuffix(s, "bytes.Buffer") || strings.HasSuffix(s, "standard.Writer") || s == "io.Writer"
}

// outputSinks: every sink value fn writes to (directly or by handing it to a helper).
func outputSinks(fn *ssa.Function) []ssa.Value {
	seen := map[ssa.Value]bool{}
	var out []ssa.Value
	add := func(v ssa.Value) {
		if v != nil && !seen[v] {
			seen[v] = true
			out = append(out, v)
		}
	}
	for _, b := range fn.Blocks {
		for _, ins := range b.Instrs {
			call, ok := ins.(ssa.CallInstruction)
			if !ok {
				continue
			}
			cc := call.Common()
			sc := cc.StaticCallee()
			if sc == nil || len(cc.Args) == 0 {
				continue
			}
			name := sc.String()
			switch {
			case name == "encoding/binary.Write":
				add(unwrapIface(cc.Args[0]))
			case strings.Contains(name, "standard.Writer).Write") || strings.HasPrefix(name, "(*bytes.Buffer).Write"):
				add(cc.Args[0])
			case load.InScope(sc):
				for _, a := range cc.Args {
					if isSinkType(unwrapIface(a).Type()) {
						add(unwrapIface(a))
					}
				}
			}
		}
	}
	return out
}

// segmentHelper: callee writes [uint16 parameter][16-bit value][[]byte parameter] and nothing else
// to its sink parameter — a generic marker-segment writer. Returns the parameter indices.
type segHelper struct {
	ok                 bool
	sink, marker, body int
}

var segHelperMemo = map[*ssa.Function]segHelper{}

func segmentHelper(sc *ssa.Function) segHelper {
	if h, ok := segHelperMemo[sc]; ok {
		return h
	}
	segHelperMemo[sc] = segHelper{}
	if sc.Blocks == nil || !load.InScope(sc) {
		return segHelper{}
	}
	h := segHelper{sink: -1, marker: -1, body: -1}
	for i, p := range sc.Params {
		if isSinkType(p.Type()) && h.sink < 0 {
			h.sink = i
		}
	}
	if h.sink < 0 {
		return segHelper{}
	}
	ws, ordered := sinkWritesOf(sc, sc.Params[h.sink])
	if !ordered || len(ws) != 3 {
		return segHelper{}
	}
	// marker and payload are parameters, or fields of a parameter (a builder object: s.marker, s.payload)
	fromParam := func(v ssa.Value) (int, bool) {
		v = stripConv(v)
		if pi := paramIndex(sc, v); pi >= 0 {
			return pi, true
		}
		if u, ok := v.(*ssa.UnOp); ok && u.Op == token.MUL {
			if fa, ok := u.X.(*ssa.FieldAddr); ok && paramIndex(sc, fa.X) >= 0 {
				return -2, true
			}
		}
		return -1, false
	}
	okM, okB := false, false
	h.marker, okM = fromParam(ws[0].val)
	h.body = -1
	if ws[2].what == "bytes" && ws[2].val != nil && isByteSlice(ws[2].val.Type()) {
		h.body, okB = fromParam(ws[2].val)
	}
	if !okM || !okB || !ws[0].size.equal(linConst(2)) || !ws[1].size.equal(linConst(2)) {
		return segHelper{}
	}
	h.ok = true
	segHelperMemo[sc] = h
	return h
}

// j2kSegmentMarkers: JPEG 2000 marker codes that carry a length field.
var j2kSegmentMarkers = map[int64]string{
	0xFF50: "CAP", 0xFF51: "SIZ", 0xFF52: "COD", 0xFF53: "COC", 0xFF55: "TLM", 0xFF57: "PLM", 0xFF58: "PLT",
	0xFF5C: "QCD", 0xFF5D: "QCC", 0xFF5E: "RGN", 0xFF5F: "POC", 0xFF60: "PPM", 0xFF61: "PPT", 0xFF63: "CRG",
	0xFF64: "COM", 0xFF74: "MCT", 0xFF75: "MCC", 0xFF77: "MCO", 0xFF78: "CBD", 0xFF90: "SOT",
}

// sotHelper: callee writes exactly one SOT segment (marker, Lsot, Isot, Psot, TPsot, TNsot) to its
// sink parameter; psot is the Psot value as a linear expression over the callee's parameters.
type sotHelperInfo struct {
	ok         bool
	sink, isot int
	psot       linear
}

var sotHelperMemo = map[*ssa.Function]sotHelperInfo{}

func sotHelper(sc *ssa.Function) sotHelperInfo {
	if h, ok := sotHelperMemo[sc]; ok {
		return h
	}
	sotHelperMemo[sc] = sotHelperInfo{}
	if sc.Blocks == nil || !load.InScope(sc) {
		return sotHelperInfo{}
	}
	h := sotHelperInfo{sink: -1, isot: -1}
	for i, p := range sc.Params {
		if isSinkType(p.Type()) && h.sink < 0 {
			h.sink = i
		}
	}
	if h.sink < 0 {
		return sotHelperInfo{}
	}
	ws, ordered := sinkWritesOf(sc, sc.Params[h.sink])
	if !ordered || len(ws) != 6 || ws[0].what != "marker" || ws[0].marker != mSOT {
		return sotHelperInfo{}
	}
	sizes := []int64{2, 2, 2, 4, 1, 1}
	for i, w := range ws {
		if !w.size.equal(linConst(sizes[i])) {
			return sotHelperInfo{}
		}
	}
	if k, ok := constIntOr(stripConv(ws[1].val), -1); !ok || k != 10 {
		return sotHelperInfo{} // Lsot is checked where the helper itself is examined
	}
	h.psot = linearOf(ws[3].val, 0)
	h.isot = paramIndex(sc, stripConv(ws[2].val))
	h.ok = true
	sotHelperMemo[sc] = h
	return h
}

// substParams rewrites the parameter terms of l with the linear forms of the call's arguments.
func substParams(l linear, callee *ssa.Function, args []ssa.Value) linear {
	if l.bad {
		return l
	}
	out := linConst(l.k)
	for t, c := range l.terms {
		sub := linear{terms: map[string]int64{t: 1}}
		if strings.HasPrefix(t, "@") {
			for i, p := range callee.Params {
				if t == "@"+valKey(p) && i < len(args) {
					sub = linearOf(args[i], 0)
				}
			}
		}
		out = out.add(sub.scale(c))
	}
	return out
}

var markerOnlyMemo = map[*ssa.Function]int64{}
var markerOnlyBusy = map[*ssa.Function]bool{}

// markerOnlyHelper: callee writes nothing but one constant marker to the sink it is handed
// (writeSOD(buf)); returns the marker or -1.
func markerOnlyHelper(sc *ssa.Function, sink ssa.Value, args []ssa.Value) int64 {
	if sc.Blocks == nil || !load.InScope(sc) || len(args) != len(sc.Params) {
		return -1
	}
	if m, ok := markerOnlyMemo[sc]; ok && m >= 0 {
		return m
	}
	if markerOnlyBusy[sc] {
		return -1
	}
	markerOnlyBusy[sc] = true
	defer delete(markerOnlyBusy, sc)
	si := -1
	for i, a := range args {
		if unwrapIface(a) == sink && isSinkType(sc.Params[i].Type()) {
			si = i
		}
	}
	if si < 0 {
		return -1
	}
	ws, ordered := sinkWritesOf(sc, sc.Params[si])
	if !ordered || len(ws) != 1 || ws[0].what != "marker" {
		return -1
	}
	if ws[0].marker == -2 {
		// appendMarker(buf, m): the marker is the helper's own parameter
		if pi := paramIndex(sc, stripConv(ws[0].val)); pi >= 0 && pi < len(args) {
			if m := constMarker(args[pi]); m >= 0xFF00 {
				return m // not memoised: depends on the call
			}
		}
		return -1
	}
	if ws[0].marker < 0xFF00 {
		return -1
	}
	markerOnlyMemo[sc] = ws[0].marker
	return ws[0].marker
}

// markerParamHelper: callee writes nothing but one marker to the sink it is handed and takes the
// marker code as a parameter (writeMarker(buf, m)); returns the index of that argument.
func markerParamHelper(sc *ssa.Function, sink ssa.Value, args []ssa.Value) (int, bool) {
	if sc.Blocks == nil || !load.InScope(sc) || len(args) != len(sc.Params) || markerOnlyBusy[sc] {
		return -1, false
	}
	markerOnlyBusy[sc] = true
	defer delete(markerOnlyBusy, sc)
	si := -1
	for i, a := range args {
		if unwrapIface(a) == sink && isSinkType(sc.Params[i].Type()) {
			si = i
		}
	}
	if si < 0 {
		return -1, false
	}
	ws, ordered := sinkWritesOf(sc, sc.Params[si])
	if !ordered || len(ws) != 1 || ws[0].what != "marker" || ws[0].marker != -2 {
		return -1, false
	}
	pi := paramIndex(sc, stripConv(ws[0].val))
	if pi < 0 || pi >= len(args) {
		return -1, false
	}
	return pi, true
}

var plainBodyBusy = map[*ssa.Function]bool{}

// plainBodyHelper: callee writes a fixed sequence to the sink it is handed — constant markers,
// constant-size values and whole byte-slice parameters — straight-line (every write executed
// exactly once on every successful path: totally ordered by dominance, none inside a loop), like
//
//	func writeTilePartBody(buf *bytes.Buffer, header, data []byte) error { buf.Write(header); SOD; buf.Write(data) }
//
// The call is replaced by those writes with the byte-slice sizes expressed in the caller's terms, so
// that the tile-part / segment counters see through it.
func plainBodyHelper(sc *ssa.Function, sink ssa.Value, call ssa.CallInstruction) ([]sinkWrite, bool) {
	args := call.Common().Args
	if sc.Blocks == nil || !load.InScope(sc) || len(args) != len(sc.Params) || plainBodyBusy[sc] || markerOnlyBusy[sc] {
		return nil, false
	}
	plainBodyBusy[sc] = true
	defer delete(plainBodyBusy, sc)
	si := -1
	for i, a := range args {
		if unwrapIface(a) == sink && isSinkType(sc.Params[i].Type()) {
			if si >= 0 {
				return nil, false
			}
			si = i
		}
	}
	if si < 0 {
		return nil, false
	}
	ws, ordered := sinkWritesOf(sc, sc.Params[si])
	if !ordered || len(ws) == 0 {
		return nil, false
	}
	loops := naturalLoops(sc)
	var out []sinkWrite
	for _, w := range ws {
		for _, l := range loops {
			if l.Blocks[w.ins.Block()] {
				return nil, false
			}
		}
		if !onEverySuccessfulPath(sc, w.ins) {
			return nil, false
		}
		nw := sinkWrite{ins: call, what: w.what, marker: w.marker, callee: sc.String() + " → " + w.callee}
		switch w.what {
		case "marker":
			// only stand-alone markers (SOD, EOC, …): a helper that writes a length-bearing segment is
			// examined where it stands, its bytes are not re-counted in every caller
			if _, bearing := j2kSegmentMarkers[w.marker]; w.marker < 0xFF00 || bearing || w.marker == mSOT {
				return nil, false
			}
			nw.size = linConst(2)
		case "value":
			if w.size.bad || len(w.size.terms) != 0 || w.decl != nil {
				return nil, false
			}
			nw.size = w.size
			if pi := paramIndex(sc, stripConv(w.val)); pi >= 0 && w.val != nil {
				nw.val = args[pi]
			}
		case "bytes":
			pi := -1
			if w.val != nil {
				pi = paramIndex(sc, w.val)
			}
			if pi < 0 || !isByteSlice(sc.Params[pi].Type()) {
				return nil, false
			}
			nw.val = args[pi]
			nw.size = linTerm("len(" + sliceIdentity(args[pi]) + ")")
		default:
			return nil, false
		}
		out = append(out, nw)
	}
	return out, true
}

// onEverySuccessfulPath: ins is executed before every return of fn that may carry a nil error (or
// before every return, when fn has no error result).
func onEverySuccessfulPath(fn *ssa.Function, ins ssa.Instruction) bool {
	ei := errorResultIndex(fn)
	n := 0
	for _, b := range fn.Blocks {
		if len(b.Instrs) == 0 {
			continue
		}
		ret, ok := b.Instrs[len(b.Instrs)-1].(*ssa.Return)
		if !ok {
			continue
		}
		if ei >= 0 && definitelyNonNilError(ret, ei) {
			continue
		}
		n++
		if instrDominates(ins, ret) {
			continue
		}
		if ei >= 0 && dominatesOnNilPaths(fn, ins, ret, ei) {
			continue
		}
		return false
	}
	return n > 0
}
