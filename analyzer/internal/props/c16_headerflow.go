package props

import (
	"fmt"
	"go/token"
	"go/types"
	"sort"
	"strings"

	"golang.org/x/tools/go/ssa"

	"dcmcheck/internal/load"
	"dcmcheck/internal/report"
)

// FLOWS-HEADER (DESIGN §4 C16 rule 5): "its frame header declares exactly the width, height,
// component count, precision (and NEAR, predictor, quality-derived tables) that were given to the
// encoder". Decided: the information-flow necessary condition — every integer argument of a
// package-level Encode function that shapes the coded data must have a data path into a byte
// written by a header-writing function (a function that emits a marker), or into an external
// stream producer (image/jpeg.Encode). A header that cannot vary with an argument the scan does
// vary with cannot declare that argument.
//
// The flow is a forward, field-based, context-insensitive value-flow closure over the SSA of the
// whole library (an over-approximation of data dependence: containers are conflated with their
// contents). Verdicts:
//   discharged   – a value derived from the argument is stored / passed inside a header-writing function
//   out-of-scope – no such data path, but a header-writing function branches on a derived value
//                  (control dependence is not decided), or the argument is a pure selector (never
//                  consumed by arithmetic, allocation or indexing)
//   violated     – the argument is consumed by arithmetic / allocation / indexing somewhere, and no
//                  value derived from it is stored, passed or tested in any header-writing function

type hfKey struct {
	fld *types.Var // struct field (field-based heap)
}

type headerFlow struct {
	c         *Ctx
	funcs     []*ssa.Function
	inScope   map[*ssa.Function]bool
	fieldRefs map[*types.Var][]ssa.Value // FieldAddr / Field instructions per field
	hdrFn     map[*ssa.Function]int      // header-writing functions -> classes of the markers they emit
	hdrCtx    map[*ssa.Function]int      // per run: helpers a header-writing function hands a derived value to
	allowed   map[*ssa.Function]bool     // per run: the flow stays inside what the entry point reaches
	sinkCls   int                        // classes of the header writers a derived value was stored / written in
	ctlCls    int
	// per run
	seen     map[ssa.Value]bool
	seenFld  map[*types.Var]bool
	work     []ssa.Value
	sink     string
	ctl      string
	dataUse  string
	external string
}

func (c *Ctx) newHeaderFlow() *headerFlow {
	h := &headerFlow{c: c, inScope: map[*ssa.Function]bool{}, fieldRefs: map[*types.Var][]ssa.Value{}, hdrFn: map[*ssa.Function]int{}}
	h.funcs = c.scopeFuncs()
	for _, fn := range h.funcs {
		h.inScope[fn] = true
		for _, b := range fn.Blocks {
			for _, ins := range b.Instrs {
				if v, ok := ins.(ssa.Value); ok {
					if _, f, _, ok := fieldOf(v); ok {
						h.fieldRefs[f] = append(h.fieldRefs[f], v)
					}
				}
				// a header-writing function emits a marker: some call argument or stored value is a
				// 16-bit constant in the marker range
				switch x := ins.(type) {
				case ssa.CallInstruction:
					for _, a := range x.Common().Args {
						h.hdrFn[fn] |= markerClass(a)
					}
				case *ssa.Store:
					h.hdrFn[fn] |= markerClass(x.Val)
				}
			}
		}
	}
	return h
}

// marker classes
const (
	mcOther = 1 << iota // any length-bearing marker segment
	mcFrame             // SOFn / SOF55 / SIZ: the frame header
	mcScan              // SOS: scan header (NEAR, predictor, interleave)
)

func markerClass(v ssa.Value) int {
	if !isMarkerConst(v) {
		return 0
	}
	if mi, ok := v.(*ssa.MakeInterface); ok {
		v = mi.X
	}
	m := constMarker(v)
	switch {
	case m == 0xFF51, m == 0xFFF7:
		return mcOther | mcFrame
	case m >= 0xFFC0 && m <= 0xFFCF && m != 0xFFC4 && m != 0xFFC8 && m != 0xFFCC:
		return mcOther | mcFrame
	case m == 0xFFDA:
		return mcOther | mcScan
	}
	return mcOther
}

func isMarkerConst(v ssa.Value) bool {
	if mi, ok := v.(*ssa.MakeInterface); ok {
		v = mi.X
	}
	m := constMarker(v)
	if m < 0xFF01 || m > 0xFFFE {
		return false
	}
	// stand-alone markers (SOI, EOI, RSTn, TEM; SOC, SOD, EPH, EOC) carry no header fields: the
	// top-level framing function that writes them is not a header writer
	if standaloneJPEGMarker(m) || m == 0xFF4F || m == 0xFF93 || m == 0xFF92 || m == 0xFFD9 || m == 0xFF01 {
		return false
	}
	bt, ok := stripConv(v).Type().Underlying().(*types.Basic)
	return ok && (bt.Kind() == types.Uint16 || bt.Kind() == types.UntypedInt || bt.Kind() == types.Int)
}

func (h *headerFlow) reset() {
	h.seen = map[ssa.Value]bool{}
	h.seenFld = map[*types.Var]bool{}
	h.work = nil
	h.hdrCtx = map[*ssa.Function]int{}
	h.sinkCls, h.ctlCls = 0, 0
	h.sink, h.ctl, h.dataUse, h.external = "", "", "", ""
}

func (h *headerFlow) mark(v ssa.Value) {
	if v == nil || h.seen[v] {
		return
	}
	if _, isConst := v.(*ssa.Const); isConst {
		return
	}
	if v.Type().String() == "error" {
		return // an error value is not the data
	}
	if h.allowed != nil {
		var par *ssa.Function
		switch x := v.(type) {
		case ssa.Instruction:
			par = x.Parent()
		case *ssa.Parameter:
			par = x.Parent()
		case *ssa.FreeVar:
			par = x.Parent()
		}
		if par != nil && !h.allowed[par] {
			return
		}
	}
	h.seen[v] = true
	h.work = append(h.work, v)
}

func (h *headerFlow) markField(f *types.Var) {
	if f == nil || h.seenFld[f] {
		return
	}
	h.seenFld[f] = true
	for _, r := range h.fieldRefs[f] {
		h.mark(r)
	}
}

// markRoot marks the container an address / slice value belongs to.
func (h *headerFlow) markRoot(addr ssa.Value, depth int) {
	if addr == nil || depth > 12 {
		return
	}
	switch x := addr.(type) {
	case *ssa.IndexAddr:
		h.markRoot(x.X, depth+1)
	case *ssa.Slice:
		h.markRoot(x.X, depth+1)
	case *ssa.FieldAddr:
		if _, f, _, ok := fieldOf(x); ok {
			h.markField(f)
		}
	case *ssa.UnOp:
		if x.Op == token.MUL {
			// a slice / pointer loaded from a cell: the cell's content is the container
			h.markRoot(x.X, depth+1)
			h.mark(x)
			return
		}
		h.mark(x)
	case *ssa.ChangeType:
		h.markRoot(x.X, depth+1)
	case *ssa.Convert:
		h.markRoot(x.X, depth+1)
	case *ssa.MakeInterface:
		h.markRoot(x.X, depth+1)
	case *ssa.Parameter:
		h.mark(x)
		// the caller's container
		fn := x.Parent()
		idx := -1
		for i, p := range fn.Params {
			if p == x {
				idx = i
			}
		}
		if n := h.c.P.CG.Nodes[fn]; n != nil && idx >= 0 {
			for _, e := range n.In {
				if e.Site == nil {
					continue
				}
				args := e.Site.Common().Args
				if e.Site.Common().IsInvoke() {
					if idx == 0 {
						h.markRoot(e.Site.Common().Value, depth+1)
					} else if idx-1 < len(args) {
						h.markRoot(args[idx-1], depth+1)
					}
				} else if idx < len(args) {
					h.markRoot(args[idx], depth+1)
				}
			}
		}
	case *ssa.FreeVar:
		h.mark(x)
		fn := x.Parent()
		idx := -1
		for i, fv := range fn.FreeVars {
			if fv == x {
				idx = i
			}
		}
		if par := fn.Parent(); par != nil && idx >= 0 {
			for _, b := range par.Blocks {
				for _, ins := range b.Instrs {
					if mc, ok := ins.(*ssa.MakeClosure); ok && mc.Fn == fn && idx < len(mc.Bindings) {
						h.markRoot(mc.Bindings[idx], depth+1)
					}
				}
			}
		}
	default:
		h.mark(addr)
	}
}

func arithOp(op token.Token) bool {
	switch op {
	case token.ADD, token.SUB, token.MUL, token.QUO, token.REM, token.SHL, token.SHR, token.AND, token.OR, token.XOR, token.AND_NOT:
		return true
	}
	return false
}

func (h *headerFlow) note(slot *string, fn *ssa.Function, ins ssa.Instruction, what string) {
	if *slot == "" {
		*slot = fmt.Sprintf("%s in %s at %s", what, load.FuncName(fn), h.c.P.Pos(ins.Pos()))
	}
}

// step processes the uses of one reached value.
func (h *headerFlow) step(v ssa.Value) {
	refs := v.Referrers()
	if refs == nil {
		return
	}
	for _, r := range *refs {
		fn := r.Parent()
		cls := h.hdrFn[fn] | h.hdrCtx[fn]
		hdr := cls != 0
		switch x := r.(type) {
		case *ssa.BinOp:
			if arithOp(x.Op) {
				h.note(&h.dataUse, fn, x, "arithmetic "+x.Op.String())
			}
			h.mark(x)
		case *ssa.UnOp:
			h.mark(x)
		case *ssa.Convert:
			h.mark(x)
		case *ssa.ChangeType:
			h.mark(x)
		case *ssa.ChangeInterface:
			h.mark(x)
		case *ssa.MakeInterface:
			h.mark(x)
		case *ssa.TypeAssert:
			h.mark(x)
		case *ssa.Phi:
			h.mark(x)
		case *ssa.Extract:
			h.mark(x)
		case *ssa.Field:
			h.mark(x)
		case *ssa.Index:
			if x.X == v {
				h.mark(x)
			} else {
				h.note(&h.dataUse, fn, x, "index")
			}
		case *ssa.Lookup:
			h.mark(x)
		case *ssa.IndexAddr:
			if x.X == v {
				h.mark(x)
			} else {
				h.note(&h.dataUse, fn, x, "index")
			}
		case *ssa.Slice:
			h.mark(x)
		case *ssa.FieldAddr:
			// a pointer to a struct is not its fields
		case *ssa.MakeSlice:
			h.note(&h.dataUse, fn, x, "allocation size")
		case *ssa.If:
			if hdr {
				if h.ctl == "" || cls&^h.ctlCls != 0 {
					h.ctl = fmt.Sprintf("branch in %s at %s", load.FuncName(fn), h.c.P.Pos(v.Pos()))
				}
				h.ctlCls |= cls
			}
		case *ssa.Store:
			if x.Val == v {
				if hdr && isByteBasic(x.Val.Type()) {
					if ia, ok := x.Addr.(*ssa.IndexAddr); ok {
						_ = ia
						h.noteSink(cls, fn, x, "stored into a byte buffer")
					}
				}
				h.markRoot(x.Addr, 0)
			}
		case *ssa.MapUpdate:
			if x.Value == v || x.Key == v {
				h.markRoot(x.Map, 0)
			}
		case *ssa.Return:
			idx := -1
			for i, rv := range x.Results {
				if rv == v {
					idx = i
				}
			}
			if n := h.c.P.CG.Nodes[fn]; n != nil && idx >= 0 {
				for _, e := range n.In {
					if e.Site == nil {
						continue
					}
					if cv := e.Site.Value(); cv != nil {
						if len(x.Results) == 1 {
							h.mark(cv)
						} else if crefs := cv.Referrers(); crefs != nil {
							for _, cr := range *crefs {
								if ex, ok := cr.(*ssa.Extract); ok && ex.Index == idx {
									h.mark(ex)
								}
							}
						}
					}
				}
			}
		case *ssa.MakeClosure:
			for i, b := range x.Bindings {
				if b == v {
					if cf, ok := x.Fn.(*ssa.Function); ok && i < len(cf.FreeVars) {
						h.mark(cf.FreeVars[i])
					}
				}
			}
		case ssa.CallInstruction:
			h.call(fn, x, v, cls)
		}
	}
}

func (h *headerFlow) noteSink(cls int, fn *ssa.Function, ins ssa.Instruction, what string) {
	if h.sink == "" || cls&^h.sinkCls != 0 {
		h.sink = fmt.Sprintf("%s in %s at %s", what, load.FuncName(fn), h.c.P.Pos(ins.Pos()))
	}
	h.sinkCls |= cls
}

func (h *headerFlow) call(fn *ssa.Function, call ssa.CallInstruction, v ssa.Value, cls int) {
	hdr := cls != 0
	com := call.Common()
	argIdx := []int{}
	for i, a := range com.Args {
		if a == v {
			argIdx = append(argIdx, i)
		}
	}
	isRecv := com.IsInvoke() && com.Value == v
	if len(argIdx) == 0 && !isRecv {
		return
	}
	// builtins
	if b, ok := com.Value.(*ssa.Builtin); ok {
		switch b.Name() {
		case "append":
			if cv := call.Value(); cv != nil {
				h.mark(cv)
				if hdr && isByteSlice(cv.Type()) && len(argIdx) > 0 && argIdx[0] > 0 {
					h.noteSink(cls, fn, call, "appended to a byte buffer")
				}
			}
		case "copy":
			if len(com.Args) == 2 && com.Args[1] == v {
				h.markRoot(com.Args[0], 0)
			}
		case "min", "max":
			if cv := call.Value(); cv != nil {
				h.mark(cv)
			}
		}
		return
	}
	var callees []*ssa.Function
	if sc := com.StaticCallee(); sc != nil {
		callees = []*ssa.Function{sc}
	} else if n := h.c.P.CG.Nodes[fn]; n != nil {
		for _, e := range n.Out {
			if e.Site == call && e.Callee.Func != nil {
				callees = append(callees, e.Callee.Func)
			}
		}
	}
	entered := false
	for _, cal := range callees {
		if cal.Blocks == nil || !(h.inScope[cal] || load.IsModule(load.FuncPkgPath(cal))) {
			if p := load.FuncPkgPath(cal); (p == "image/jpeg" || p == "image/png") && cal.Name() == "Encode" {
				h.note(&h.external, fn, call, "handed to "+cal.String())
			}
			continue
		}
		entered = true
		if hdr && len(argIdx) > 0 && h.hdrCtx[cal]|cls != h.hdrCtx[cal] {
			h.hdrCtx[cal] |= cls
			// values already seen inside the callee are looked at again in the new context
			for sv := range h.seen {
				if in, ok := sv.(ssa.Instruction); ok && in.Parent() == cal {
					h.work = append(h.work, sv)
				} else if pp, ok := sv.(*ssa.Parameter); ok && pp.Parent() == cal {
					h.work = append(h.work, sv)
				}
			}
		}
		for _, i := range argIdx {
			pi := i
			if com.IsInvoke() {
				pi = i + 1
			}
			if pi < len(cal.Params) {
				h.mark(cal.Params[pi])
			}
		}
		if isRecv && len(cal.Params) > 0 {
			h.mark(cal.Params[0])
		}
	}
	if !entered {
		if hdr && len(argIdx) > 0 && len(callees) > 0 {
			if p := load.FuncPkgPath(callees[0]); p == "encoding/binary" || p == "bytes" || p == "io" || p == "bufio" {
				h.noteSink(cls, fn, call, "written with "+calleeName(com))
			}
		}
		// a callee that is not analysed: its result and the containers it was handed depend on the
		// argument. Two exceptions: the length of a container says nothing about its content, and an
		// output stream (io.Writer, *standard.Writer, *bufio.Writer) ends the flow — what was written
		// to it is not read back (a *bytes.Buffer is a staging container and is followed).
		nm := calleeName(com)
		if strings.HasSuffix(nm, ".Len") || strings.HasSuffix(nm, ".Cap") || nm == "Len" || nm == "Cap" {
			return
		}
		// a write into a stream or staging buffer returns a count / an error, not the data
		intoWriter := false
		for _, a := range com.Args {
			if a != v && (isStreamType(a.Type()) || isSinkType(a.Type())) {
				intoWriter = true
			}
		}
		if com.IsInvoke() && com.Value != v && (isStreamType(com.Value.Type()) || isSinkType(com.Value.Type())) {
			intoWriter = true
		}
		if cv := call.Value(); cv != nil && !intoWriter {
			h.mark(cv)
		}
		for _, a := range com.Args {
			if a != v && pointerLikeType(a.Type()) && !isStreamType(a.Type()) {
				h.markRoot(a, 0)
			}
		}
		if com.IsInvoke() && com.Value != v && !isStreamType(com.Value.Type()) {
			h.markRoot(com.Value, 0)
		}
	}
}

func isStreamType(t types.Type) bool {
	s := t.String()
	return s == "io.Writer" || strings.HasSuffix(s, "standard.Writer") || strings.HasSuffix(s, "bufio.Writer") || s == "io.ByteWriter"
}

func calleeName(com *ssa.CallCommon) string {
	if sc := com.StaticCallee(); sc != nil {
		return sc.String()
	}
	if com.IsInvoke() {
		return com.Method.Name()
	}
	return "function value"
}

func (h *headerFlow) run(seeds []ssa.Value, flds []*types.Var) {
	h.reset()
	for _, s := range seeds {
		h.mark(s)
	}
	for _, f := range flds {
		h.markField(f)
	}
	for len(h.work) > 0 {
		v := h.work[len(h.work)-1]
		h.work = h.work[:len(h.work)-1]
		h.step(v)
	}
}

func (h *headerFlow) verdict(need int, needName string) (report.Status, string) {
	if h.external != "" {
		return report.Discharged, "it is " + h.external + ", which writes the header"
	}
	if h.sink != "" && h.sinkCls&need == need {
		return report.Discharged, "a value derived from it is " + h.sink + " (header-writing function)"
	}
	if h.ctl != "" && h.ctlCls&need == need {
		return report.OutOfScope, "no data path into the " + needName + " writer; it branches on a derived value (" + h.ctl + "): control dependence is not decided"
	}
	if h.dataUse == "" {
		return report.OutOfScope, "pure selector: never consumed by arithmetic, allocation or indexing"
	}
	if h.sink != "" {
		return report.Violated, "values derived from it reach other marker segments (" + h.sink + ") but none is stored, written or tested in a function that emits the " + needName + " marker, although the argument shapes the coded data (" + h.dataUse + "): the " + needName + " cannot declare it"
	}
	return report.Violated, "the argument shapes the coded data (" + h.dataUse + ") but no value derived from it is stored, written or tested in any function that emits the " + needName + " marker: the header cannot declare it"
}

// requiredClass: which header must carry an argument, by what the argument is called. The name is used
// for discovery only: an argument with an unknown name must reach some marker segment.
func requiredClass(name string) (int, string) {
	n := strings.ToLower(name)
	switch {
	case n == "width" || n == "height" || n == "rows" || n == "cols" || n == "columns" || n == "components" || n == "ncomp" ||
		n == "bitdepth" || n == "precision" || n == "issigned":
		return mcFrame, "frame header (SOFn / SIZ)"
	case n == "near" || n == "predictor":
		return mcScan, "scan header (SOS)"
	}
	return mcOther, "marker segment"
}

// j2kDeclaredFields: EncodeParams fields the SIZ / COD segments must declare. Discovery by name; a
// missing name only removes the obligation (reported in the evidence), it never alarms.
var j2kDeclaredFields = []string{"Width", "Height", "Components", "BitDepth", "IsSigned", "NumLevels", "NumLayers", "ProgressionOrder", "CodeBlockWidth", "CodeBlockHeight"}

func (c *Ctx) flowsHeaderRule(encReach map[*ssa.Function]bool) (n int, missing []string) {
	h := c.newHeaderFlow()
	for _, fn := range h.funcs {
		if fn.Parent() != nil || fn.Signature.Recv() != nil || fn.Object() == nil || !fn.Object().Exported() {
			continue
		}
		if pp := load.FuncPkgPath(fn); load.IsControl(pp) && !strings.HasSuffix(pp, "/c16ctl") {
			continue
		}
		if !strings.HasPrefix(fn.Name(), "Encode") || len(fn.Params) < 3 || !isByteSlice(fn.Params[0].Type()) {
			continue
		}
		res := fn.Signature.Results()
		if res.Len() == 0 || !isByteSlice(res.At(0).Type()) {
			continue
		}
		for _, p := range fn.Params[1:] {
			bt, ok := p.Type().Underlying().(*types.Basic)
			if !ok || bt.Info()&(types.IsInteger|types.IsBoolean) == 0 {
				continue
			}
			h.allowed = c.P.Reachable([]*ssa.Function{fn})
			h.run([]ssa.Value{p}, nil)
			need, needName := requiredClass(p.Name())
			st, detail := h.verdict(need, needName)
			c.add("FLOWS-HEADER", fn, "argument "+p.Name(), st, c.P.Pos(fn.Pos()), detail)
			n++
		}
	}
	// jpeg2000.EncodeParams fields
	var ep *types.Named
	for _, pkg := range c.P.LibPackages() {
		if pkg.PkgPath == load.ModPath+"/jpeg2000" {
			if o := pkg.Types.Scope().Lookup("EncodeParams"); o != nil {
				ep = load.NamedOf(o.Type())
			}
		}
	}
	if ep != nil {
		if st, ok := ep.Underlying().(*types.Struct); ok {
			byName := map[string]*types.Var{}
			for i := 0; i < st.NumFields(); i++ {
				byName[st.Field(i).Name()] = st.Field(i)
			}
			var enc *ssa.Function
			for _, fn := range h.funcs {
				if fn.Name() == "NewEncoder" && load.FuncPkgPath(fn) == load.ModPath+"/jpeg2000" {
					enc = fn
				}
			}
			names := append([]string(nil), j2kDeclaredFields...)
			sort.Strings(names)
			for _, name := range names {
				f := byName[name]
				if f == nil {
					missing = append(missing, name)
					continue
				}
				h.allowed = encReach
				h.run(nil, []*types.Var{f})
				need, needName := requiredClass(name)
				st, detail := h.verdict(need, needName)
				c.add("FLOWS-HEADER", enc, "jpeg2000.EncodeParams."+name, st, c.P.Pos(f.Pos()), detail)
				n++
			}
		}
	} else {
		missing = append(missing, "jpeg2000.EncodeParams")
	}
	return n, missing
}
