package props

import (
	"fmt"
	"go/token"
	"go/types"
	"sort"
	"strings"

	"golang.org/x/tools/go/ssa"

	"dcmcheck/internal/load"
	"dcmcheck/internal/ranges"
	"dcmcheck/internal/report"
)

func init() { Registry["C17"] = runC17 }

// encoderArgFields: for jpeg2000.Encoder the "arguments" are fields of EncodeParams.
var encodeParamsArgs = []string{"Width", "Height", "Components", "BitDepth", "Quality", "NumLevels", "CodeBlockWidth", "CodeBlockHeight", "TileWidth", "TileHeight", "NumLayers"}

func (c *Ctx) encodeEngine(intSize int) (*ranges.Engine, map[*ssa.Function]bool, *EntryPoints, error) {
	ep, err := c.entryPoints()
	if err != nil {
		return nil, nil, nil, err
	}
	reach := c.P.Reachable(ep.Enc)
	funcs := map[*ssa.Function]bool{}
	for fn := range reach {
		if fn.Blocks != nil && load.InScope(fn) {
			funcs[fn] = true
		}
	}
	rs := map[*ssa.Function]bool{}
	for _, r := range ep.Enc {
		rs[r] = true
	}
	tf := frameInfoTaint()
	for _, f := range encodeParamsArgs {
		tf[load.ModPath+"/jpeg2000.EncodeParams."+f] = true
	}
	cfg := ranges.Config{CG: c.P.CG, Funcs: funcs, Roots: rs, ByteLoadsTainted: false, TaintedFields: tf, IntSize: intSize}
	eng := ranges.New(cfg)
	eng.Run()
	// second pass: EncodeParams fields take the range established by the validator that every
	// Encoder entry point runs first (VALIDATE-FIRST checks that it really runs first)
	post := map[string]ranges.AV{}
	c.validators = map[*ssa.Function]*ssa.Function{}
	for _, e := range ep.Enc {
		if v := firstValidator(e); v != nil {
			c.validators[e] = v
			for _, f := range encodeParamsArgs {
				key := load.ModPath + "/jpeg2000.EncodeParams." + f
				if pv, ok := eng.FieldPostcondition(v, key); ok {
					if old, had := post[key]; had {
						post[key] = ranges.Join(old, pv)
					} else {
						post[key] = pv
					}
				}
			}
		}
	}
	if len(post) > 0 {
		cfg.FieldPost = post
		eng = ranges.New(cfg)
		eng.Run()
		var ks []string
		for k, v := range post {
			ks = append(ks, strings.TrimPrefix(k, load.ModPath+"/")+"="+v.String())
		}
		sort.Strings(ks)
		c.C.Note("validated EncodeParams field ranges (postcondition of the first validator): %v", ks)
	}
	return eng, funcs, ep, nil
}

func runC17(c *Ctx) Info {
	intSize := 64
	if c.P.Cfg.GOARCH == "386" {
		intSize = 32
	}
	eng, funcs, ep, err := c.encodeEngine(intSize)
	if err != nil {
		c.C.Fatalf("%v", err)
		return Info{Explanation: "failed"}
	}
	if strings.HasPrefix(c.Dump, "vals:") {
		for fn := range funcs {
			if strings.Contains(fn.String(), c.Dump[5:]) {
				fmt.Println("== " + fn.String())
				for _, l := range eng.DumpFunc(fn) {
					fmt.Println(l)
				}
			}
		}
	}
	st := c.rangeObligations(eng, funcs, "")
	c.C.Floor("functions", len(funcs), 200)
	nv := c.validateFirstRule(eng, ep)
	nb := c.bufferCheckRule(eng, ep)
	nn := c.narrowRule(eng, funcs)
	for _, r := range []string{"IDX", "DIV", "MAKE", "VALIDATE-FIRST", "BUFFER-CHECK", "NARROW"} {
		c.C.ExpectControl(r)
	}
	return Info{
		Explanation:  "VALIDATE-FIRST: every integer argument of every encoding entry point (and the EncodeParams fields the property names) must be compared in an error-exiting test before any other use, on every side the format limits. BUFFER-CHECK: every []byte pixel argument is length-tested against an expression of the geometry before it is indexed or passed on. NARROW: every narrowing conversion on the way to a header byte is value-preserving under the ranges the validation establishes (engine E2). IDX/DIV/MAKE/SHIFT/ASSERT/PANIC over encode-reachable code with the arguments as adversarial sources.",
		DoesNotCover: "that a returned stream decodes to the requested geometry beyond NARROW; silent replacement of invalid parameter values by Validate() (documented normalisation)",
		Trusted:      commonTrusted,
		Assumptions:  rangeAssumptions,
		Extra:        map[string]any{"functions_analysed": len(funcs), "validate_first_args": nv, "buffer_args": nb, "narrow_sites": nn, "range_sites": map[string]int{"IDX": st.idx, "DIV": st.div, "MAKE": st.mk, "SHIFT": st.shift, "ASSERT": st.assert, "PANIC": st.panics}},
	}
}

// placeholders (filled in below / in other files)
var _ = sort.Strings
var _ types.Type
var _ report.Status

// narrowRule (NARROW): in header-writing functions every conversion to a narrower unsigned type
// must be value-preserving, except the low half of a recognised byte split (byte(x) next to
// byte(x>>8)), whose high half then carries the obligation.
func (c *Ctx) narrowRule(eng *ranges.Engine, funcs map[*ssa.Function]bool) int {
	n := 0
	var fns []*ssa.Function
	for fn := range funcs {
		if isHeaderWriter(fn) {
			fns = append(fns, fn)
		}
	}
	sort.Slice(fns, func(i, j int) bool { return fns[i].String() < fns[j].String() })
	seen := map[string]int{}
	for _, fn := range fns {
		// values that also appear shifted right and converted: their plain conversion is a low half
		shifted := map[string]bool{}
		for _, b := range fn.Blocks {
			for _, ins := range b.Instrs {
				if cv, ok := ins.(*ssa.Convert); ok {
					if sh, ok := cv.X.(*ssa.BinOp); ok && sh.Op.String() == ">>" {
						shifted[rootOfLoad(sh.X)] = true
					}
				}
			}
		}
		for _, b := range fn.Blocks {
			for _, ins := range b.Instrs {
				cv, ok := ins.(*ssa.Convert)
				if !ok || !isNarrowing(eng, cv) {
					continue
				}
				tb, _ := cv.Type().Underlying().(*types.Basic)
				if tb == nil || tb.Info()&types.IsUnsigned == 0 {
					continue
				}
				bitsTo, _ := intBits(cv.Type())
				max := int64(1)<<uint(bitsTo) - 1
				n++
				construct := cv.Type().String() + "(" + addrExpr(cv.X) + ")"
				key := fn.String() + "|" + construct
				seen[key]++
				if seen[key] > 1 {
					construct = fmt.Sprintf("%s #%d", construct, seen[key])
				}
				av := eng.At(fn, cv.X, b)
				if shifted[rootOfLoad(cv.X)] {
					c.add("NARROW", fn, construct, report.Discharged, c.P.Pos(ins.Pos()), "low half of a byte split (the shifted half carries the obligation)")
					continue
				}
				st, d := decideRange(av, 0, max, false)
				if bitsTo >= 32 && st == report.Violated {
					// 32-bit header fields (JPEG 2000 SIZ): exceeding them needs a >= 4 GiB pixel buffer
					// to pass the encoder's own buffer-length test; not decided here
					st, d = report.OutOfScope, "32-bit field: "+d
				}
				if st == report.Violated {
					d = "the header field is " + fmt.Sprint(bitsTo) + " bits wide but " + d + ": the written value wraps, so the stream declares a different geometry/parameter than requested"
				}
				c.add("NARROW", fn, construct, st, c.P.Pos(ins.Pos()), d)
			}
		}
	}
	c.C.Floor("NARROW", n-c.controlCount("NARROW"), 20)
	return n
}

// rootOfLoad identifies "the same variable" across reloads: field loads map to a canonical key
// value (the first load of that field of that base in program order is not needed; loads of the
// same FieldAddr field on the same base compare equal through this key).
func rootOfLoad(v ssa.Value) string {
	if u, ok := v.(*ssa.UnOp); ok {
		if fa, ok := u.X.(*ssa.FieldAddr); ok {
			return fmt.Sprintf("field %s.%d", rootOfLoad(fa.X), fa.Field)
		}
	}
	if cv, ok := v.(*ssa.Convert); ok {
		return rootOfLoad(cv.X)
	}
	return fmt.Sprintf("%p", v)
}

// isHeaderWriter: a function named write* that emits marker segments (calls WriteSegment /
// binary.Write / WriteByte on a writer).
func isHeaderWriter(fn *ssa.Function) bool {
	// structural: the function emits a marker or a marker segment on one of its sinks (whatever it
	// is called and whichever emission idiom it uses)
	if producesOutput(fn) {
		for _, s := range outputSinks(fn) {
			ws, _ := sinkWritesOf(fn, s)
			for _, w := range ws {
				if w.what == "marker" || w.what == "segment" || w.what == "sot" {
					return true
				}
			}
		}
	}
	name := fn.Name()
	if !(strings.HasPrefix(name, "write") || strings.HasPrefix(name, "Write")) {
		return false
	}
	for _, b := range fn.Blocks {
		for _, ins := range b.Instrs {
			if call, ok := ins.(ssa.CallInstruction); ok {
				if sc := call.Common().StaticCallee(); sc != nil {
					s := sc.String()
					if strings.HasSuffix(s, ".WriteSegment") || s == "encoding/binary.Write" || strings.HasSuffix(s, ".WriteByte") || strings.HasSuffix(s, ".WriteMarker") {
						return true
					}
				}
			}
		}
	}
	return false
}

// bufferCheckRule (BUFFER-CHECK): every encoding entry point with a []byte pixel argument tests
// len(pixels) against the geometry, with an error exit, before the buffer is indexed or handed on.
func (c *Ctx) bufferCheckRule(eng *ranges.Engine, ep *EntryPoints) int {
	n := 0
	for _, e := range ep.Enc {
		for _, p := range e.Params {
			if !isByteSlice(p.Type()) {
				continue
			}
			n++
			construct := "len(" + p.Name() + ") check before use"
			ok, where, detail := c.bufferChecked(eng, e, p, 0, map[*ssa.Function]bool{})
			if ok {
				c.add("BUFFER-CHECK", e, construct, report.Discharged, c.P.Pos(e.Pos()), detail)
			} else {
				c.add("BUFFER-CHECK", e, construct, report.Violated, where, detail)
			}
		}
	}
	c.C.Floor("BUFFER-CHECK", n-c.controlCount("BUFFER-CHECK"), 5)
	return n
}

// bufferChecked: every consuming use of slice parameter p in fn (index, slice expression, copy,
// range) is dominated by a comparison that mentions len(p) and whose failing side returns an error;
// passing p on to a library function defers the obligation to that function's parameter.
func (c *Ctx) bufferChecked(eng *ranges.Engine, fn *ssa.Function, p ssa.Value, depth int, visiting map[*ssa.Function]bool) (bool, string, string) {
	if depth > 4 || visiting[fn] {
		return true, "", "recursion"
	}
	visiting[fn] = true
	defer delete(visiting, fn)
	if p.Referrers() == nil {
		return true, "", "buffer unused"
	}
	checkedAt := func(b *ssa.BasicBlock) bool { return c.lenCheckedAt(fn, b, p) }
	_ = func(b *ssa.BasicBlock) bool {
		// a dominating error-exiting branch whose condition mentions len(p)
		for cb := b; cb != nil; cb = cb.Idom() {
			d := cb.Idom()
			if d == nil {
				break
			}
			if len(d.Succs) != 2 {
				continue
			}
			if !condTestsLen(ifCond(d), p) {
				continue
			}
			// one side must leave with a non-nil error, the other must dominate b
			for si, s := range d.Succs {
				other := d.Succs[1-si]
				if (other == cb || other.Dominates(b)) && leadsOnlyToErrors(fn, s) {
					return true
				}
			}
		}
		return false
	}
	detail := "length tested before every use"
	for _, r := range *p.Referrers() {
		ins := r
		switch x := r.(type) {
		case *ssa.IndexAddr, *ssa.Slice, *ssa.Range:
			if !checkedAt(ins.Block()) {
				return false, c.P.Pos(ins.Pos()), "the pixel buffer " + addrExpr(p) + " is indexed / sliced in " + load.FuncName(fn) + " with no dominating length test that exits with an error: a short buffer panics instead of being rejected"
			}
		case ssa.CallInstruction:
			cc := x.Common()
			if bi, ok := cc.Value.(*ssa.Builtin); ok {
				if bi.Name() == "len" || bi.Name() == "cap" {
					continue
				}
				if !checkedAt(ins.Block()) {
					return false, c.P.Pos(ins.Pos()), "the pixel buffer is consumed by " + bi.Name() + " in " + load.FuncName(fn) + " with no dominating length test"
				}
				continue
			}
			if checkedAt(ins.Block()) {
				continue
			}
			var callees []*ssa.Function
			if sc := cc.StaticCallee(); sc != nil {
				callees = append(callees, sc)
			} else if !cc.IsInvoke() {
				// a call through a function value (encode := enc.encodeRGB; if gray { encode = enc.encodeGray };
				// encode(w, pixelData)): every library function the call graph gives for this site
				if node := c.P.CG.Nodes[fn]; node != nil {
					for _, e := range node.Out {
						if e.Site == x && e.Callee.Func != nil {
							callees = append(callees, e.Callee.Func)
						}
					}
				}
				sort.Slice(callees, func(i, j int) bool { return callees[i].String() < callees[j].String() })
			}
			for _, sc := range callees {
				if sc.Blocks == nil || !load.InScope(sc) {
					continue // handed to code outside the library (bytes.NewReader ...): reads are bounds-safe there
				}
				for ai, a := range cc.Args {
					if a == p && ai < len(sc.Params) && len(cc.Args) == len(sc.Params) {
						if ok, where, d := c.bufferChecked(eng, sc, sc.Params[ai], depth+1, visiting); !ok {
							return false, where, d + " (reached from " + load.FuncName(fn) + ")"
						}
						detail = "length tested in callee " + load.FuncName(sc)
					}
				}
			}
		case *ssa.Store, *ssa.MakeInterface, *ssa.Phi:
			// a parameter captured by closures lives in a cell (t = new []byte; *t = p): every load of
			// the cell is the buffer again and carries the same obligation
			if st, ok := x.(*ssa.Store); ok && st.Val == p {
				if cell, ok := st.Addr.(*ssa.Alloc); ok && cell.Referrers() != nil {
					okCell := true
					for _, cr := range *cell.Referrers() {
						switch y := cr.(type) {
						case *ssa.UnOp:
							if ok2, where, d := c.bufferChecked(eng, fn, y, depth+1, map[*ssa.Function]bool{}); !ok2 {
								return false, where, d
							}
						case *ssa.MakeClosure:
							if c.checkedAtFor(fn, y.Block(), cell) {
								continue
							}
							// not tested before the closure is made: every load of the captured cell inside
							// the closure body is the buffer again (encode = func() { return impl(pixelData, …) })
							cf, _ := y.Fn.(*ssa.Function)
							if cf == nil || cf.Blocks == nil {
								okCell = false
								continue
							}
							for bi, bnd := range y.Bindings {
								if bnd != ssa.Value(cell) || bi >= len(cf.FreeVars) {
									continue
								}
								fv := cf.FreeVars[bi]
								if fv.Referrers() == nil {
									continue
								}
								for _, fr := range *fv.Referrers() {
									switch z := fr.(type) {
									case *ssa.UnOp:
										if ok2, where, d := c.bufferChecked(eng, cf, z, depth+1, visiting); !ok2 {
											return false, where, d + " (captured by a closure made in " + load.FuncName(fn) + ")"
										}
									case *ssa.DebugRef:
									default:
										okCell = false
									}
								}
							}
						case *ssa.Store, *ssa.DebugRef:
						default:
							okCell = false
						}
					}
					if okCell {
						continue
					}
				}
			}
			// the buffer is put into a local struct that is handed to the length-testing checker
			// (args := T{pixelData, ...}; if err := args.validate(); err != nil { ... })
			if st, ok := x.(*ssa.Store); ok && st.Val == p {
				if fa, ok := st.Addr.(*ssa.FieldAddr); ok {
					if al, ok := fa.X.(*ssa.Alloc); ok && c.structOnlyFeedsChecker(fn, al, p) {
						continue
					}
				}
			}
			// the buffer travels in a field of a request / job struct (r := &req{pixels: p, …}; …(r)):
			// every reader of that field, anywhere in the library, takes over the obligation
			if st, ok := x.(*ssa.Store); ok && st.Val == p && depth < 3 {
				if fa, ok := st.Addr.(*ssa.FieldAddr); ok {
					if okAll, where, d := c.fieldReadersChecked(eng, fa, depth, visiting); okAll {
						detail = "buffer travels in field " + fieldNameOf(fa.X.Type(), fa.Field) + "; " + d
						continue
					} else if where != "" && !checkedAt(ins.Block()) {
						return false, where, d + " (buffer stored in field " + fieldNameOf(fa.X.Type(), fa.Field) + " in " + load.FuncName(fn) + ")"
					}
				}
			}
			// stored or merged: not followed further; require the check here
			if !checkedAt(ins.Block()) {
				return false, c.P.Pos(ins.Pos()), "the pixel buffer escapes in " + load.FuncName(fn) + " before any length test"
			}
		}
	}
	return true, "", detail
}

// lenCheckedAt: block b of fn is dominated by an error-exiting branch whose condition tests len(p).
func (c *Ctx) lenCheckedAt(fn *ssa.Function, b *ssa.BasicBlock, p ssa.Value) bool {
	for cb := b; cb != nil; cb = cb.Idom() {
		d := cb.Idom()
		if d == nil {
			break
		}
		if len(d.Succs) != 2 {
			continue
		}
		if !condTestsLen(ifCond(d), p) {
			continue
		}
		for si, s := range d.Succs {
			other := d.Succs[1-si]
			if (other == cb || other.Dominates(b)) && leadsOnlyToErrors(fn, s) {
				return true
			}
		}
	}
	return false
}

// fieldReadersChecked: every load of the struct field fa addresses (same named struct type, same
// field), in any library function, is used as a length-checked buffer there.
func (c *Ctx) fieldReadersChecked(eng *ranges.Engine, fa *ssa.FieldAddr, depth int, visiting map[*ssa.Function]bool) (bool, string, string) {
	owner := namedOfRecv(fa.X.Type())
	if owner == nil || !isByteSlice(fa.Type().(*types.Pointer).Elem()) {
		return false, "", ""
	}
	readers := 0
	for _, g := range c.scopeFuncs() {
		for _, b := range g.Blocks {
			for _, ins := range b.Instrs {
				var loaded ssa.Value
				switch y := ins.(type) {
				case *ssa.UnOp:
					if y.Op != token.MUL {
						continue
					}
					lfa, ok := y.X.(*ssa.FieldAddr)
					if !ok || lfa.Field != fa.Field {
						continue
					}
					if o := namedOfRecv(lfa.X.Type()); o == nil || o.Obj() != owner.Obj() {
						continue
					}
					loaded = y
				case *ssa.Field:
					if y.Field != fa.Field {
						continue
					}
					if o := namedOfRecv(y.X.Type()); o == nil || o.Obj() != owner.Obj() {
						continue
					}
					loaded = y
				default:
					continue
				}
				readers++
				if ok, where, d := c.bufferChecked(eng, g, loaded, depth+1, visiting); !ok {
					return false, where, d
				}
			}
		}
	}
	if readers == 0 {
		return false, "", ""
	}
	return true, "", fmt.Sprintf("all %d readers of the field test the length (or hand the buffer to code that does)", readers)
}

// structOnlyFeedsChecker: local struct al (holding buffer p in a field) is used only for field
// stores/loads and as the argument / receiver of calls that either are the length-testing check
// itself or happen after it.
func (c *Ctx) structOnlyFeedsChecker(fn *ssa.Function, al *ssa.Alloc, p ssa.Value) bool {
	if al.Referrers() == nil {
		return false
	}
	callOK := func(call ssa.CallInstruction) bool {
		b := call.Block()
		if c.lenCheckedAt(fn, b, p) {
			return true
		}
		// the call is the check: its outcome is the condition of its own block
		if cl, _, _, ok := ranges.OutcomeOfCond(ifCond(b)); ok && ssa.CallInstruction(cl) == call && condTestsLen(ifCond(b), p) {
			return true
		}
		return false
	}
	for _, r := range *al.Referrers() {
		switch x := r.(type) {
		case *ssa.FieldAddr, *ssa.DebugRef:
		case *ssa.UnOp:
			if x.Referrers() == nil {
				continue
			}
			for _, u := range *x.Referrers() {
				call, ok := u.(ssa.CallInstruction)
				if !ok || !callOK(call) {
					return false
				}
			}
		case ssa.CallInstruction:
			if !callOK(x) {
				return false
			}
		default:
			return false
		}
	}
	return true
}

// checkedAtFor: as lenCheckedAt, for a buffer that lives in a capture cell: any load of the cell
// stands for the buffer.
func (c *Ctx) checkedAtFor(fn *ssa.Function, b *ssa.BasicBlock, cell *ssa.Alloc) bool {
	if cell.Referrers() == nil {
		return false
	}
	for _, r := range *cell.Referrers() {
		if ld, ok := r.(*ssa.UnOp); ok && ld.Op == token.MUL {
			if c.lenCheckedAt(fn, b, ld) {
				return true
			}
		}
	}
	return false
}

// condTestsLen: the branch condition compares len(p) — directly, or inside a checking helper whose
// outcome (bool result, or error result compared with nil) is the condition and which receives p
// or len(p) as an argument and compares that parameter.
func condTestsLen(cond ssa.Value, p ssa.Value) bool {
	if bo, ok := cond.(*ssa.BinOp); ok && (mentionsLen(bo.X, p, 0) || mentionsLen(bo.Y, p, 0)) {
		return true
	}
	call, _, _, ok := ranges.OutcomeOfCond(cond)
	if !ok {
		return false
	}
	sc := call.Call.StaticCallee()
	if sc == nil || sc.Blocks == nil || call.Call.IsInvoke() || len(call.Call.Args) != len(sc.Params) {
		return false
	}
	for i, a := range call.Call.Args {
		if !(a == p || sameSlice(a, p) || mentionsLen(a, p, 0)) {
			// the buffer travels inside a struct built for the checker (args := T{pixelData, ...};
			// args.validate()): the checker must compare len of a []byte field of that struct
			if structCarries(a, p) && calleeTestsLenOfField(sc, i) {
				return true
			}
			continue
		}
		q := sc.Params[i]
		for _, b := range sc.Blocks {
			bo, ok := ifCond(b).(*ssa.BinOp)
			if !ok {
				continue
			}
			if mentionsVal(bo.X, q, 0) || mentionsVal(bo.Y, q, 0) {
				return true
			}
		}
		if closureComparesParam(sc, q) {
			return true
		}
	}
	return false
}

// closureComparesParam: the checker's parameter q is captured by closures defined in it (a table of
// check functions) and one of them compares it: `ok: func() bool { return available >= w*h*c }`.
func closureComparesParam(sc *ssa.Function, q *ssa.Parameter) bool {
	cells := map[ssa.Value]bool{}
	for _, b := range sc.Blocks {
		for _, ins := range b.Instrs {
			if st, ok := ins.(*ssa.Store); ok && st.Val == ssa.Value(q) {
				if al, ok := st.Addr.(*ssa.Alloc); ok {
					cells[al] = true
				}
			}
		}
	}
	if len(cells) == 0 {
		return false
	}
	var visit func(fn *ssa.Function, depth int) bool
	visit = func(fn *ssa.Function, depth int) bool {
		if depth > 3 {
			return false
		}
		for _, an := range fn.AnonFuncs {
			// which free variables of an hold a cell of q
			fvs := map[ssa.Value]bool{}
			for _, b := range fn.Blocks {
				for _, ins := range b.Instrs {
					if mc, ok := ins.(*ssa.MakeClosure); ok && mc.Fn == ssa.Value(an) {
						for j, bd := range mc.Bindings {
							if cells[bd] && j < len(an.FreeVars) {
								fvs[an.FreeVars[j]] = true
							}
						}
					}
				}
			}
			if len(fvs) > 0 {
				for _, b := range an.Blocks {
					for _, ins := range b.Instrs {
						bo, ok := ins.(*ssa.BinOp)
						if !ok {
							continue
						}
						switch bo.Op {
						case token.LSS, token.LEQ, token.GTR, token.GEQ:
						default:
							continue
						}
						for _, side := range []ssa.Value{bo.X, bo.Y} {
							for v := range backwardSlice(side, 50) {
								if ld, ok := v.(*ssa.UnOp); ok && ld.Op == token.MUL && fvs[ld.X] {
									return true
								}
							}
						}
					}
				}
				for fv := range fvs {
					cells[fv] = true // nested closures capture the same cell through this free variable
				}
			}
			if visit(an, depth+1) {
				return true
			}
		}
		return false
	}
	return visit(sc, 0)
}

// structCarries: a is (a pointer to / the value of) a local struct one of whose fields was assigned p.
func structCarries(a, p ssa.Value) bool {
	var al *ssa.Alloc
	switch x := a.(type) {
	case *ssa.Alloc:
		al = x
	case *ssa.UnOp:
		if x.Op == token.MUL {
			al, _ = x.X.(*ssa.Alloc)
		}
	}
	if al == nil || al.Referrers() == nil {
		return false
	}
	for _, r := range *al.Referrers() {
		fa, ok := r.(*ssa.FieldAddr)
		if !ok || fa.Referrers() == nil {
			continue
		}
		for _, u := range *fa.Referrers() {
			if st, ok := u.(*ssa.Store); ok && st.Addr == ssa.Value(fa) && (st.Val == p || sameSlice(st.Val, p)) {
				return true
			}
		}
	}
	return false
}

// calleeTestsLenOfField: sc compares len() of a []byte field of its struct parameter i in some
// branch condition.
func calleeTestsLenOfField(sc *ssa.Function, i int) bool {
	if i >= len(sc.Params) {
		return false
	}
	q := sc.Params[i]
	fromQ := func(v ssa.Value) bool {
		switch x := v.(type) {
		case *ssa.Field:
			return x.X == ssa.Value(q) && isByteSlice(x.Type())
		case *ssa.UnOp:
			if fa, ok := x.X.(*ssa.FieldAddr); ok && x.Op == token.MUL && isByteSlice(x.Type()) {
				if fa.X == ssa.Value(q) {
					return true
				}
				// by-value parameter spilled to a local
				if al, ok := fa.X.(*ssa.Alloc); ok && al.Referrers() != nil {
					for _, r := range *al.Referrers() {
						if st, ok := r.(*ssa.Store); ok && st.Addr == ssa.Value(al) && st.Val == ssa.Value(q) {
							return true
						}
					}
				}
			}
		}
		return false
	}
	var mentions func(v ssa.Value, depth int) bool
	mentions = func(v ssa.Value, depth int) bool {
		if v == nil || depth > 5 {
			return false
		}
		if x, ok := isLenOf(v); ok && fromQ(x) {
			return true
		}
		switch y := v.(type) {
		case *ssa.BinOp:
			return mentions(y.X, depth+1) || mentions(y.Y, depth+1)
		case *ssa.Convert:
			return mentions(y.X, depth+1)
		}
		return false
	}
	for _, b := range sc.Blocks {
		if bo, ok := ifCond(b).(*ssa.BinOp); ok && (mentions(bo.X, 0) || mentions(bo.Y, 0)) {
			return true
		}
	}
	return false
}

// mentionsVal: does the expression tree of v contain q or len(q)?
func mentionsVal(v ssa.Value, q ssa.Value, depth int) bool {
	if depth > 5 || v == nil {
		return false
	}
	if v == q {
		return true
	}
	if x, ok := isLenOf(v); ok && x == q {
		return true
	}
	switch y := v.(type) {
	case *ssa.BinOp:
		return mentionsVal(y.X, q, depth+1) || mentionsVal(y.Y, q, depth+1)
	case *ssa.Convert:
		return mentionsVal(y.X, q, depth+1)
	case *ssa.Phi:
		for _, e := range y.Edges {
			if mentionsVal(e, q, depth+1) {
				return true
			}
		}
	}
	return false
}

// leadsOnlyToErrors: every return reachable from b carries a non-nil error.
func leadsOnlyToErrors(fn *ssa.Function, b *ssa.BasicBlock) bool {
	ei := errorResultIndex(fn)
	if ei < 0 {
		return false
	}
	rets := returnsReachable(b, nil)
	if len(rets) == 0 {
		return false
	}
	for _, r := range rets {
		if !definitelyNonNilError(r, ei) {
			return false
		}
	}
	return true
}

// validateFirstRule (VALIDATE-FIRST): an adversarial scalar (entry-point argument, value from a
// caller-supplied parameters bag, EncodeParams field the first validator does not test) must not be
// consumed by arithmetic, an allocation size, an index or a narrowing conversion while it is still
// exactly as it arrived. Witness shape: a raw value with no error-exiting (or clamping) comparison
// on either side anywhere before the use.
func (c *Ctx) validateFirstRule(eng *ranges.Engine, ep *EntryPoints) int {
	n := 0
	var fns []*ssa.Function
	for _, fn := range c.scopeFuncs() {
		if eng.Analysed(fn) {
			fns = append(fns, fn)
		}
	}
	rootParam := map[ssa.Value]bool{}
	for _, e := range ep.Enc {
		for _, p := range e.Params {
			rootParam[p] = true
		}
	}
	for _, fn := range fns {
		reported := map[ssa.Value]bool{}
		check := func(v ssa.Value, ins ssa.Instruction, what string) {
			if v == nil || reported[v] {
				return
			}
			if _, isConst := v.(*ssa.Const); isConst {
				return
			}
			bt, ok := v.Type().Underlying().(*types.Basic)
			if !ok || bt.Info()&types.IsInteger == 0 {
				return
			}
			av := eng.At(fn, v, ins.Block())
			n++
			if av.IsBottom() || !av.Raw {
				return
			}
			if av.SanLo || av.SanHi {
				return
			}
			reported[v] = true
			c.add("VALIDATE-FIRST", fn, addrExpr(v)+" used in "+what, report.Violated, c.P.Pos(ins.Pos()),
				"adversarial argument "+av.String()+" is consumed exactly as it arrived: no error-exiting or clamping comparison constrains it on either side before this use")
		}
		for _, b := range fn.Blocks {
			for _, ins := range b.Instrs {
				switch x := ins.(type) {
				case *ssa.BinOp:
					switch x.Op.String() {
					case "+", "-", "*", "/", "%", "<<", ">>":
						check(x.X, ins, "arithmetic "+x.Op.String())
						check(x.Y, ins, "arithmetic "+x.Op.String())
					}
				case *ssa.MakeSlice:
					check(x.Len, ins, "make")
				case *ssa.IndexAddr:
					check(x.Index, ins, "index")
				case *ssa.Convert:
					if isNarrowing(eng, x) {
						check(x.X, ins, "narrowing conversion to "+x.Type().String())
					}
				}
			}
		}
	}
	c.C.Bulk("VALIDATE-FIRST", n, 0)
	return n
}

func intBits(t types.Type) (int, bool) {
	b, ok := t.Underlying().(*types.Basic)
	if !ok || b.Info()&types.IsInteger == 0 {
		return 0, false
	}
	switch b.Kind() {
	case types.Int8, types.Uint8:
		return 8, true
	case types.Int16, types.Uint16:
		return 16, true
	case types.Int32, types.Uint32:
		return 32, true
	}
	return 64, true
}

func isNarrowing(eng *ranges.Engine, x *ssa.Convert) bool {
	from, ok1 := intBits(x.X.Type())
	to, ok2 := intBits(x.Type())
	return ok1 && ok2 && to < from
}

// firstValidator: the callee of the first call in fn whose error result is tested and returned,
// provided that call dominates every other call of fn (the validation runs first).
func firstValidator(fn *ssa.Function) *ssa.Function {
	if len(fn.Blocks) == 0 {
		return nil
	}
	var first *ssa.Call
	for _, b := range fn.DomPreorder() {
		for _, ins := range b.Instrs {
			call, ok := ins.(*ssa.Call)
			if !ok {
				continue
			}
			if _, isB := call.Call.Value.(*ssa.Builtin); isB {
				continue
			}
			if first == nil {
				first = call
				continue
			}
			if !instrDominates(first, call) {
				return nil
			}
		}
	}
	if first == nil {
		return nil
	}
	sc := first.Call.StaticCallee()
	if sc == nil || sc.Blocks == nil || errorResultIndex(sc) < 0 {
		return nil
	}
	// result must be nil-tested with an error-returning branch
	if first.Referrers() == nil {
		return nil
	}
	for _, r := range *first.Referrers() {
		if bo, ok := r.(*ssa.BinOp); ok && (isNilConst(bo.X) || isNilConst(bo.Y)) {
			return sc
		}
	}
	return nil
}
