package props

import (
	"fmt"
	"go/ast"
	"go/token"
	"go/types"
	"sort"
	"strconv"
	"strings"

	"golang.org/x/tools/go/ssa"

	"dcmcheck/internal/load"
	"dcmcheck/internal/pta"
	"dcmcheck/internal/report"
)

func init() { Registry["C18"] = runC18 }

// forbiddenImports: mechanisms the effect analysis does not model (DESIGN C18 rule 4 / C10 rule 4).
var hiddenMechanismImports = map[string]string{
	"unsafe":      "aliasing outside the type system",
	"reflect":     "writes through reflection",
	"sync":        "hand-written synchronisation (the analysis proves absence of shared writes instead)",
	"sync/atomic": "lock-free shared state",
	"C":           "cgo",
	"runtime":     "scheduler / finaliser hooks",
}

// scanHiddenMechanisms implements NO-HIDDEN-CONCURRENCY over the syntax of library + control packages.
func (c *Ctx) scanHiddenMechanisms(rule string, extra map[string]string) (nImports, nGo int) {
	for _, pk := range c.P.ScopePackages() {
		for _, f := range pk.Syntax {
			fname := c.P.Fset.Position(f.Pos()).Filename
			if strings.HasSuffix(fname, "_test.go") {
				continue
			}
			for _, im := range f.Imports {
				nImports++
				path, _ := strconv.Unquote(im.Path.Value)
				why, bad := hiddenMechanismImports[path]
				if !bad && extra != nil {
					why, bad = extra[path]
				}
				if bad {
					o := &report.Obligation{Rule: rule, Func: strings.TrimPrefix(pk.PkgPath, load.ModPath+"/"), Construct: "import " + path, Status: report.Violated, Pos: c.P.Pos(im.Pos()),
						Detail: "library package imports " + path + ": " + why, Control: load.IsControl(pk.PkgPath)}
					c.C.Add(o)
				}
			}
			ast.Inspect(f, func(n ast.Node) bool {
				if g, ok := n.(*ast.GoStmt); ok {
					nGo++
					o := &report.Obligation{Rule: rule, Func: strings.TrimPrefix(pk.PkgPath, load.ModPath+"/"), Construct: "go statement", Status: report.Violated, Pos: c.P.Pos(g.Pos()),
						Detail: "library code starts a goroutine; the effect analysis assumes each call runs on its caller's goroutine only", Control: load.IsControl(pk.PkgPath)}
					c.C.Add(o)
				}
				return true
			})
		}
	}
	return
}

func objGlobals(e *Eff, o *pta.Obj) []string { return e.GlobalReach[o] }

func runC18(c *Ctx) Info {
	e, err := c.effects()
	if err != nil {
		c.C.Fatalf("%v", err)
		return Info{Explanation: "failed"}
	}
	a := e.A
	c.C.Floor("codec-types", len(e.EP.CodecTypes)-countControls(c, e), 6)
	c.C.Floor("api-roots", len(e.EP.API), 300)

	nGlobalDis, nRecvDis, nParDis := 0, 0, 0
	type gkey struct{ fn, construct string }
	seenG := map[gkey]bool{}
	onceDo := map[*ssa.Function]bool{}
	for _, ef := range a.Effects {
		if ef.Ctx != pta.CtxRun {
			continue
		}
		o := ef.Loc.Obj
		inAPI := e.ReachAPI[ef.Fn]
		// 1. NO-GLOBAL-WRITE ------------------------------------------------------------
		if gl := objGlobals(e, o); len(gl) > 0 && o.Kind != pta.FuncObj {
			if !inAPI {
				continue
			}
			construct := describeInstr(ef.Instr) + " -> " + strings.Join(gl, ",")
			k := gkey{load.FuncName(ef.Fn), construct}
			if seenG[k] {
				continue
			}
			seenG[k] = true
			st := report.Violated
			detail := fmt.Sprintf("%s may write %s, which is reachable from package-level variable(s) %v, in code reachable from an exported entry point (not only from init): two concurrent calls race on it", ef.Kind, ef.Loc, gl)
			if isOnceGuarded(ef.Fn, onceDo) {
				st = report.OutOfScope
				detail = "write happens inside a function passed to sync.Once.Do (one-time initialisation, synchronised by Once); not decided by this rule"
			}
			w := witnessPath(c, e, ef.Fn)
			if c.Dump != "" {
				if sto, ok := ef.Instr.(*ssa.Store); ok {
					w = append(w, a.Why(sto.Addr, ef.Ctx, ef.Loc)...)
				}
			}
			c.add("NO-GLOBAL-WRITE", ef.Fn, construct, st, c.P.Pos(ef.Instr.Pos()), detail, w...)
			continue
		}
		nGlobalDis++
		// 2. NO-RECEIVER-WRITE ----------------------------------------------------------
		if e.CodecReach[o] && o.Kind != pta.Global {
			if o.Fn != nil && o.Fn == ef.Fn {
				// initialisation of an object inside the function that allocates it (constructor)
				nRecvDis++
				continue
			}
			if e.ReachAPI[ef.Fn] {
				construct := describeInstr(ef.Instr) + " -> " + ef.Loc.String()
				c.add("NO-RECEIVER-WRITE", ef.Fn, construct, report.Violated, c.P.Pos(ef.Instr.Pos()),
					fmt.Sprintf("%s may write %s, which is (or is reachable from) a codec instance: the instance is shared by every goroutine that obtained it from the registry", ef.Kind, ef.Loc), witnessPath(c, e, ef.Fn)...)
			}
			continue
		}
		nRecvDis++
		// 3. PARAMS-RO ------------------------------------------------------------------
		if o == e.ParObj {
			construct := describeInstr(ef.Instr)
			why, ok := guardedNormalisation(ef.Instr)
			if !ok {
				if why2, ok2 := c.cellNormalisation(ef.Instr); ok2 {
					why, ok = why2, true
				}
			}
			if ok {
				c.add("PARAMS-RO", ef.Fn, construct, report.Discharged, c.P.Pos(ef.Instr.Pos()), "guarded normalisation: "+why)
				continue
			} else if st, isStore := ef.Instr.(*ssa.Store); isStore {
				if g := guardReadsCell(st); g != "" {
					c.add("PARAMS-RO", ef.Fn, construct, report.OutOfScope, c.P.Pos(ef.Instr.Pos()), "store through a pointer that is not a field address of the parameters object (table of field pointers / accessor result); "+g+": whether the guard only fires on an invalid value is not decided")
					continue
				}
				c.add("PARAMS-RO", ef.Fn, construct, report.Violated, c.P.Pos(ef.Instr.Pos()),
					"store into the caller's parameters object that is not a guarded normalisation ("+why+"): it can execute on an already-valid object, so two calls sharing the object race", witnessPath(c, e, ef.Fn)...)
				continue
			}
			w := witnessPath(c, e, ef.Fn)
			if c.Dump != "" {
				if mu, ok := ef.Instr.(*ssa.MapUpdate); ok {
					w = append(w, a.Why(mu.Map, ef.Ctx, ef.Loc)...)
				}
			}
			// identity of the finding: the codec method through which the write is reached and what is
			// written — not the helper or closure that happens to contain the call today
			keyFn := ef.Fn
			if call, ok := ef.Instr.(ssa.CallInstruction); ok && call.Common().IsInvoke() && call.Common().Method.Name() == "SetParameter" {
				construct = "SetParameter(" + describeConstArg(call) + ") on the caller's parameters object"
				if m := c.codecMethodReaching(e, ef.Fn); m != nil {
					keyFn = m
				}
			}
			c.add("PARAMS-RO", keyFn, construct, report.Violated, c.P.Pos(ef.Instr.Pos()),
				fmt.Sprintf("%s on the caller's parameters object (%s): a definite write on every call, racing between calls that share the object", ef.Kind, ef.Note), w...)
			continue
		}
		nParDis++
	}
	c.C.Bulk("NO-GLOBAL-WRITE", nGlobalDis, 0)
	c.C.Bulk("NO-RECEIVER-WRITE", nRecvDis, 0)
	c.C.Bulk("PARAMS-RO", nParDis, 0)
	// 4. NO-HIDDEN-CONCURRENCY
	nImp, nGo := c.scanHiddenMechanisms("NO-HIDDEN-CONCURRENCY", nil)
	c.C.Bulk("NO-HIDDEN-CONCURRENCY", nImp, 0)
	// 5. NO-SHARED-RESULT: a codec method must not hand out a pointer into state every caller shares
	nShared := c.sharedResultRule(e)
	c.C.Bulk("NO-SHARED-RESULT", nShared, 0)
	// unresolved effects are fatal for soundness of "discharged": report as out-of-scope + note
	unres := map[string]bool{}
	for _, u := range a.Unresolved {
		if !load.InScope(u.Fn) {
			continue
		}
		k := load.FuncName(u.Fn) + " -> " + u.Callee
		if unres[k] {
			continue
		}
		unres[k] = true
		c.add("UNRESOLVED-EFFECT", u.Fn, "call "+u.Callee, report.OutOfScope, c.P.Pos(u.Instr.Pos()), u.Reason)
	}
	if len(unres) > 0 {
		c.C.Fatalf("%d call(s) with unknown effect in library code (the effect table must be completed): %v", len(unres), keysOf(unres))
	}
	for _, r := range []string{"NO-GLOBAL-WRITE", "NO-RECEIVER-WRITE", "PARAMS-RO", "NO-HIDDEN-CONCURRENCY", "NO-SHARED-RESULT"} {
		c.C.ExpectControl(r)
	}
	// evidence: init-only writers of globals
	initWriters := map[string]bool{}
	for _, ef := range a.Effects {
		if ef.Ctx == pta.CtxInit && len(objGlobals(e, ef.Loc.Obj)) > 0 && load.InScope(ef.Fn) && !e.ReachAPI[ef.Fn] {
			initWriters[load.FuncName(ef.Fn)] = true
		}
	}
	c.C.Note("functions writing package-level state that are reachable only from init: %v", keysOf(initWriters))
	c.C.Note("EP_api exclusions (frozen): %v", e.EP.Excluded)
	for ed, why := range e.GuardedEdges {
		c.add("NO-GLOBAL-WRITE", ed.Caller.Func, "call "+load.FuncName(ed.Callee.Func)+" (reviewed exception: init-guarded regeneration)", report.OutOfScope, c.P.Pos(ed.Site.Pos()), why)
	}
	if len(e.LapsedExceptions) > 0 {
		c.C.Note("reviewed exceptions whose keep-alive condition no longer holds (lapsed, findings are reported): %v", e.LapsedExceptions)
	}
	nf := 0
	for k := range a.Reach {
		if k.Ctx == pta.CtxRun {
			nf++
		}
	}
	return Info{
		Explanation:  "Engine E1: allocation-site, field-path-sensitive Andersen points-to analysis over the SSA of every function reachable from every exported function/method of the library (run-time context) and from every package initialiser (init context, separate heap), with a frozen effect table for the few standard-library callees. Every store / map update / copy / append / external write is an obligation: its target may not be (1) a package-level variable or anything reachable from one, in run-time code; (2) a field of the shared codec instance; (3) the caller's parameters object, unless the store is guarded by a test of the same field (normalisation that does nothing on a valid object). (4) no goroutines, sync, atomic, unsafe, reflect, cgo in library code. This is the schedule-independent obligation the property itself names; it does not run a race detector.",
		DoesNotCover: "races inside the caller's PixelData implementation or go-dicom's registry; values returned (only absence of shared writes is decided)",
		Trusted:      append([]string{"frozen effect table for bytes/io/encoding/binary/sort/fmt/math/image callees (pta/summaries.go)"}, commonTrusted...),
		Extra: map[string]any{
			"effects_total":        len(a.Effects),
			"functions_analysed":   nf,
			"pta_nodes":            a.Stats.Nodes,
			"pta_constraints":      a.Stats.Constraints,
			"abstract_objects":     len(a.Objects()),
			"codec_types":          len(e.EP.CodecTypes),
			"api_roots":            len(e.EP.API),
			"go_statements":        nGo,
			"external_call_counts": a.ExtCalls,
		},
	}
}

// sharedResultRule (NO-SHARED-RESULT): the pointer-like results of every method of a registered
// codec type may not point at a library-defined mutable object that is reachable from the codec
// instance or from a package-level variable: such an object is shared by every caller of every
// goroutine, so one caller's SetParameter is another caller's changed default.
func (c *Ctx) sharedResultRule(e *Eff) int {
	n := 0
	mutableLibType := func(t types.Type) bool {
		if t == nil {
			return false
		}
		if p, ok := t.(*types.Pointer); ok {
			t = p.Elem()
		}
		switch u := t.(type) {
		case *types.Named:
			if u.Obj().Pkg() == nil || !(load.IsModule(u.Obj().Pkg().Path()) || load.IsControl(u.Obj().Pkg().Path())) {
				return false
			}
			_, isStruct := u.Underlying().(*types.Struct)
			_, isMap := u.Underlying().(*types.Map)
			return isStruct || isMap
		case *types.Map:
			return true
		}
		return false
	}
	for _, m := range e.EP.Codec {
		if m.Blocks == nil {
			continue
		}
		for _, b := range m.Blocks {
			if len(b.Instrs) == 0 {
				continue
			}
			ret, ok := b.Instrs[len(b.Instrs)-1].(*ssa.Return)
			if !ok {
				continue
			}
			for ri, r := range ret.Results {
				if _, isConst := r.(*ssa.Const); isConst {
					continue
				}
				n++
				for _, l := range e.A.PointsTo(r, pta.CtxRun) {
					o := l.Obj
					if o.Foreign || o.Blob || o.Kind == pta.FuncObj || !mutableLibType(o.Type) {
						continue
					}
					shared := ""
					if e.CodecReach[o] && !e.CodecObjs[o] {
						shared = "reachable from the codec instance"
					} else if gl := objGlobals(e, o); len(gl) > 0 {
						shared = "reachable from package-level variable(s) " + strings.Join(gl, ",")
					}
					if shared == "" {
						continue
					}
					c.add("NO-SHARED-RESULT", m, fmt.Sprintf("result #%d -> %s", ri, o.Label), report.Violated, c.P.Pos(ret.Pos()),
						fmt.Sprintf("the method returns a pointer to %s, a mutable library object %s: every caller gets the same object, so a change made through it by one caller (SetParameter, field store) is seen by all others and by the codec itself", l.String(), shared))
				}
			}
		}
	}
	return n
}

// describeConstArg: the first argument of the call if it is a constant (the parameter name).
func describeConstArg(call ssa.CallInstruction) string {
	args := call.Common().Args
	if len(args) > 0 {
		if k, ok := args[0].(*ssa.Const); ok && k.Value != nil {
			return k.Value.ExactString()
		}
	}
	return "…"
}

// codecMethodReaching: the Encode / Decode method of a registered codec type from which fn is
// reached, when there is exactly one such codec type (the smallest name wins among its methods).
func (c *Ctx) codecMethodReaching(e *Eff, fn *ssa.Function) *ssa.Function {
	// a closure belongs to the method it is written in, whoever ends up calling it
	outer := fn
	for outer.Parent() != nil {
		outer = outer.Parent()
	}
	if outer != fn {
		for _, m := range append(append([]*ssa.Function{}, e.EP.CodecEnc...), e.EP.CodecDec...) {
			if m == outer {
				return m
			}
		}
	}
	var cands []*ssa.Function
	for _, m := range append(append([]*ssa.Function{}, e.EP.CodecEnc...), e.EP.CodecDec...) {
		if m == fn || c.P.Reachable([]*ssa.Function{m})[fn] {
			cands = append(cands, m)
		}
	}
	if len(cands) == 0 {
		return nil
	}
	sort.Slice(cands, func(i, j int) bool { return cands[i].String() < cands[j].String() })
	recv := cands[0].Signature.Recv().Type().String()
	for _, m := range cands {
		if m.Signature.Recv().Type().String() != recv {
			return nil
		}
	}
	return cands[0]
}

func countControls(c *Ctx, e *Eff) int {
	n := 0
	for _, t := range e.EP.CodecTypes {
		if load.IsControl(t.Obj().Pkg().Path()) {
			n++
		}
	}
	return n
}

func keysOf(m map[string]bool) []string {
	var out []string
	for k := range m {
		out = append(out, k)
	}
	sort.Strings(out)
	return out
}

// guardedNormalisation recognises the Validate() idiom `if <test of x.f> { x.f = <const or f(x.*)> }`:
//   - the written location is field f of object x (store to x.f, or copy/append into the slice
//     loaded from x.f);
//   - the write is guarded: every direct controlling branch either tests x.f itself or is in turn
//     guarded (so `a && x.f < 2 && b` and `x.f < 0 || x.f > 255` both count, `x.f < 0 || other` does not);
//   - every guarding condition and the stored value depend only on constants, package-level
//     defaults and fields of x itself — a comparison against per-call data (frame size, another
//     argument) is not a normalisation: it can fire on an object that was valid for the previous call.
func guardedNormalisation(ins ssa.Instruction) (string, bool) {
	var fa *ssa.FieldAddr
	var stored ssa.Value
	switch x := ins.(type) {
	case *ssa.Store:
		fa, _ = x.Addr.(*ssa.FieldAddr)
		stored = x.Val
	case ssa.CallInstruction:
		cc := x.Common()
		if b, ok := cc.Value.(*ssa.Builtin); ok && (b.Name() == "copy" || b.Name() == "append") && len(cc.Args) > 0 {
			if u, ok := cc.Args[0].(*ssa.UnOp); ok {
				fa, _ = u.X.(*ssa.FieldAddr)
			}
			if len(cc.Args) > 1 {
				stored = cc.Args[1]
			}
		}
	}
	if fa == nil {
		return "target is not a field of the parameters object", false
	}
	fn := ins.Parent()
	base := fa.X
	fname := fieldNameOf(fa.X.Type(), fa.Field)
	pd := newPostDom(fn)
	memo := map[*ssa.BasicBlock]int{}
	var conds []ssa.Value
	var guarded func(b *ssa.BasicBlock) bool
	guarded = func(b *ssa.BasicBlock) bool {
		if v, ok := memo[b]; ok {
			return v == 1
		}
		memo[b] = 0
		ctl := controllers(fn, pd, b)
		if len(ctl) == 0 {
			return false
		}
		for _, ct := range ctl {
			cond := ifCond(ct.Block)
			if cond == nil {
				return false
			}
			conds = append(conds, cond)
			if loadsField(backwardSlice(cond, 300), base, fname) {
				continue
			}
			if !guarded(ct.Block) {
				return false
			}
		}
		memo[b] = 1
		return true
	}
	if !guarded(ins.Block()) {
		return "no guarding test of field " + fname, false
	}
	for _, cnd := range conds {
		if why, ok := dependsOnlyOnObject(cnd, base); !ok {
			return "guard depends on per-call data: " + why, false
		}
	}
	if stored != nil {
		if why, ok := dependsOnlyOnObject(stored, base); !ok {
			return "stored value depends on per-call data: " + why, false
		}
	}
	return fmt.Sprintf("write to field %s is guarded by tests of the same field; guards and value depend only on the object and constants", fname), true
}

// cellNormalisation recognises the same idiom written as a helper over a pointer to the field:
//
//	func limitTo(field *int, lowest, highest int) { if *field < lowest { *field = lowest } … }
//
// The store goes through a pointer parameter; every controlling branch tests the pointed-to cell
// (or is itself guarded); guards and stored value depend only on the cell, constants, and other
// parameters that receive a constant at every call site in the library (limitTo(&p.Quality, 1, 100)).
func (c *Ctx) cellNormalisation(ins ssa.Instruction) (string, bool) {
	st, ok := ins.(*ssa.Store)
	if !ok {
		return "", false
	}
	cell, ok := st.Addr.(*ssa.Parameter)
	if !ok {
		return "", false
	}
	if pt, ok := cell.Type().Underlying().(*types.Pointer); !ok || !isIntBasic(pt.Elem()) {
		return "", false
	}
	fn := ins.Parent()
	loadsCell := func(v ssa.Value) bool {
		for x := range backwardSlice(v, 200) {
			if u, ok := x.(*ssa.UnOp); ok && u.Op == token.MUL && u.X == ssa.Value(cell) {
				return true
			}
		}
		return false
	}
	// other parameters must be constants at every call site
	constParam := map[*ssa.Parameter]bool{}
	for i, p := range fn.Params {
		if p == cell {
			continue
		}
		all, n := true, 0
		for _, caller := range c.scopeFuncs() {
			for _, b := range caller.Blocks {
				for _, in := range b.Instrs {
					call, ok := in.(ssa.CallInstruction)
					if !ok || call.Common().StaticCallee() != fn || i >= len(call.Common().Args) {
						continue
					}
					n++
					arg := call.Common().Args[i]
					if _, isK := arg.(*ssa.Const); isK {
						continue
					}
					// handed on from an enclosing helper of the same kind whose own argument is constant
					if pp, isP := arg.(*ssa.Parameter); isP && pp.Parent() != fn {
						if why, ok := c.paramAlwaysConst(pp, 0); ok {
							_ = why
							continue
						}
					}
					// computed from the very cell that is passed, constants and pure helpers
					// (normalize(&p.Quality, clampInt(p.Quality, 1, 100))): still a function of the cell
					if ci := paramIndex(fn, cell); ci >= 0 && ci < len(call.Common().Args) && dependsOnlyOnCellAt(arg, call.Common().Args[ci]) {
						continue
					}
					all = false
				}
			}
		}
		constParam[p] = all && n > 0
	}
	onlyCellAndConsts := func(v ssa.Value) (string, bool) {
		for x := range backwardSlice(v, 300) {
			switch y := x.(type) {
			case *ssa.Parameter:
				if y != cell && !constParam[y] {
					return "parameter " + y.Name() + " is not a constant at every call site", false
				}
			case *ssa.FreeVar:
				return "captured variable " + y.Name(), false
			case *ssa.UnOp:
				if y.Op == token.MUL && y.X != ssa.Value(cell) {
					if _, isG := y.X.(*ssa.Global); !isG {
						return "load from " + addrExpr(y.X), false
					}
				}
			case *ssa.Call:
				if sc := y.Call.StaticCallee(); sc == nil || !pureHelper(sc) {
					if _, isB := y.Call.Value.(*ssa.Builtin); !isB {
						return "call " + y.Call.Value.Name(), false
					}
				}
			}
		}
		return "", true
	}
	pd := newPostDom(fn)
	memo := map[*ssa.BasicBlock]int{}
	var conds []ssa.Value
	var guarded func(b *ssa.BasicBlock) bool
	guarded = func(b *ssa.BasicBlock) bool {
		if v, ok := memo[b]; ok {
			return v == 1
		}
		memo[b] = 0
		ctl := controllers(fn, pd, b)
		if len(ctl) == 0 {
			return false
		}
		for _, ct := range ctl {
			cond := ifCond(ct.Block)
			if cond == nil {
				return false
			}
			conds = append(conds, cond)
			if loadsCell(cond) {
				continue
			}
			if !guarded(ct.Block) {
				return false
			}
		}
		memo[b] = 1
		return true
	}
	if !guarded(ins.Block()) {
		return "", false
	}
	for _, cnd := range conds {
		if _, ok := onlyCellAndConsts(cnd); !ok {
			return "", false
		}
	}
	if _, ok := onlyCellAndConsts(st.Val); !ok {
		return "", false
	}
	return "write through the field pointer " + cell.Name() + " is guarded by tests of the pointed-to value; guards and value depend only on it and on constants", true
}

// dependsOnlyOnCellAt: v is computed only from loads of the memory cell addr names (same field of
// the same object), constants, package-level values and pure helper calls.
func dependsOnlyOnCellAt(v ssa.Value, addr ssa.Value) bool {
	sameCell := func(a ssa.Value) bool {
		if a == addr {
			return true
		}
		fa, ok1 := a.(*ssa.FieldAddr)
		fb, ok2 := addr.(*ssa.FieldAddr)
		return ok1 && ok2 && fa.Field == fb.Field && sameBase(fa.X, fb.X)
	}
	for x := range backwardSlice(v, 300) {
		switch y := x.(type) {
		case *ssa.Parameter:
			// the object itself may appear as the base of the cell's address only
			if fb, ok := addr.(*ssa.FieldAddr); !ok || !sameBase(fb.X, y) {
				return false
			}
		case *ssa.FreeVar, *ssa.Alloc, *ssa.Phi, *ssa.MakeClosure:
			return false
		case *ssa.UnOp:
			if y.Op == token.MUL && !sameCell(y.X) {
				if _, isG := y.X.(*ssa.Global); !isG {
					return false
				}
			}
		case *ssa.Call:
			if sc := y.Call.StaticCallee(); sc == nil || !pureHelper(sc) {
				if _, isB := y.Call.Value.(*ssa.Builtin); !isB {
					return false
				}
			}
		}
	}
	return true
}

// paramAlwaysConst: parameter p receives a constant at every static call site of its function.
func (c *Ctx) paramAlwaysConst(p *ssa.Parameter, depth int) (string, bool) {
	fn := p.Parent()
	idx := paramIndex(fn, p)
	if idx < 0 || depth > 2 {
		return "", false
	}
	n := 0
	for _, caller := range c.scopeFuncs() {
		for _, b := range caller.Blocks {
			for _, in := range b.Instrs {
				call, ok := in.(ssa.CallInstruction)
				if !ok || call.Common().StaticCallee() != fn || idx >= len(call.Common().Args) {
					continue
				}
				n++
				if _, isK := call.Common().Args[idx].(*ssa.Const); !isK {
					return "", false
				}
			}
		}
	}
	return "", n > 0
}

// pureHelper: a small library function without stores, map updates or calls other than builtins
// (nearestPowerOf2 and the like).
func pureHelper(fn *ssa.Function) bool { return pureHelperRec(fn, 0) }

func pureHelperRec(fn *ssa.Function, depth int) bool {
	if fn.Blocks == nil || !load.InScope(fn) || depth > 3 {
		return false
	}
	for _, b := range fn.Blocks {
		for _, ins := range b.Instrs {
			switch x := ins.(type) {
			case *ssa.Store, *ssa.MapUpdate, *ssa.Go, *ssa.Defer:
				return false
			case *ssa.Call:
				if _, isB := x.Call.Value.(*ssa.Builtin); !isB {
					sc := x.Call.StaticCallee()
					if sc == nil || sc.Pkg == nil {
						return false
					}
					if sc.Pkg.Pkg.Path() != "math/bits" && !pureHelperRec(sc, depth+1) {
						return false
					}
				}
			}
		}
	}
	return true
}

// dependsOnlyOnObject: v is computed from constants, globals, fresh allocations and loads of
// fields of base only.
func dependsOnlyOnObject(v ssa.Value, base ssa.Value) (string, bool) {
	baseSlice := backwardSlice(base, 100) // what the object pointer itself is derived from (x in x.p.f)
	for x := range backwardSlice(v, 400) {
		if baseSlice[x] {
			continue
		}
		switch y := x.(type) {
		case *ssa.Parameter:
			if !sameBase(y, base) {
				return "parameter " + y.Name(), false
			}
		case *ssa.FreeVar:
			if !sameBase(y, base) {
				return "captured variable " + y.Name(), false
			}
		case *ssa.UnOp:
			if y.Op == token.MUL {
				// a load: must be a field (path) of base, a global, or a local allocation
				root := y.X
				for i := 0; i < 10; i++ {
					switch r := root.(type) {
					case *ssa.FieldAddr:
						root = r.X
						continue
					case *ssa.IndexAddr:
						root = r.X
						continue
					case *ssa.UnOp:
						root = r.X
						continue
					}
					break
				}
				if baseSlice[root] {
					continue
				}
				switch r := root.(type) {
				case *ssa.Global, *ssa.Alloc, *ssa.MakeSlice:
				case *ssa.Parameter:
					if !sameBase(r, base) {
						return "load through parameter " + r.Name(), false
					}
				default:
					if !sameBase(root, base) {
						return "load from " + root.Name(), false
					}
				}
			}
		case *ssa.Call:
			if y.Call.IsInvoke() {
				return "interface call " + y.Call.Method.Name(), false
			}
		}
	}
	return "", true
}

// isOnceGuarded reports whether fn is only ever used as the argument of (*sync.Once).Do.
func isOnceGuarded(fn *ssa.Function, cache map[*ssa.Function]bool) bool {
	if v, ok := cache[fn]; ok {
		return v
	}
	res := false
	if fn.Parent() != nil {
		// find MakeClosure / direct uses in the parent
		for _, b := range fn.Parent().Blocks {
			for _, ins := range b.Instrs {
				call, ok := ins.(ssa.CallInstruction)
				if !ok {
					continue
				}
				sc := call.Common().StaticCallee()
				if sc == nil || sc.String() != "(*sync.Once).Do" || len(call.Common().Args) < 2 {
					continue
				}
				arg := call.Common().Args[1]
				if mc, ok := arg.(*ssa.MakeClosure); ok && mc.Fn == fn {
					res = true
				}
				if f, ok := arg.(*ssa.Function); ok && f == fn {
					res = true
				}
			}
		}
	}
	cache[fn] = res
	return res
}

// witnessPath gives a shortest call path from an API root to fn.
func witnessPath(c *Ctx, e *Eff, fn *ssa.Function) []string {
	roots := map[*ssa.Function]bool{}
	for _, f := range e.EP.API {
		roots[f] = true
	}
	for _, f := range e.EP.Codec {
		roots[f] = true
	}
	if roots[fn] {
		return []string{"entry point: " + load.FuncName(fn)}
	}
	// BFS backwards over callers
	prev := map[*ssa.Function]*ssa.Function{fn: nil}
	queue := []*ssa.Function{fn}
	for len(queue) > 0 {
		f := queue[0]
		queue = queue[1:]
		if roots[f] {
			var path []string
			for x := f; x != nil; x = prev[x] {
				path = append(path, load.FuncName(x))
			}
			return []string{"call path: " + strings.Join(path, " -> ")}
		}
		var callers []*ssa.Function
		if n := c.P.CG.Nodes[f]; n != nil {
			for _, in := range n.In {
				callers = append(callers, in.Caller.Func)
			}
		}
		if f.Parent() != nil {
			callers = append(callers, f.Parent())
		}
		for _, cf := range callers {
			if cf == nil {
				continue
			}
			if _, ok := prev[cf]; !ok {
				prev[cf] = f
				queue = append(queue, cf)
			}
		}
	}
	return nil
}

// guardReadsCell: the store goes through a pointer value that is not a field address (a pointer taken
// from a table of field pointers, the result of an accessor) and every path to it passes a branch
// whose condition reads the same cell through the same pointer value: `if !valid(*chk.field) {
// *chk.field = chk.fallback }`. That is the shape of a guarded normalisation; the witness of
// PARAMS-RO is a store no test of the cell guards.
func guardReadsCell(st *ssa.Store) string {
	if _, isField := st.Addr.(*ssa.FieldAddr); isField {
		return ""
	}
	fn := st.Parent()
	pd := newPostDom(fn)
	ctl := controllers(fn, pd, st.Block())
	if len(ctl) == 0 {
		return ""
	}
	for _, ct := range ctl {
		cond := ifCond(ct.Block)
		if cond == nil {
			return ""
		}
		reads := false
		for v := range backwardSlice(cond, 200) {
			if ld, ok := v.(*ssa.UnOp); ok && ld.Op == token.MUL && (ld.X == st.Addr || sameBase(ld.X, st.Addr)) {
				reads = true
			}
		}
		if !reads {
			return ""
		}
	}
	return "the store is controlled by a test of the cell it writes"
}
