package props

import (
	"fmt"
	"go/token"
	"go/types"
	"sort"
	"strings"

	"golang.org/x/tools/go/ssa"

	"dcmcheck/internal/load"
	"dcmcheck/internal/report"
)

// Engine E1b (DESIGN §3.2): what one call on an object leaves behind for the next call to observe.
//
// For a struct type T and a set of per-call entry methods, every function that receives the object
// (as receiver, as a *T argument, or captured by a closure) gets a summary
//
//	UpExp    fields possibly read before being definitely (whole-field) assigned
//	MustDef  fields definitely assigned on every return that may carry a nil error
//	MayWrite fields assigned, or whose pointed-to content is written
//
// computed by a forward must-analysis over the function's CFG with bottom-up summaries at calls on
// the same object, iterated to a fixpoint over recursion. Carry(T) = MayWrite ∩ UpExp of the entries.

type fset map[string]bool

func (s fset) clone() fset {
	o := fset{}
	for k := range s {
		o[k] = true
	}
	return o
}

func (s fset) sorted() []string {
	var o []string
	for k := range s {
		o = append(o, k)
	}
	sort.Strings(o)
	return o
}

func intersect(a, b fset) fset {
	o := fset{}
	for k := range a {
		if b[k] {
			o[k] = true
		}
	}
	return o
}

type selfKey struct {
	fn  *ssa.Function
	idx int // parameter index, or -1-i for free variable i
}

type fieldDef struct {
	store *ssa.Store
	fn    *ssa.Function
}

type carrySummary struct {
	UpExp, MustDef, MayWrite fset
	Reads                    fset
	Escapes                  string
	done                     bool
}

type carryAnalysis struct {
	c       *Ctx
	T       *types.Named
	fields  []string
	sums    map[selfKey]*carrySummary
	defs    map[string][]fieldDef        // whole-field stores per field (all analysed functions)
	upReads map[string][]ssa.Instruction // upward-exposed read sites per field
	reads   map[string][]ssa.Instruction // every read site per field
	content map[string][]ssa.Instruction // content writes per field
	visited map[selfKey]bool
	callers map[selfKey][]callerSite
}

type callerSite struct {
	caller selfKey
	instr  ssa.Instruction
}

func newCarryAnalysis(c *Ctx, T *types.Named) *carryAnalysis {
	ca := &carryAnalysis{c: c, T: T, sums: map[selfKey]*carrySummary{}, defs: map[string][]fieldDef{}, upReads: map[string][]ssa.Instruction{},
		reads: map[string][]ssa.Instruction{}, content: map[string][]ssa.Instruction{}, visited: map[selfKey]bool{}, callers: map[selfKey][]callerSite{}}
	if st, ok := T.Underlying().(*types.Struct); ok {
		for i := 0; i < st.NumFields(); i++ {
			ca.fields = append(ca.fields, st.Field(i).Name())
		}
	}
	return ca
}

func (ca *carryAnalysis) all() fset {
	o := fset{}
	for _, f := range ca.fields {
		o[f] = true
	}
	return o
}

func (ca *carryAnalysis) isPtrToT(t types.Type) bool {
	p, ok := t.Underlying().(*types.Pointer)
	if !ok {
		return false
	}
	n, ok := p.Elem().(*types.Named)
	return ok && n.Obj() == ca.T.Obj()
}

func selfValue(k selfKey) ssa.Value {
	if k.idx >= 0 {
		return k.fn.Params[k.idx]
	}
	return k.fn.FreeVars[-1-k.idx]
}

// summary computes (with fixpoint over recursion) the summary of fn with respect to the object
// held in the given parameter / free variable.
func (ca *carryAnalysis) summary(k selfKey) *carrySummary {
	if s, ok := ca.sums[k]; ok {
		return s
	}
	// optimistic start for recursion: nothing exposed, everything defined
	s := &carrySummary{UpExp: fset{}, MustDef: ca.all(), MayWrite: fset{}, Reads: fset{}}
	ca.sums[k] = s
	for iter := 0; iter < 10; iter++ {
		ns := ca.analyse(k)
		same := len(ns.UpExp) == len(s.UpExp) && len(ns.MustDef) == len(s.MustDef) && len(ns.MayWrite) == len(s.MayWrite) && len(ns.Reads) == len(s.Reads) && ns.Escapes == s.Escapes
		*s = *ns
		if same {
			break
		}
	}
	s.done = true
	return s
}

type accKind int

const (
	accRead accKind = iota
	accDef
	accContent
	accCall
	accClosure
	accEscape
	accSeq      // a complete walk of a table of functions, each receiving the object: they run in order
	accSeqHoist // (at the loop's pre-header) the walk's definitions hold from here on every non-failing path
)

type access struct {
	kind   accKind
	field  string
	instr  ssa.Instruction
	callee selfKey
	why    string
	seq    []selfKey       // accSeq / accSeqHoist: the entries in table order
	site   ssa.Instruction // accSeqHoist: the walk's call instruction
}

// accessesOf lists, per instruction, what it does to the tracked object.
func (ca *carryAnalysis) accessesOf(k selfKey) map[ssa.Instruction][]access {
	self := selfValue(k)
	out := map[ssa.Instruction][]access{}
	add := func(ins ssa.Instruction, a access) {
		a.instr = ins
		out[ins] = append(out[ins], a)
	}
	if self.Referrers() == nil {
		return out
	}
	var useAddr func(field string, addr ssa.Value, whole bool)
	useAddr = func(field string, addr ssa.Value, whole bool) {
		if addr.Referrers() == nil {
			return
		}
		for _, r := range *addr.Referrers() {
			switch u := r.(type) {
			case *ssa.Store:
				if u.Addr == addr {
					if whole {
						add(u, access{kind: accDef, field: field})
					} else {
						add(u, access{kind: accRead, field: field})
						add(u, access{kind: accContent, field: field})
					}
				} else {
					// the address itself is stored somewhere
					add(u, access{kind: accRead, field: field})
					add(u, access{kind: accContent, field: field, why: "address of field stored"})
				}
			case *ssa.UnOp:
				if u.Op == token.MUL {
					add(u, access{kind: accRead, field: field})
					ca.contentUses(field, u, add, 0)
				}
			case *ssa.FieldAddr:
				useAddr(field, u, false)
			case *ssa.IndexAddr:
				useAddr(field, u, false)
			case *ssa.Slice:
				add(u, access{kind: accRead, field: field})
				ca.contentUses(field, u, add, 0)
			case ssa.CallInstruction:
				add(u, access{kind: accRead, field: field})
				add(u, access{kind: accContent, field: field, why: "address of field passed to a call"})
			case *ssa.DebugRef:
			default:
				add(r, access{kind: accRead, field: field})
			}
		}
	}
	for _, r := range *self.Referrers() {
		switch u := r.(type) {
		case *ssa.FieldAddr:
			if u.X == self {
				useAddr(fieldNameOf(u.X.Type(), u.Field), u, true)
			}
		case ssa.CallInstruction:
			cc := u.Common()
			if cc.IsInvoke() && cc.Value == self {
				add(u, access{kind: accEscape, why: "object used as an interface receiver"})
				continue
			}
			callees := []*ssa.Function{}
			if sc := cc.StaticCallee(); sc != nil {
				callees = append(callees, sc)
			} else if !cc.IsInvoke() {
				if n := ca.c.P.CG.Nodes[k.fn]; n != nil {
					for _, e := range n.Out {
						if e.Site == u && e.Callee.Func != nil {
							callees = append(callees, e.Callee.Func)
						}
					}
				}
			}
			args := cc.Args
			matched := false
			if entries, h, ok := tableWalk(u); ok {
				// for _, stage := range stages { if err := stage(obj); err != nil { return err } }
				for ai, a := range args {
					if a != self {
						continue
					}
					var seq []selfKey
					okAll := true
					for _, f := range entries {
						if f.Blocks == nil || ai >= len(f.Params) {
							okAll = false
						}
						seq = append(seq, selfKey{f, ai})
					}
					var pre *ssa.BasicBlock
					for _, p := range h.Preds {
						if !h.Dominates(p) {
							if pre != nil {
								okAll = false
							}
							pre = p
						}
					}
					if okAll && pre != nil && len(pre.Instrs) > 0 {
						add(u, access{kind: accSeq, seq: seq})
						add(pre.Instrs[len(pre.Instrs)-1], access{kind: accSeqHoist, seq: seq, site: u})
						matched = true
					}
				}
				if matched {
					continue
				}
			}
			for ai, a := range args {
				if a != self {
					continue
				}
				for _, callee := range callees {
					if callee.Blocks == nil || ai >= len(callee.Params) {
						add(u, access{kind: accEscape, why: "object passed to " + callee.String() + " (no body)"})
						continue
					}
					add(u, access{kind: accCall, callee: selfKey{callee, ai}})
					matched = true
				}
				if len(callees) == 0 {
					add(u, access{kind: accEscape, why: "object passed to an unresolved call"})
				}
			}
			if cc.IsInvoke() {
				for _, a := range args {
					if a == self {
						add(u, access{kind: accEscape, why: "object passed to an interface method"})
					}
				}
			}
			_ = matched
		case *ssa.MakeClosure:
			fnc := u.Fn.(*ssa.Function)
			for bi, b := range u.Bindings {
				if b == self {
					add(u, access{kind: accClosure, callee: selfKey{fnc, -1 - bi}})
				}
			}
		case *ssa.Return, *ssa.DebugRef:
		case *ssa.BinOp:
			// comparison with nil
		case *ssa.Phi, *ssa.Store, *ssa.MakeInterface:
			add(r, access{kind: accEscape, why: "object pointer copied (" + r.String() + ")"})
		case *ssa.UnOp:
			// *self : whole-struct load
			for _, f := range ca.fields {
				add(u, access{kind: accRead, field: f})
			}
		}
	}
	return out
}

// contentUses classifies what is done with a value loaded from a field: writes through it are
// content writes of that field.
func (ca *carryAnalysis) contentUses(field string, v ssa.Value, add func(ssa.Instruction, access), depth int) {
	if depth > 6 || v.Referrers() == nil {
		return
	}
	for _, r := range *v.Referrers() {
		switch u := r.(type) {
		case *ssa.IndexAddr:
			if u.X == v {
				ca.addrContent(field, u, add, depth+1)
			}
		case *ssa.FieldAddr:
			if u.X == v {
				ca.addrContent(field, u, add, depth+1)
			}
		case *ssa.MapUpdate:
			if u.Map == v {
				add(u, access{kind: accContent, field: field})
			}
		case *ssa.Slice:
			ca.contentUses(field, u, add, depth+1)
		case *ssa.Phi:
			ca.contentUses(field, u, add, depth+1)
		case ssa.CallInstruction:
			cc := u.Common()
			if b, ok := cc.Value.(*ssa.Builtin); ok {
				if (b.Name() == "copy" || b.Name() == "append") && len(cc.Args) > 0 && cc.Args[0] == v {
					if b.Name() == "copy" {
						add(u, access{kind: accContent, field: field})
					}
				}
			}
		}
	}
}

func (ca *carryAnalysis) addrContent(field string, addr ssa.Value, add func(ssa.Instruction, access), depth int) {
	if depth > 6 || addr.Referrers() == nil {
		return
	}
	for _, r := range *addr.Referrers() {
		switch u := r.(type) {
		case *ssa.Store:
			if u.Addr == addr {
				add(u, access{kind: accContent, field: field})
			}
		case *ssa.UnOp:
			if u.Op == token.MUL {
				ca.contentUses(field, u, add, depth+1)
			}
		case *ssa.FieldAddr:
			ca.addrContent(field, u, add, depth+1)
		case *ssa.IndexAddr:
			ca.addrContent(field, u, add, depth+1)
		}
	}
}

// definitelyNonNilError: the error operand of a return is certainly non-nil.
func definitelyNonNilError(ret *ssa.Return, idx int) bool {
	if idx < 0 || idx >= len(ret.Results) {
		return false
	}
	return nonNilErrValue(ret.Results[idx], ret.Block(), 0)
}

func nonNilErrValue(v ssa.Value, at *ssa.BasicBlock, depth int) bool {
	if depth > 4 {
		return false
	}
	switch x := v.(type) {
	case *ssa.Const:
		return false
	case *ssa.Call:
		if sc := x.Call.StaticCallee(); sc != nil {
			s := sc.String()
			if s == "fmt.Errorf" || s == "errors.New" {
				return true
			}
		}
	case *ssa.MakeInterface:
		return true
	case *ssa.UnOp:
		if g, ok := x.X.(*ssa.Global); ok && x.Type().String() == "error" {
			_ = g
			return true // a package-level sentinel error
		}
	case *ssa.Phi:
		for _, e := range x.Edges {
			if !nonNilErrValue(e, at, depth+1) {
				return false
			}
		}
		return len(x.Edges) > 0
	}
	// checked non-nil on a dominating edge: if v != nil { ... return v }
	for b := at; b != nil; b = b.Idom() {
		id := b.Idom()
		if id == nil {
			break
		}
		cond := ifCond(id)
		bo, ok := cond.(*ssa.BinOp)
		if !ok || len(id.Succs) != 2 {
			continue
		}
		var other ssa.Value
		if bo.X == v {
			other = bo.Y
		} else if bo.Y == v {
			other = bo.X
		} else {
			continue
		}
		if !isNilConst(other) {
			continue
		}
		// b must be reached only through the edge on which v != nil
		var nonNilSucc *ssa.BasicBlock
		switch bo.Op {
		case token.NEQ:
			nonNilSucc = id.Succs[0]
		case token.EQL:
			nonNilSucc = id.Succs[1]
		default:
			continue
		}
		if nonNilSucc == b && len(b.Preds) == 1 || nonNilSucc.Dominates(at) && len(nonNilSucc.Preds) == 1 {
			return true
		}
	}
	return false
}

// analyse runs the intraprocedural must-analysis for fn w.r.t. the object in slot k.
func (ca *carryAnalysis) analyse(k selfKey) *carrySummary {
	fn := k.fn
	acc := ca.accessesOf(k)
	res := &carrySummary{UpExp: fset{}, MustDef: fset{}, MayWrite: fset{}, Reads: fset{}}
	in := make([]fset, len(fn.Blocks))
	out := make([]fset, len(fn.Blocks))
	all := ca.all()
	for i := range fn.Blocks {
		out[i] = all.clone()
	}
	// iterate to fixpoint (must analysis: start from TOP, meet = intersection)
	changed := true
	for rounds := 0; changed && rounds < 50; rounds++ {
		changed = false
		for _, b := range fn.Blocks {
			var cur fset
			if b.Index == 0 || len(b.Preds) == 0 {
				cur = fset{}
			} else {
				cur = nil
				for _, p := range b.Preds {
					if cur == nil {
						cur = out[p.Index].clone()
					} else {
						cur = intersect(cur, out[p.Index])
					}
				}
			}
			in[b.Index] = cur.clone()
			for _, ins := range b.Instrs {
				for _, a := range acc[ins] {
					switch a.kind {
					case accDef:
						cur[a.field] = true
					case accCall:
						cs := ca.summary(a.callee)
						for f := range cs.MustDef {
							cur[f] = true
						}
					case accSeqHoist:
						for f := range ca.composeSeq(a.seq, nil).MustDef {
							cur[f] = true
						}
					}
				}
			}
			if len(cur) != len(out[b.Index]) {
				changed = true
			}
			out[b.Index] = cur
		}
	}
	// second pass: collect exposure with the converged states
	ei := errorResultIndex(fn)
	first := true
	seqPre := map[ssa.Instruction]fset{}
	k0 := k
	for _, b := range fn.Blocks {
		cur := in[b.Index].clone()
		if cur == nil {
			cur = fset{}
		}
		for _, ins := range b.Instrs {
			for _, a := range acc[ins] {
				switch a.kind {
				case accRead:
					res.Reads[a.field] = true
					ca.reads[a.field] = appendInstr(ca.reads[a.field], ins)
					if !cur[a.field] {
						res.UpExp[a.field] = true
						ca.upReads[a.field] = appendInstr(ca.upReads[a.field], ins)
					}
				case accDef:
					res.MayWrite[a.field] = true
					if st, ok := ins.(*ssa.Store); ok {
						ca.defs[a.field] = appendDef(ca.defs[a.field], fieldDef{st, fn})
					}
				case accContent:
					res.MayWrite[a.field] = true
					ca.content[a.field] = appendInstr(ca.content[a.field], ins)
				case accCall:
					cs := ca.summary(a.callee)
					ca.addCaller(a.callee, callerSite{k, ins})
					for f := range cs.UpExp {
						if !cur[f] {
							res.UpExp[f] = true
						}
					}
					for f := range cs.MayWrite {
						res.MayWrite[f] = true
					}
					for f := range cs.Reads {
						res.Reads[f] = true
					}
					if cs.Escapes != "" && res.Escapes == "" {
						res.Escapes = cs.Escapes
					}
				case accClosure:
					cs := ca.summary(a.callee)
					// flow-insensitive: the closure may run at any later time, any number of times
					for f := range cs.Reads {
						res.Reads[f] = true
						if !cur[f] {
							res.UpExp[f] = true
						}
					}
					for f := range cs.UpExp {
						if !cur[f] {
							res.UpExp[f] = true
						}
					}
					for f := range cs.MayWrite {
						res.MayWrite[f] = true
					}
				case accSeqHoist:
					seqPre[a.site] = cur.clone()
				case accSeq:
					pre := seqPre[ins]
					if pre == nil {
						pre = fset{}
					}
					cs := ca.composeSeq(a.seq, func(k selfKey) { ca.addCaller(k, callerSite{k0, ins}) })
					for f := range cs.UpExp {
						if !pre[f] {
							res.UpExp[f] = true
						}
					}
					for f := range cs.MayWrite {
						res.MayWrite[f] = true
					}
					for f := range cs.Reads {
						res.Reads[f] = true
					}
					if cs.Escapes != "" && res.Escapes == "" {
						res.Escapes = cs.Escapes
					}
				case accEscape:
					if res.Escapes == "" {
						res.Escapes = a.why + " in " + load.FuncName(fn)
					}
				}
			}
			// state update
			for _, a := range acc[ins] {
				switch a.kind {
				case accDef:
					cur[a.field] = true
				case accCall:
					for f := range ca.summary(a.callee).MustDef {
						cur[f] = true
					}
				case accSeqHoist:
					for f := range ca.composeSeq(a.seq, nil).MustDef {
						cur[f] = true
					}
				}
			}
			if ret, ok := ins.(*ssa.Return); ok {
				if ei >= 0 && definitelyNonNilError(ret, ei) {
					continue
				}
				if first {
					res.MustDef = cur.clone()
					first = false
				} else {
					res.MustDef = intersect(res.MustDef, cur)
				}
			}
		}
	}
	if first {
		// no ok-return at all (always errors / never returns): defines nothing relevant
		res.MustDef = ca.all()
	}
	return res
}

// composeSeq: the summary of calling the entries one after the other (all of them, in order).
func (ca *carryAnalysis) composeSeq(seq []selfKey, each func(selfKey)) *carrySummary {
	res := &carrySummary{UpExp: fset{}, MustDef: fset{}, MayWrite: fset{}, Reads: fset{}}
	for _, k := range seq {
		cs := ca.summary(k)
		if each != nil {
			each(k)
		}
		for f := range cs.UpExp {
			if !res.MustDef[f] {
				res.UpExp[f] = true
			}
		}
		for f := range cs.Reads {
			res.Reads[f] = true
		}
		for f := range cs.MayWrite {
			res.MayWrite[f] = true
		}
		for f := range cs.MustDef {
			res.MustDef[f] = true
		}
		if cs.Escapes != "" && res.Escapes == "" {
			res.Escapes = cs.Escapes
		}
	}
	return res
}

func (ca *carryAnalysis) addCaller(callee selfKey, cs callerSite) {
	for _, x := range ca.callers[callee] {
		if x.instr == cs.instr && x.caller == cs.caller {
			return
		}
	}
	ca.callers[callee] = append(ca.callers[callee], cs)
}

func appendInstr(s []ssa.Instruction, i ssa.Instruction) []ssa.Instruction {
	for _, x := range s {
		if x == i {
			return s
		}
	}
	return append(s, i)
}

func appendDef(s []fieldDef, d fieldDef) []fieldDef {
	for _, x := range s {
		if x.store == d.store {
			return s
		}
	}
	return append(s, d)
}

// ---------------------------------------------------------------------------------------------
// verdicts

type carryTarget struct {
	T       *types.Named
	Entries []*ssa.Function
	Why     string
	// Sequence: the entries are the calls made on the object inside one iteration of a frame
	// loop, in dominance order; one iteration is the unit that must not depend on the previous one.
	Sequence bool
	sites    []ssa.Instruction
}

// carryRule implements CARRY (DESIGN C10 rule 2).
func (c *Ctx) carryRule(e *Eff) map[string]any {
	targets := c.carryTargets(e)
	info := map[string]any{}
	nT := 0
	for _, tg := range targets {
		if !load.IsControl(tg.T.Obj().Pkg().Path()) {
			nT++
		}
		ca := newCarryAnalysis(c, tg.T)
		upexp, maywrite := fset{}, fset{}
		escapes := ""
		var names []string
		defined := fset{}
		for _, m := range tg.Entries {
			s := ca.summary(selfKey{m, 0})
			names = append(names, m.Name())
			for f := range s.UpExp {
				if tg.Sequence && defined[f] {
					continue // assigned by an earlier call of the same iteration
				}
				upexp[f] = true
			}
			for f := range s.MayWrite {
				maywrite[f] = true
			}
			if tg.Sequence {
				for f := range s.MustDef {
					defined[f] = true
				}
			}
			if s.Escapes != "" && escapes == "" {
				escapes = s.Escapes
			}
		}
		carry := intersect(upexp, maywrite)
		tname := tg.T.Obj().Pkg().Name() + "." + tg.T.Obj().Name()
		if tg.Sequence {
			tname += " (per frame-loop iteration)"
		}
		info[tname] = map[string]any{"entries": names, "why": tg.Why, "upward_exposed": upexp.sorted(), "may_write": maywrite.sorted(), "carry": carry.sorted(), "escapes": escapes}
		config := fset{}
		for _, f := range ca.fields {
			if !maywrite[f] {
				config[f] = true
			}
		}
		entryFn := tg.Entries[0]
		for _, f := range ca.fields {
			construct := tname + "." + f + " across " + strings.Join(names, "/")
			pos := c.P.Pos(entryFn.Pos())
			if !carry[f] {
				why := "re-assigned before any read in every entry"
				if !maywrite[f] {
					why = "never written by an entry (configuration)"
				} else if !upexp[f] {
					why = "always assigned before it is read"
				}
				o := c.add("CARRY", entryFn, construct, report.Discharged, pos, why)
				_ = o
				continue
			}
			st, detail, wit := ca.classify(f, config)
			if escapes != "" && st == report.Violated {
				// the object escapes the analysed call tree: the picture may be incomplete, but a
				// witness shape found inside it stands
				detail += " (note: " + escapes + ")"
			}
			if len(ca.upReads[f]) > 0 {
				pos = c.P.Pos(ca.upReads[f][0].Pos())
			}
			c.add("CARRY", entryFn, construct, st, pos, detail, wit...)
		}
	}
	c.C.Floor("CARRY-targets", nT, 2)
	c.C.ExpectControl("CARRY")
	return info
}

// carryTargets: jpeg2000.Encoder / Decoder (object-level call histories) plus every object a codec
// creates outside its frame loop and uses inside it.
func (c *Ctx) carryTargets(e *Eff) []carryTarget {
	var out []carryTarget
	find := func(n *types.Named, why string, seq bool) int {
		for i := range out {
			if out[i].T.Obj() == n.Obj() && out[i].Why == why {
				return i
			}
		}
		out = append(out, carryTarget{T: n, Why: why, Sequence: seq})
		return len(out) - 1
	}
	addEntry := func(n *types.Named, m *ssa.Function, why string) {
		if m == nil || m.Blocks == nil {
			return
		}
		t := &out[find(n, why, false)]
		for _, x := range t.Entries {
			if x == m {
				return
			}
		}
		t.Entries = append(t.Entries, m)
	}
	addSeqEntry := func(n *types.Named, m *ssa.Function, site ssa.Instruction, why string) {
		t := &out[find(n, why, true)]
		for _, x := range t.sites {
			if x == site {
				return
			}
		}
		// insert in dominance order of the call sites
		pos := len(t.sites)
		for i, x := range t.sites {
			if instrDominates(site, x) {
				pos = i
				break
			}
		}
		t.sites = append(t.sites, nil)
		copy(t.sites[pos+1:], t.sites[pos:])
		t.sites[pos] = site
		t.Entries = append(t.Entries, nil)
		copy(t.Entries[pos+1:], t.Entries[pos:])
		t.Entries[pos] = m
	}
	if pk := c.P.ByPath[load.ModPath+"/jpeg2000"]; pk != nil {
		for name, ents := range map[string][]string{"Encoder": {"Encode", "EncodeComponents"}, "Decoder": {"Decode"}} {
			if tn, ok := pk.Types.Scope().Lookup(name).(*types.TypeName); ok {
				n := tn.Type().(*types.Named)
				for _, m := range ents {
					addEntry(n, c.P.Method(n, m), "object-level call histories (property quantifier)")
				}
			}
		}
	}
	// discovered: values defined before a frame loop and used as call receivers/arguments inside it
	for _, fn := range c.scopeFuncs() {
		if !e.ReachCodec[fn] {
			continue
		}
		loops := naturalLoops(fn)
		for _, b := range fn.Blocks {
			for _, ins := range b.Instrs {
				call, m := pixelDataCall(ins)
				if call == nil || m != "GetFrame" {
					continue
				}
				l := innermostLoopOf(loops, b)
				if l == nil {
					continue
				}
				for lb := range l.Blocks {
					for _, li := range lb.Instrs {
						ci, ok := li.(ssa.CallInstruction)
						if !ok {
							continue
						}
						sc := ci.Common().StaticCallee()
						if sc == nil || sc.Blocks == nil || len(ci.Common().Args) == 0 || sc.Signature.Recv() == nil {
							continue
						}
						recv := ci.Common().Args[0]
						n := load.NamedOf(recv.Type())
						if n == nil || n.Obj().Pkg() == nil || !(load.IsLib(n.Obj().Pkg().Path()) || load.IsControl(n.Obj().Pkg().Path())) {
							continue
						}
						if _, isStruct := n.Underlying().(*types.Struct); !isStruct {
							continue
						}
						// defined outside the loop?
						if definedInLoop(recv, l) {
							continue
						}
						if _, isParam := recv.(*ssa.Parameter); isParam {
							if isCodecType(e, n) {
								continue // the codec itself: covered by NO-RECEIVER-WRITE
							}
						}
						addSeqEntry(n, sc, li, "allocated outside the frame loop of "+load.FuncName(fn)+" and used inside it")
					}
				}
			}
		}
	}
	sort.SliceStable(out, func(i, j int) bool { return out[i].T.Obj().Id() < out[j].T.Obj().Id() })
	return out
}

func isCodecType(e *Eff, n *types.Named) bool {
	for _, t := range e.EP.CodecTypes {
		if t.Obj() == n.Obj() {
			return true
		}
	}
	return false
}

func definedInLoop(v ssa.Value, l *natLoop) bool {
	if ins, ok := v.(ssa.Instruction); ok {
		return l.Blocks[ins.Block()]
	}
	return false
}

// classify decides a carried field.
func (ca *carryAnalysis) classify(f string, config fset) (report.Status, string, []string) {
	c := ca.c
	defs := ca.defs[f]
	var wit []string
	for _, r := range ca.upReads[f] {
		wit = append(wit, "read before assignment: "+c.P.Pos(r.Pos())+" in "+load.FuncName(r.Parent()))
	}
	for _, d := range defs {
		wit = append(wit, "assigned: "+c.P.Pos(d.store.Pos())+" in "+load.FuncName(d.fn))
	}
	for _, w := range ca.content[f] {
		wit = append(wit, "content written: "+c.P.Pos(w.Pos())+" in "+load.FuncName(w.Parent()))
	}
	if len(wit) > 12 {
		wit = wit[:12]
	}
	// does the old value go anywhere but back into the field itself?
	if !ca.oldValueUsedElsewhere(f) {
		return report.OutOfScope, "the old value is only used to compute the field's own next value (e.g. a counter); no flow to an output is visible", wit
	}
	if len(defs) == 0 {
		// only content writes (e.g. a map/slice filled in place and never re-created)
		allNorm := true
		for _, w := range ca.content[f] {
			st, ok := w.(*ssa.Store)
			if !ok {
				allNorm = false
				break
			}
			if _, isConst := st.Val.(*ssa.Const); !isConst {
				allNorm = false
				break
			}
			if _, ok := guardedNormalisation(st); !ok {
				allNorm = false
				break
			}
		}
		if allNorm {
			return report.Discharged, "the only writes are constant normalisations guarded by a test of the same location (history-independent)", wit
		}
		return report.Violated, "the field is never re-assigned by an entry method but its content is written during a call and read by the next one: state accumulates across calls", wit
	}
	// exemption (i): constant normalisation
	allNorm := true
	for _, d := range defs {
		if _, isConst := d.store.Val.(*ssa.Const); !isConst {
			allNorm = false
			break
		}
		if _, ok := guardedNormalisation(d.store); !ok {
			allNorm = false
			break
		}
	}
	if allNorm && len(ca.content[f]) == 0 {
		return report.Discharged, "constant normalisation guarded by a test of the same field (history-independent)", wit
	}
	// exemption (ii): config-only memo
	allConfig := true
	memo := config.clone()
	memo[f] = true // the memo may test itself (if x.ready { return cached })
	for _, d := range defs {
		if _, ok := ca.dependsOnlyOnConfig(d.store.Val, d.fn, config, 0); !ok {
			allConfig = false
			break
		}
		// the conditions under which it is (re)computed must be configuration-only as well
		for _, cond := range transitiveConds(d.store) {
			if _, ok := ca.dependsOnlyOnConfig(cond, d.fn, memoWithFlags(memo, ca, config), 0); !ok {
				allConfig = false
				break
			}
		}
		if !allConfig {
			break
		}
	}
	if allConfig && len(ca.content[f]) == 0 {
		return report.Discharged, "memo of a value computed from configuration fields and constants only (same value would be recomputed)", wit
	}
	// P1: accumulate-only
	accumulate := true
	for _, d := range defs {
		if !loadsFieldAny(sliceWithAllocCalls(d.store.Val), f) {
			accumulate = false
		}
	}
	if accumulate {
		return report.Violated, "accumulate-only: every assignment computes the new value from the field's own old value (e.g. append(x.f, ...)) and nothing resets it, so a later call sees the earlier calls' contributions", wit
	}
	// keyed cache: re-computed under a comparison of the cached state with a non-constant value
	for _, d := range defs {
		if ca.keyCompareGuard(d.store, f) {
			if missing := ca.keyMissing(d, f, config); len(missing) > 0 {
				return report.Violated, fmt.Sprintf("cached under a key that omits what the cached value is computed from: the value depends on %v, which the guarding comparison does not test, so a call with the same key but different %v reuses a stale value", missing, missing), wit
			}
			return report.OutOfScope, "re-computed under a comparison of the object's state with per-call values that cover everything the new value is directly computed from (keyed cache / buffer-reuse idiom); not decided further", wit
		}
	}
	// an assignment that runs on every call (modulo nil/error guards) exists: the must-analysis is
	// merely too weak to order it before the first read
	for _, d := range defs {
		if ca.unconditionalDef(d, map[selfKey]bool{}) {
			return report.OutOfScope, "the field is assigned on every call at " + c.P.Pos(d.store.Pos()) + " (only nil / error guards in front of it), but not provably before its first read", wit
		}
	}
	return report.Violated, "assigned only under input-dependent conditions (or once, on first use) and never reset: a call whose input does not trigger the assignment reads the value left by an earlier call", wit
}

// benignGuard: a branch condition that is a nil comparison (defensive nil check, error check).
func benignGuard(cond ssa.Value) bool {
	bo, ok := cond.(*ssa.BinOp)
	if !ok || (bo.Op != token.EQL && bo.Op != token.NEQ) {
		return false
	}
	return isNilConst(bo.X) || isNilConst(bo.Y)
}

// blockUnconditional: every branch the block is (transitively) control-dependent on is a benign
// guard, and the block is not inside a loop.
func blockUnconditional(fn *ssa.Function, b *ssa.BasicBlock) bool {
	for _, l := range naturalLoops(fn) {
		if l.Blocks[b] {
			return false
		}
	}
	pd := newPostDom(fn)
	seen := map[*ssa.BasicBlock]bool{}
	work := []*ssa.BasicBlock{b}
	for len(work) > 0 {
		x := work[len(work)-1]
		work = work[:len(work)-1]
		for _, ct := range controllers(fn, pd, x) {
			if seen[ct.Block] {
				continue
			}
			seen[ct.Block] = true
			cond := ifCond(ct.Block)
			if cond == nil || !benignGuard(cond) {
				return false
			}
			work = append(work, ct.Block)
		}
	}
	return true
}

// unconditionalDef: the store runs on every call of some entry, up to benign guards, following the
// chain of calls on the same object back to an entry.
func (ca *carryAnalysis) unconditionalDef(d fieldDef, visiting map[selfKey]bool) bool {
	if !blockUnconditional(d.fn, d.store.Block()) {
		return false
	}
	return ca.chainUnconditional(d.fn, visiting)
}

func (ca *carryAnalysis) chainUnconditional(fn *ssa.Function, visiting map[selfKey]bool) bool {
	// find the selfKey(s) of fn that were analysed
	found := false
	for k := range ca.sums {
		if k.fn != fn {
			continue
		}
		found = true
		cs := ca.callers[k]
		if len(cs) == 0 {
			return true // an entry (nobody calls it on the same object)
		}
		if visiting[k] {
			continue
		}
		visiting[k] = true
		for _, c := range cs {
			if blockUnconditional(c.caller.fn, c.instr.Block()) && ca.chainUnconditional(c.caller.fn, visiting) {
				return true
			}
		}
	}
	return !found
}

// keyCompareGuard: the store is control-dependent on a comparison between the object's state and
// a non-constant value (a cache key test).
func (ca *carryAnalysis) keyCompareGuard(st *ssa.Store, f string) bool {
	fn := st.Parent()
	pd := newPostDom(fn)
	seen := map[*ssa.BasicBlock]bool{}
	work := []*ssa.BasicBlock{st.Block()}
	for len(work) > 0 {
		b := work[len(work)-1]
		work = work[:len(work)-1]
		for _, ct := range controllers(fn, pd, b) {
			if seen[ct.Block] {
				continue
			}
			seen[ct.Block] = true
			work = append(work, ct.Block)
			bo, ok := ifCond(ct.Block).(*ssa.BinOp)
			if !ok {
				continue
			}
			if _, isC := bo.X.(*ssa.Const); isC {
				continue
			}
			if _, isC := bo.Y.(*ssa.Const); isC {
				continue
			}
			// one side must be derived from the cached field itself (cap(x.buf) < n, x.asm.w != w)
			readsObj := func(v ssa.Value) bool {
				for x := range backwardSlice(v, 200) {
					if fa, ok := x.(*ssa.FieldAddr); ok && ca.isPtrToT(fa.X.Type()) && fieldNameOf(fa.X.Type(), fa.Field) == f {
						return true
					}
				}
				return false
			}
			if readsObj(bo.X) || readsObj(bo.Y) {
				return true
			}
		}
	}
	return false
}

func loadsFieldAny(slice map[ssa.Value]bool, fname string) bool {
	for v := range slice {
		u, ok := v.(*ssa.UnOp)
		if !ok || u.Op != token.MUL {
			continue
		}
		if fa, ok := u.X.(*ssa.FieldAddr); ok && fieldNameOf(fa.X.Type(), fa.Field) == fname {
			return true
		}
	}
	return false
}

func isResetValue(v ssa.Value) bool {
	switch x := v.(type) {
	case *ssa.Const:
		return true
	case *ssa.MakeSlice, *ssa.MakeMap, *ssa.Alloc:
		return true
	case *ssa.Slice:
		return isResetValue(x.X)
	case *ssa.Call:
		// constructor-like call with no dependence checked here
		return false
	}
	return false
}

// oldValueUsedElsewhere: some upward-exposed read's value has a use outside the derivation of a
// store to the same field.
func (ca *carryAnalysis) oldValueUsedElsewhere(f string) bool {
	// values feeding stores to f
	feed := map[ssa.Value]bool{}
	for _, d := range ca.defs[f] {
		for v := range sliceWithAllocCalls(d.store.Val) {
			feed[v] = true
		}
	}
	for _, r := range ca.reads[f] {
		v, ok := r.(ssa.Value)
		if !ok {
			return true
		}
		if v.Referrers() == nil {
			continue
		}
		for _, u := range *v.Referrers() {
			if _, isDbg := u.(*ssa.DebugRef); isDbg {
				continue
			}
			uv, isVal := u.(ssa.Value)
			if !isVal || !feed[uv] {
				return true
			}
		}
	}
	return false
}

// guardReadsObject: the store is control-dependent (transitively) on a branch whose condition reads
// a field of the same object.
func (ca *carryAnalysis) guardReadsObject(st *ssa.Store) bool {
	fn := st.Parent()
	pd := newPostDom(fn)
	seen := map[*ssa.BasicBlock]bool{}
	work := []*ssa.BasicBlock{st.Block()}
	for len(work) > 0 {
		b := work[len(work)-1]
		work = work[:len(work)-1]
		for _, ct := range controllers(fn, pd, b) {
			if seen[ct.Block] {
				continue
			}
			seen[ct.Block] = true
			work = append(work, ct.Block)
			if cond := ifCond(ct.Block); cond != nil {
				for v := range backwardSlice(cond, 300) {
					if fa, ok := v.(*ssa.FieldAddr); ok && ca.isPtrToT(fa.X.Type()) {
						return true
					}
				}
			}
		}
	}
	return false
}

// dependsOnlyOnConfig: v is computed from constants, pure calls and configuration fields of the
// object (fields no entry writes), possibly through methods of the object that read only those.
func (ca *carryAnalysis) dependsOnlyOnConfig(v ssa.Value, fn *ssa.Function, config fset, depth int) (string, bool) {
	if depth > 3 {
		return "dependency too deep", false
	}
	for x := range sliceWithAllocCalls(v) {
		switch y := x.(type) {
		case *ssa.Parameter:
			if !ca.isPtrToT(y.Type()) {
				return "depends on parameter " + y.Name() + " of " + load.FuncName(fn), false
			}
		case *ssa.FreeVar:
			if !ca.isPtrToT(y.Type()) {
				return "depends on captured " + y.Name(), false
			}
		case *ssa.FieldAddr:
			if ca.isPtrToT(y.X.Type()) {
				fname := fieldNameOf(y.X.Type(), y.Field)
				if !config[fname] {
					return "depends on non-configuration field " + fname, false
				}
			}
		case *ssa.Call:
			cc := y.Call
			if cc.IsInvoke() {
				return "depends on an interface call", false
			}
			sc := cc.StaticCallee()
			if sc == nil {
				return "depends on a dynamic call", false
			}
			for ai, a := range cc.Args {
				if ca.isPtrToT(a.Type()) && sc.Blocks != nil && ai < len(sc.Params) {
					s := ca.summary(selfKey{sc, ai})
					for f := range s.Reads {
						if !config[f] {
							return "calls " + sc.Name() + " which reads non-configuration field " + f, false
						}
					}
				}
			}
		}
	}
	return "", true
}

var _ = fmt.Sprintf

// transitiveConds returns the conditions of every branch the store is control-dependent on.
func transitiveConds(st *ssa.Store) []ssa.Value {
	fn := st.Parent()
	pd := newPostDom(fn)
	seen := map[*ssa.BasicBlock]bool{}
	var out []ssa.Value
	work := []*ssa.BasicBlock{st.Block()}
	for len(work) > 0 {
		b := work[len(work)-1]
		work = work[:len(work)-1]
		for _, ct := range controllers(fn, pd, b) {
			if seen[ct.Block] {
				continue
			}
			seen[ct.Block] = true
			work = append(work, ct.Block)
			if cond := ifCond(ct.Block); cond != nil {
				out = append(out, cond)
			}
		}
	}
	return out
}

// memoWithFlags: configuration fields plus boolean "ready" flags whose only assignments store
// constants in the same function as a config-only memo (they guard the memo group).
func memoWithFlags(memo fset, ca *carryAnalysis, config fset) fset {
	out := memo.clone()
	for f, defs := range ca.defs {
		allConst := len(defs) > 0
		for _, d := range defs {
			if _, ok := d.store.Val.(*ssa.Const); !ok {
				allConst = false
			}
		}
		if allConst {
			out[f] = true
		}
	}
	return out
}

// instrDominates: a executes before b on every path reaching b (same block: earlier position).
func instrDominates(a, b ssa.Instruction) bool {
	if a.Block() == b.Block() {
		for _, x := range a.Block().Instrs {
			if x == a {
				return true
			}
			if x == b {
				return false
			}
		}
	}
	return a.Block().Dominates(b.Block())
}

// leafDeps: the object fields and foreign parameters a value is directly computed from.
func (ca *carryAnalysis) leafDeps(v ssa.Value) fset {
	out := fset{}
	for x := range sliceWithAllocCalls(v) {
		switch y := x.(type) {
		case *ssa.FieldAddr:
			if ca.isPtrToT(y.X.Type()) {
				out[fieldNameOf(y.X.Type(), y.Field)] = true
			}
		case *ssa.Parameter:
			if !ca.isPtrToT(y.Type()) {
				out["parameter "+y.Name()] = true
			}
		}
	}
	return out
}

// keyMissing: dependencies of the cached value that no guarding condition tests.
func (ca *carryAnalysis) keyMissing(d fieldDef, f string, config fset) []string {
	val := ca.leafDeps(d.store.Val)
	guard := fset{}
	for _, cond := range transitiveConds(d.store) {
		for k := range ca.leafDeps(cond) {
			guard[k] = true
		}
	}
	var missing []string
	for k := range val {
		if k == f || config[k] || guard[k] {
			continue
		}
		missing = append(missing, k)
	}
	sort.Strings(missing)
	return missing
}
