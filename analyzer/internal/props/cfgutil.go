package props

import (
	"go/token"
	"go/types"

	"golang.org/x/tools/go/ssa"
)

// postDom computes post-dominator sets for fn's blocks (iterative data-flow over the reverse
// CFG with a virtual exit joining every block without successors). pd[b][x] == true means block x
// post-dominates block b. Functions are small; bitsets keep it cheap.
type postDom struct {
	n   int
	set [][]uint64
}

func newPostDom(fn *ssa.Function) *postDom {
	n := len(fn.Blocks)
	w := (n + 63) / 64
	pd := &postDom{n: n, set: make([][]uint64, n)}
	full := make([]uint64, w)
	for i := 0; i < n; i++ {
		full[i/64] |= 1 << (i % 64)
	}
	for i := range pd.set {
		pd.set[i] = append([]uint64(nil), full...)
	}
	changed := true
	for changed {
		changed = false
		for i := n - 1; i >= 0; i-- {
			b := fn.Blocks[i]
			nw := make([]uint64, w)
			if len(b.Succs) == 0 {
				// exit block: only itself
			} else {
				copy(nw, full)
				for _, s := range b.Succs {
					for k := range nw {
						nw[k] &= pd.set[s.Index][k]
					}
				}
			}
			nw[i/64] |= 1 << (i % 64)
			for k := range nw {
				if nw[k] != pd.set[i][k] {
					changed = true
				}
			}
			pd.set[i] = nw
		}
	}
	return pd
}

// postDominates reports whether block x post-dominates block b.
func (pd *postDom) postDominates(x, b *ssa.BasicBlock) bool {
	return pd.set[b.Index][x.Index/64]&(1<<(x.Index%64)) != 0
}

// controllers returns the branch blocks that block b is directly control-dependent on, each with
// the successor index (0 = true edge, 1 = false edge) on which b is reached.
type controller struct {
	Block *ssa.BasicBlock
	Succ  int
}

func controllers(fn *ssa.Function, pd *postDom, b *ssa.BasicBlock) []controller {
	var out []controller
	for _, a := range fn.Blocks {
		if len(a.Succs) < 2 {
			continue
		}
		if a != b && pd.postDominates(b, a) {
			continue // b executes whenever a does: not controlled by a
		}
		for si, s := range a.Succs {
			if s == b || pd.postDominates(b, s) {
				out = append(out, controller{a, si})
			}
		}
	}
	return out
}

// ifCond returns the condition of the block's terminating If, or nil.
func ifCond(b *ssa.BasicBlock) ssa.Value {
	if len(b.Instrs) == 0 {
		return nil
	}
	if i, ok := b.Instrs[len(b.Instrs)-1].(*ssa.If); ok {
		return i.Cond
	}
	return nil
}

// backwardSlice collects the values v is data-dependent on within its function (through
// arithmetic, conversions, phis, loads, field selections, extracts and call arguments).
func backwardSlice(v ssa.Value, limit int) map[ssa.Value]bool {
	seen := map[ssa.Value]bool{}
	var walk func(ssa.Value)
	walk = func(x ssa.Value) {
		if x == nil || seen[x] || len(seen) > limit {
			return
		}
		seen[x] = true
		switch y := x.(type) {
		case *ssa.BinOp:
			walk(y.X)
			walk(y.Y)
		case *ssa.UnOp:
			walk(y.X)
		case *ssa.Convert:
			walk(y.X)
		case *ssa.ChangeType:
			walk(y.X)
		case *ssa.ChangeInterface:
			walk(y.X)
		case *ssa.MakeInterface:
			walk(y.X)
		case *ssa.TypeAssert:
			walk(y.X)
		case *ssa.Phi:
			for _, e := range y.Edges {
				walk(e)
			}
		case *ssa.Extract:
			walk(y.Tuple)
		case *ssa.Field:
			walk(y.X)
		case *ssa.FieldAddr:
			walk(y.X)
		case *ssa.Index:
			walk(y.X)
			walk(y.Index)
		case *ssa.IndexAddr:
			walk(y.X)
			walk(y.Index)
		case *ssa.Lookup:
			walk(y.X)
			walk(y.Index)
		case *ssa.Slice:
			walk(y.X)
			walk(y.Low)
			walk(y.High)
		case *ssa.Call:
			for _, a := range y.Call.Args {
				walk(a)
			}
			if y.Call.IsInvoke() {
				walk(y.Call.Value)
			}
		}
	}
	walk(v)
	return seen
}

// loadsField reports whether the slice contains a load of field fname from base value base.
func loadsField(slice map[ssa.Value]bool, base ssa.Value, fname string) bool {
	for v := range slice {
		u, ok := v.(*ssa.UnOp)
		if !ok || u.Op != token.MUL {
			continue
		}
		fa, ok := u.X.(*ssa.FieldAddr)
		if !ok {
			continue
		}
		if fieldNameOf(fa.X.Type(), fa.Field) == fname && sameBase(fa.X, base) {
			return true
		}
	}
	return false
}

func sameBase(a, b ssa.Value) bool {
	if a == b {
		return true
	}
	// both loads of the same address (e.g. a spilled receiver)
	ua, ok1 := a.(*ssa.UnOp)
	ub, ok2 := b.(*ssa.UnOp)
	if ok1 && ok2 && ua.Op == token.MUL && ub.Op == token.MUL {
		if ua.X == ub.X {
			return true
		}
		// two loads of the same field of the same object (go/ssa performs no CSE): x.p and x.p
		fa, ok3 := ua.X.(*ssa.FieldAddr)
		fb, ok4 := ub.X.(*ssa.FieldAddr)
		if ok3 && ok4 && fa.Field == fb.Field && sameBase(fa.X, fb.X) {
			return true
		}
	}
	return false
}

// tableWalk recognises `for _, f := range <local table of functions> { if err := f(args…); err != nil { return …err } }`
// at the dynamic call `call`: the table is a local array / slice literal whose every element is a
// function constant, the loop is the range loop over the whole table, and the only other way out of
// the loop body is a failing return. Returns the entries in table order and the loop header.
func tableWalk(call ssa.CallInstruction) ([]*ssa.Function, *ssa.BasicBlock, bool) {
	cc := call.Common()
	if cc.IsInvoke() || cc.StaticCallee() != nil {
		return nil, nil, false
	}
	// the callee value is table[i] or table[i].field
	field := -1
	v := cc.Value
	if f, ok := v.(*ssa.Field); ok {
		field, v = f.Field, f.X
	} else if u, ok := v.(*ssa.UnOp); ok && u.Op == token.MUL {
		if fa, ok := u.X.(*ssa.FieldAddr); ok {
			if ia, ok := fa.X.(*ssa.IndexAddr); ok {
				return tableWalkOver(call, ia.X, ia.Index, fa.Field)
			}
			// the range variable is a local copy of the element: stage := table[i]; stage.run(d)
			if cell, ok := fa.X.(*ssa.Alloc); ok && cell.Referrers() != nil {
				var src ssa.Value
				n := 0
				for _, r := range *cell.Referrers() {
					if st, ok := r.(*ssa.Store); ok && st.Addr == ssa.Value(cell) {
						src = st.Val
						n++
					}
				}
				if n == 1 {
					switch x := src.(type) {
					case *ssa.Index:
						base := x.X
						if cp, ok := base.(*ssa.UnOp); ok && cp.Op == token.MUL {
							base = cp.X
						}
						return tableWalkOver(call, base, x.Index, fa.Field)
					case *ssa.UnOp:
						if ia, ok := x.X.(*ssa.IndexAddr); ok && x.Op == token.MUL {
							return tableWalkOver(call, ia.X, ia.Index, fa.Field)
						}
					}
				}
			}
		}
	}
	switch x := v.(type) {
	case *ssa.UnOp:
		if ia, ok := x.X.(*ssa.IndexAddr); ok && x.Op == token.MUL {
			return tableWalkOver(call, ia.X, ia.Index, field)
		}
	case *ssa.Index:
		base := x.X
		if cp, ok := base.(*ssa.UnOp); ok && cp.Op == token.MUL {
			base = cp.X
		}
		return tableWalkOver(call, base, x.Index, field)
	}
	return nil, nil, false
}

// tableEntries: the function stored at each constant index (optionally in struct field `field` of
// the element) of a table rooted at a local allocation or a package-level variable.
func tableEntries(root ssa.Value, field int, user *ssa.Function) (map[int64]*ssa.Function, int64) {
	var scan []*ssa.Function
	roots := map[ssa.Value]bool{root: true}
	n := int64(-1)
	arrLen := func(t types.Type) int64 {
		if p, ok := t.Underlying().(*types.Pointer); ok {
			t = p.Elem()
		}
		if a, ok := t.Underlying().(*types.Array); ok {
			return a.Len()
		}
		return -1
	}
	switch r := root.(type) {
	case *ssa.Global:
		if r.Pkg == nil {
			return nil, -1
		}
		ini := r.Pkg.Func("init")
		if ini == nil {
			return nil, -1
		}
		scan = append(scan, ini)
		n = arrLen(r.Type())
		// literals are built in a temporary and copied over
		for _, b := range ini.Blocks {
			for _, ins := range b.Instrs {
				if st, ok := ins.(*ssa.Store); ok && st.Addr == ssa.Value(r) {
					if u, ok := st.Val.(*ssa.UnOp); ok && u.Op == token.MUL {
						roots[u.X] = true
						if n < 0 {
							n = arrLen(u.X.Type())
						}
					}
					if sl, ok := st.Val.(*ssa.Slice); ok { // slice-typed global: G = temp[:]
						roots[sl.X] = true
						n = arrLen(sl.X.Type())
					}
				}
			}
		}
	case *ssa.Alloc:
		scan = append(scan, user)
		n = arrLen(r.Type())
	default:
		return nil, -1
	}
	out := map[int64]*ssa.Function{}
	for _, f := range scan {
		for _, b := range f.Blocks {
			for _, ins := range b.Instrs {
				st, ok := ins.(*ssa.Store)
				if !ok {
					continue
				}
				addr := st.Addr
				if field >= 0 {
					// an element built in its own temporary and stored as a whole: table[i] = *tmp
					if ia, ok := addr.(*ssa.IndexAddr); ok && roots[ia.X] {
						if ld, ok := st.Val.(*ssa.UnOp); ok && ld.Op == token.MUL {
							if tmp, ok := ld.X.(*ssa.Alloc); ok && tmp.Referrers() != nil {
								if k, ok := ia.Index.(*ssa.Const); ok && k.Value != nil {
									for _, r := range *tmp.Referrers() {
										fa, ok := r.(*ssa.FieldAddr)
										if !ok || fa.Field != field || fa.Referrers() == nil {
											continue
										}
										for _, u := range *fa.Referrers() {
											if fs, ok := u.(*ssa.Store); ok && fs.Addr == ssa.Value(fa) {
												switch x := fs.Val.(type) {
												case *ssa.Function:
													out[k.Int64()] = x
												case *ssa.MakeClosure:
													if f2, ok := x.Fn.(*ssa.Function); ok {
														out[k.Int64()] = f2
													}
												}
											}
										}
									}
								}
							}
						}
						continue
					}
					fa, ok := addr.(*ssa.FieldAddr)
					if !ok || fa.Field != field {
						continue
					}
					addr = fa.X
				}
				ia, ok := addr.(*ssa.IndexAddr)
				if !ok || !roots[ia.X] {
					continue
				}
				k, ok := ia.Index.(*ssa.Const)
				if !ok || k.Value == nil {
					continue
				}
				var fnv *ssa.Function
				switch x := st.Val.(type) {
				case *ssa.Function:
					fnv = x
				case *ssa.MakeClosure:
					fnv, _ = x.Fn.(*ssa.Function)
				}
				if fnv == nil {
					return nil, -1
				}
				out[k.Int64()] = fnv
			}
		}
	}
	return out, n
}

func tableWalkOver(call ssa.CallInstruction, base, index ssa.Value, field int) ([]*ssa.Function, *ssa.BasicBlock, bool) {
	if sl, ok := base.(*ssa.Slice); ok {
		base = sl.X
	}
	if u, ok := base.(*ssa.UnOp); ok && u.Op == token.MUL {
		base = u.X // a package-level table is loaded first
	}
	ents, n := tableEntries(base, field, call.Parent())
	if n <= 0 || int64(len(ents)) != n {
		return nil, nil, false
	}
	entries := make([]*ssa.Function, n)
	for i := int64(0); i < n; i++ {
		if ents[i] == nil {
			return nil, nil, false
		}
		entries[i] = ents[i]
	}
	inc, ok := index.(*ssa.BinOp)
	if !ok || inc.Op != token.ADD || !isConstInt(inc.Y, 1) {
		return nil, nil, false
	}
	phi, ok := inc.X.(*ssa.Phi)
	if !ok {
		return nil, nil, false
	}
	h := phi.Block()
	whole := false
	for i, ed := range phi.Edges {
		if !h.Dominates(h.Preds[i]) && isConstInt(ed, -1) {
			whole = true
		}
	}
	cond, ok := ifCond(inc.Block()).(*ssa.BinOp)
	if !whole || !ok || cond.Op != token.LSS || cond.X != ssa.Value(inc) {
		return nil, nil, false
	}
	boundOK := isConstInt(cond.Y, n)
	if lc, ok := cond.Y.(*ssa.Call); ok {
		if bi, ok := lc.Call.Value.(*ssa.Builtin); ok && bi.Name() == "len" && len(lc.Call.Args) == 1 {
			if sl, ok := lc.Call.Args[0].(*ssa.Slice); ok && sl.X == base && sl.Low == nil && sl.High == nil {
				boundOK = true
			}
		}
	}
	if !boundOK {
		return nil, nil, false
	}
	// the body may leave the loop only through a failing return: the call's error is tested and the
	// non-nil side returns it
	fn := call.Parent()
	ei := errorResultIndex(fn)
	cv, isVal := call.(ssa.Value)
	if ei < 0 || !isVal {
		return nil, nil, false
	}
	tested := false
	if bo, ok := ifCond(call.Block()).(*ssa.BinOp); ok && (bo.X == cv || bo.Y == cv) && (isNilConst(bo.X) || isNilConst(bo.Y)) && len(call.Block().Succs) == 2 {
		failSide := call.Block().Succs[0]
		if bo.Op == token.EQL {
			failSide = call.Block().Succs[1]
		}
		rets := returnsReachable(failSide, map[*ssa.BasicBlock]bool{h: true})
		tested = len(rets) > 0
		for _, r := range rets {
			if !definitelyNonNilError(r, ei) {
				tested = false
			}
		}
	}
	if !tested {
		return nil, nil, false
	}
	return entries, h, true
}
