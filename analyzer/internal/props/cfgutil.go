package props

import (
	"go/token"

	"golang.org/x/tools/go/ssa"
)

// postDom computes post-dominator sets for fn's blocks (iterative data-flow over the reverse
// CFG with a virtual exit joining every block without successors). pd[b][x] == true means block x
// post-dominates block b. Functions are small; bitsets keep it cheap.
type postDom struct {
	n   int
	set [][]uint64
}

func newPostDom(fn *ssa.Function) *postDom {
	n := len(fn.Blocks)
	w := (n + 63) / 64
	pd := &postDom{n: n, set: make([][]uint64, n)}
	full := make([]uint64, w)
	for i := 0; i < n; i++ {
		full[i/64] |= 1 << (i % 64)
	}
	for i := range pd.set {
		pd.set[i] = append([]uint64(nil), full...)
	}
	changed := true
	for changed {
		changed = false
		for i := n - 1; i >= 0; i-- {
			b := fn.Blocks[i]
			nw := make([]uint64, w)
			if len(b.Succs) == 0 {
				// exit block: only itself
			} else {
				copy(nw, full)
				for _, s := range b.Succs {
					for k := range nw {
						nw[k] &= pd.set[s.Index][k]
					}
				}
			}
			nw[i/64] |= 1 << (i % 64)
			for k := range nw {
				if nw[k] != pd.set[i][k] {
					changed = true
				}
			}
			pd.set[i] = nw
		}
	}
	return pd
}

// postDominates reports whether block x post-dominates block b.
func (pd *postDom) postDominates(x, b *ssa.BasicBlock) bool {
	return pd.set[b.Index][x.Index/64]&(1<<(x.Index%64)) != 0
}

// controllers returns the branch blocks that block b is directly control-dependent on, each with
// the successor index (0 = true edge, 1 = false edge) on which b is reached.
type controller struct {
	Block *ssa.BasicBlock
	Succ  int
}

func controllers(fn *ssa.Function, pd *postDom, b *ssa.BasicBlock) []controller {
	var out []controller
	for _, a := range fn.Blocks {
		if len(a.Succs) < 2 {
			continue
		}
		if a != b && pd.postDominates(b, a) {
			continue // b executes whenever a does: not controlled by a
		}
		for si, s := range a.Succs {
			if s == b || pd.postDominates(b, s) {
				out = append(out, controller{a, si})
			}
		}
	}
	return out
}

// ifCond returns the condition of the block's terminating If, or nil.
func ifCond(b *ssa.BasicBlock) ssa.Value {
	if len(b.Instrs) == 0 {
		return nil
	}
	if i, ok := b.Instrs[len(b.Instrs)-1].(*ssa.If); ok {
		return i.Cond
	}
	return nil
}

// backwardSlice collects the values v is data-dependent on within its function (through
// arithmetic, conversions, phis, loads, field selections, extracts and call arguments).
func backwardSlice(v ssa.Value, limit int) map[ssa.Value]bool {
	seen := map[ssa.Value]bool{}
	var walk func(ssa.Value)
	walk = func(x ssa.Value) {
		if x == nil || seen[x] || len(seen) > limit {
			return
		}
		seen[x] = true
		switch y := x.(type) {
		case *ssa.BinOp:
			walk(y.X)
			walk(y.Y)
		case *ssa.UnOp:
			walk(y.X)
		case *ssa.Convert:
			walk(y.X)
		case *ssa.ChangeType:
			walk(y.X)
		case *ssa.ChangeInterface:
			walk(y.X)
		case *ssa.MakeInterface:
			walk(y.X)
		case *ssa.TypeAssert:
			walk(y.X)
		case *ssa.Phi:
			for _, e := range y.Edges {
				walk(e)
			}
		case *ssa.Extract:
			walk(y.Tuple)
		case *ssa.Field:
			walk(y.X)
		case *ssa.FieldAddr:
			walk(y.X)
		case *ssa.Index:
			walk(y.X)
			walk(y.Index)
		case *ssa.IndexAddr:
			walk(y.X)
			walk(y.Index)
		case *ssa.Lookup:
			walk(y.X)
			walk(y.Index)
		case *ssa.Slice:
			walk(y.X)
			walk(y.Low)
			walk(y.High)
		case *ssa.Call:
			for _, a := range y.Call.Args {
				walk(a)
			}
			if y.Call.IsInvoke() {
				walk(y.Call.Value)
			}
		}
	}
	walk(v)
	return seen
}

// loadsField reports whether the slice contains a load of field fname from base value base.
func loadsField(slice map[ssa.Value]bool, base ssa.Value, fname string) bool {
	for v := range slice {
		u, ok := v.(*ssa.UnOp)
		if !ok || u.Op != token.MUL {
			continue
		}
		fa, ok := u.X.(*ssa.FieldAddr)
		if !ok {
			continue
		}
		if fieldNameOf(fa.X.Type(), fa.Field) == fname && sameBase(fa.X, base) {
			return true
		}
	}
	return false
}

func sameBase(a, b ssa.Value) bool {
	if a == b {
		return true
	}
	// both loads of the same address (e.g. a spilled receiver)
	ua, ok1 := a.(*ssa.UnOp)
	ub, ok2 := b.(*ssa.UnOp)
	if ok1 && ok2 && ua.Op == token.MUL && ub.Op == token.MUL {
		if ua.X == ub.X {
			return true
		}
		// two loads of the same field of the same object (go/ssa performs no CSE): x.p and x.p
		fa, ok3 := ua.X.(*ssa.FieldAddr)
		fb, ok4 := ub.X.(*ssa.FieldAddr)
		if ok3 && ok4 && fa.Field == fb.Field && sameBase(fa.X, fb.X) {
			return true
		}
	}
	return false
}
