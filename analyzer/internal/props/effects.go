package props

import (
	"fmt"
	"go/types"
	"sort"
	"strings"

	"golang.org/x/tools/go/callgraph"
	"golang.org/x/tools/go/ssa"

	"dcmcheck/internal/load"
	"dcmcheck/internal/pta"
)

// EntryPoints are the resolved entry-point sets of DESIGN §2.
type EntryPoints struct {
	CodecTypes []*types.Named
	Codec      []*ssa.Function // every method of every codec type
	CodecEnc   []*ssa.Function // Codec.Encode
	CodecDec   []*ssa.Function // Codec.Decode
	API        []*ssa.Function // every exported function / method of library + controls
	Enc        []*ssa.Function // EP_enc
	Dec        []*ssa.Function // EP_dec
	Init       []*ssa.Function // package initialisers of library + controls (+ go-dicom)
	Excluded   map[string]string
}

// frozen exclusions from EP_api (DESIGN §2): table generators that exist to be called from init.
var apiExclusions = map[string]string{
	"jpeg2000/htj2k.GenerateVLCTables": "builds the VLC tables; called from init only, documented as generator",
	"jpeg2000/htj2k.InitVLCTables":     "fills package tables; init-time helper",
	"jpeg2000/htj2k.ValidateVLCTables": "self-check of generated tables; calls the generator",
}

func isByteSlice(t types.Type) bool {
	s, ok := t.Underlying().(*types.Slice)
	if !ok {
		return false
	}
	b, ok := s.Elem().Underlying().(*types.Basic)
	return ok && b.Kind() == types.Uint8
}

func hasByteSliceParam(fn *ssa.Function) bool {
	for _, p := range fn.Params {
		if isByteSlice(p.Type()) {
			return true
		}
	}
	return false
}

func (c *Ctx) entryPoints() (*EntryPoints, error) {
	if c.eps != nil {
		return c.eps, nil
	}
	p := c.P
	ep := &EntryPoints{Excluded: map[string]string{}}
	cts, err := p.CodecTypes()
	if err != nil {
		return nil, err
	}
	ep.CodecTypes = cts
	codecSet := map[*types.Named]bool{}
	for _, n := range cts {
		codecSet[n] = true
		ms := p.SSA.MethodSets.MethodSet(types.NewPointer(n))
		for i := 0; i < ms.Len(); i++ {
			f := p.SSA.MethodValue(ms.At(i))
			if f == nil || f.Blocks == nil {
				continue
			}
			ep.Codec = append(ep.Codec, f)
			switch f.Name() {
			case "Encode":
				ep.CodecEnc = append(ep.CodecEnc, f)
			case "Decode":
				ep.CodecDec = append(ep.CodecDec, f)
			}
		}
	}
	for _, pk := range p.ScopePackages() {
		sp := p.SSAPkgs[pk.PkgPath]
		if sp == nil {
			return nil, fmt.Errorf("anchor unresolved: no SSA package for %s", pk.PkgPath)
		}
		if f := sp.Func("init"); f != nil {
			ep.Init = append(ep.Init, f)
		}
		var names []string
		for name := range sp.Members {
			names = append(names, name)
		}
		sort.Strings(names)
		for _, name := range names {
			switch m := sp.Members[name].(type) {
			case *ssa.Function:
				if m.Object() == nil || !m.Object().Exported() || m.Blocks == nil {
					continue
				}
				key := strings.TrimPrefix(pk.PkgPath, load.ModPath+"/") + "." + m.Name()
				if why, ok := apiExclusions[key]; ok {
					ep.Excluded[key] = why
					continue
				}
				ep.API = append(ep.API, m)
				if strings.HasPrefix(m.Name(), "Encode") && hasByteSliceParam(m) {
					ep.Enc = append(ep.Enc, m)
				}
				if strings.HasPrefix(m.Name(), "Decode") && hasByteSliceParam(m) {
					ep.Dec = append(ep.Dec, m)
				}
			case *ssa.Type:
				n, ok := m.Type().(*types.Named)
				if !ok {
					continue
				}
				if _, isIface := n.Underlying().(*types.Interface); isIface {
					continue
				}
				ms := p.SSA.MethodSets.MethodSet(types.NewPointer(n))
				for i := 0; i < ms.Len(); i++ {
					if !ms.At(i).Obj().Exported() {
						continue
					}
					f := p.SSA.MethodValue(ms.At(i))
					if f == nil || f.Blocks == nil {
						continue
					}
					// promoted methods of embedded foreign types are not library code
					if !load.InScope(f) && f.Synthetic == "" {
						continue
					}
					ep.API = append(ep.API, f)
					if pk.PkgPath == load.ModPath+"/jpeg2000" || load.IsControl(pk.PkgPath) {
						if n.Obj().Name() == "Encoder" && strings.HasPrefix(f.Name(), "Encode") {
							ep.Enc = append(ep.Enc, f)
						}
						if n.Obj().Name() == "Decoder" && strings.HasPrefix(f.Name(), "Decode") {
							ep.Dec = append(ep.Dec, f)
						}
					}
				}
			}
		}
	}
	ep.Enc = append(ep.Enc, ep.CodecEnc...)
	ep.Dec = append(ep.Dec, ep.CodecDec...)
	c.eps = ep
	return ep, nil
}

// Eff is the shared result of engine E1 for one run.
type Eff struct {
	A                                         *pta.Analysis
	EP                                        *EntryPoints
	ReachAPI                                  map[*ssa.Function]bool // CG-reachable from EP_api roots (run-time code)
	ReachCodec                                map[*ssa.Function]bool
	ReachEnc                                  map[*ssa.Function]bool
	ReachDec                                  map[*ssa.Function]bool
	GlobalReach                               map[*pta.Obj][]string // object -> globals it is reachable from
	ParObj, InpObj, PixSrc, PixDst, FrameInfo *pta.Obj
	EntryArgs                                 map[*pta.Obj]bool // pointer-like arguments of Encode*/Decode* entry points
	CodecObjs, CodecReach                     map[*pta.Obj]bool
	GuardedEdges                              map[*callgraph.Edge]string
	LapsedExceptions                          []string
	RecvObj                                   map[*types.Named]*pta.Obj
	InpParams                                 map[*pta.Obj]string
	recvSeeded                                map[string]bool
}

func isDicomInterface(t types.Type, name string) bool {
	n, ok := t.(*types.Named)
	return ok && n.Obj().Pkg() != nil && strings.HasPrefix(n.Obj().Pkg().Path(), load.DicomPath) && n.Obj().Name() == name
}

// effects runs (once) the points-to / effects engine with the roots of DESIGN §3.2.
func (c *Ctx) effects() (*Eff, error) {
	if c.eff != nil {
		return c.eff, nil
	}
	ep, err := c.entryPoints()
	if err != nil {
		return nil, err
	}
	p := c.P
	e := &Eff{EP: ep, RecvObj: map[*types.Named]*pta.Obj{}, InpParams: map[*pta.Obj]string{}, recvSeeded: map[string]bool{}, EntryArgs: map[*pta.Obj]bool{}}
	cfg := pta.Config{
		CG: p.CG,
		Enter: func(fn *ssa.Function) bool {
			pk := load.FuncPkgPath(fn)
			return load.IsModule(pk) || strings.HasPrefix(pk, load.DicomPath)
		},
	}
	// The caller's PixelData implementation is outside the codec: calls through the PixelData
	// interface are summarised (ExtInvoke), their implementations are not entered.
	cfg.SkipEdge = func(site ssa.CallInstruction, callee *ssa.Function) bool {
		cc := site.Common()
		return cc.IsInvoke() && isDicomInterface(cc.Value.Type(), "PixelData")
	}
	a := pta.New(cfg)
	a.Trace = c.Dump != ""
	e.A = a
	e.ParObj = a.NewObj(pta.ExtParam, true, "PAR(parameters)", nil)
	e.InpObj = a.NewObj(pta.ExtInput, true, "INP(GetFrame)", nil)
	e.PixSrc = a.NewObj(pta.ExtArg, true, "PIX(oldPixelData)", nil)
	e.PixDst = a.NewObj(pta.ExtArg, true, "PIX(newPixelData)", nil)
	e.FrameInfo = a.NewObj(pta.ExtArg, true, "FRAMEINFO", nil)
	codecSet := map[*types.Named]bool{}
	for _, n := range ep.CodecTypes {
		codecSet[n] = true
	}
	encDec := map[*ssa.Function]bool{}
	for _, f := range append(append([]*ssa.Function{}, ep.Enc...), ep.Dec...) {
		encDec[f] = true
	}
	recvObj := func(n *types.Named) *pta.Obj {
		if o, ok := e.RecvObj[n]; ok {
			return o
		}
		lbl := "OBJ(" + n.Obj().Pkg().Name() + "." + n.Obj().Name() + ")"
		if codecSet[n] {
			lbl = "RCV(" + n.Obj().Pkg().Name() + "." + n.Obj().Name() + ")"
		}
		o := a.NewObj(pta.ExtRecv, false, lbl, n)
		if codecSet[n] {
			o.Tag = "codec"
		}
		e.RecvObj[n] = o
		return o
	}
	var roots []pta.Root
	for _, f := range ep.Init {
		roots = append(roots, pta.Root{Fn: f, Ctx: pta.CtxInit})
	}
	seen := map[*ssa.Function]bool{}
	addRoot := func(f *ssa.Function) {
		if seen[f] {
			return
		}
		seen[f] = true
		r := pta.Root{Fn: f, Ctx: pta.CtxRun, Params: make([]*pta.Obj, len(f.Params))}
		for i, prm := range f.Params {
			t := prm.Type()
			if i == 0 && f.Signature.Recv() != nil {
				if n := load.NamedOf(t); n != nil {
					if _, isPtr := t.Underlying().(*types.Pointer); isPtr {
						r.Params[i] = recvObj(n)
					}
				}
				continue
			}
			switch {
			case isDicomInterface(t, "Parameters"):
				r.Params[i] = e.ParObj
			case isDicomInterface(t, "PixelData"):
				if prm.Name() == "newPixelData" || i == 2 {
					r.Params[i] = e.PixDst
				} else {
					r.Params[i] = e.PixSrc
				}
			case isByteSlice(t) && encDec[f]:
				o := a.NewObj(pta.ExtInput, true, "INP("+load.FuncName(f)+"."+prm.Name()+")", t)
				e.InpParams[o] = load.FuncName(f) + "." + prm.Name()
				r.Params[i] = o
			default:
				if pointerLikeType(t) {
					r.Params[i] = a.NewObj(pta.ExtArg, true, "ARG("+load.FuncName(f)+"."+prm.Name()+")", t)
					if encDec[f] {
						// an argument of an encoding / decoding entry point (an io.Reader, a struct of
						// options): the adversary's, like the byte slices
						e.EntryArgs[r.Params[i]] = true
					}
				}
			}
		}
		roots = append(roots, r)
	}
	for _, f := range ep.Codec {
		addRoot(f)
	}
	for _, f := range ep.API {
		addRoot(f)
	}
	cfg.Roots = roots
	cfg.ExtInvoke = func(a *pta.Analysis, cx pta.Ctx, site ssa.CallInstruction, fn *ssa.Function, recv *pta.Obj, method string) bool {
		switch method {
		case "GetFrame":
			a.SetResult(site, cx, 0, pta.Loc{Obj: e.InpObj})
			return true
		case "GetFrameInfo":
			a.SetResult(site, cx, 0, pta.Loc{Obj: e.FrameInfo})
			return true
		case "FrameCount", "IsEncapsulated", "AddFrame", "Error":
			return true
		case "GetParameter":
			a.SetResult(site, cx, 0, pta.Loc{Obj: recv})
			return true
		case "SetParameter":
			a.AddEffect(pta.EffExternalWrite, pta.Loc{Obj: recv}, site, fn, cx, "SetParameter on caller-owned parameters object")
			return true
		}
		if recv.Kind == pta.ExtArg {
			// a caller-supplied implementation of a library interface (io.Writer, BitReader, ...):
			// whatever it does, it does to the caller's own object; a Read fills its argument
			a.AddEffect(pta.EffExternalWrite, pta.Loc{Obj: recv}, site, fn, cx, "method "+method+" of a caller-supplied object")
			a.SetResult(site, cx, 0, pta.Loc{Obj: recv})
			if strings.HasPrefix(method, "Read") && len(site.Common().Args) > 0 && isByteSlice(site.Common().Args[0].Type()) {
				a.AddDeferredEffect(pta.EffExternalWrite, site.Common().Args[0], cx, "[*]", site, fn, "caller-supplied reader fills its argument")
			}
			return true
		}
		return false
	}
	a.SetConfig(cfg)
	a.Run()
	// An external caller may invoke any exported method on any object the library handed out:
	// receivers of exported methods also point to every escaping object of their type (iterated,
	// because methods may hand out further objects).
	var apiFns []*ssa.Function
	for _, r := range roots {
		if r.Ctx == pta.CtxRun {
			apiFns = append(apiFns, r.Fn)
		}
	}
	for iter := 0; iter < 6; iter++ {
		esc := a.EscapingObjects(apiFns, pta.CtxRun)
		added := 0
		for _, r := range roots {
			if r.Ctx != pta.CtxRun || r.Fn.Signature.Recv() == nil || len(r.Fn.Params) == 0 {
				continue
			}
			n := load.NamedOf(r.Fn.Params[0].Type())
			if n == nil {
				continue
			}
			if _, isPtr := r.Fn.Params[0].Type().Underlying().(*types.Pointer); !isPtr {
				continue
			}
			for o := range esc {
				if on, ok := o.Type.(*types.Named); ok && on.Obj() == n.Obj() && o.Kind == pta.Fresh && !o.Blob {
					k := fmt.Sprintf("%p/%d", r.Fn, o.ID)
					if !e.recvSeeded[k] {
						e.recvSeeded[k] = true
						a.AddReceiverObject(r.Fn.Params[0], pta.CtxRun, o)
						added++
					}
				}
			}
		}
		if added == 0 {
			break
		}
		a.Resolve()
	}
	a.Finish()
	// shared codec instances: the synthetic receiver objects plus every allocation of a codec type
	var codecObjs []*pta.Obj
	for _, o := range a.Objects() {
		if n, ok := o.Type.(*types.Named); ok && codecSet[n] && (o.Kind == pta.Fresh || o.Kind == pta.ExtRecv) {
			codecObjs = append(codecObjs, o)
		}
	}
	e.CodecObjs = map[*pta.Obj]bool{}
	for _, o := range codecObjs {
		e.CodecObjs[o] = true
	}
	e.CodecReach = a.ReachableFrom(codecObjs)
	// CG reachability sets (run-time code)
	guarded, lapsed := c.liveGuardedEdges()
	e.GuardedEdges, e.LapsedExceptions = guarded, lapsed
	e.ReachAPI = p.ReachableSkip(append(append([]*ssa.Function{}, ep.API...), ep.Codec...), guarded)
	e.ReachCodec = p.Reachable(ep.Codec)
	e.ReachEnc = p.Reachable(ep.Enc)
	e.ReachDec = p.Reachable(ep.Dec)
	e.GlobalReach = a.ReachableFromGlobals()
	c.eff = e
	return e, nil
}

func pointerLikeType(t types.Type) bool {
	switch t.Underlying().(type) {
	case *types.Pointer, *types.Slice, *types.Map, *types.Chan, *types.Signature, *types.Interface:
		return true
	}
	return false
}

// describeInstr renders an instruction for reports.
func describeInstr(ins ssa.Instruction) string {
	switch x := ins.(type) {
	case *ssa.Store:
		return "store " + addrExpr(x.Addr)
	case *ssa.MapUpdate:
		return "map update " + addrExpr(x.Map)
	case ssa.CallInstruction:
		cc := x.Common()
		if b, ok := cc.Value.(*ssa.Builtin); ok {
			if len(cc.Args) > 0 {
				return b.Name() + "(" + addrExpr(cc.Args[0]) + ", …)"
			}
			return b.Name() + "()"
		}
		if cc.IsInvoke() {
			return "invoke " + addrExpr(cc.Value) + "." + cc.Method.Name()
		}
		if sc := cc.StaticCallee(); sc != nil {
			s := "call " + load.FuncName(sc)
			if len(cc.Args) > 0 {
				s += "(" + addrExpr(cc.Args[0]) + ", …)"
			}
			return s
		}
		return "call " + cc.Value.Name()
	}
	return ins.String()
}

// addrExpr reconstructs a source-like access path for an SSA address/value (no line numbers).
func addrExpr(v ssa.Value) string {
	if v == nil {
		return ""
	}
	for depth := 0; depth < 12; depth++ {
		switch x := v.(type) {
		case *ssa.FieldAddr:
			return addrExpr(x.X) + "." + fieldNameOf(x.X.Type(), x.Field)
		case *ssa.Field:
			return addrExpr(x.X) + "." + fieldNameOf(x.X.Type(), x.Field)
		case *ssa.IndexAddr:
			return addrExpr(x.X) + "[…]"
		case *ssa.Index:
			return addrExpr(x.X) + "[…]"
		case *ssa.Lookup:
			return addrExpr(x.X) + "[…]"
		case *ssa.UnOp:
			v = x.X
			continue
		case *ssa.Slice:
			return addrExpr(x.X) + "[:]"
		case *ssa.Parameter:
			return x.Name()
		case *ssa.FreeVar:
			return x.Name()
		case *ssa.Global:
			return x.Pkg.Pkg.Name() + "." + x.Name()
		case *ssa.Alloc:
			if x.Comment != "" {
				return x.Comment
			}
			return "new"
		case *ssa.Phi:
			if x.Comment != "" {
				return x.Comment
			}
			return "phi"
		case *ssa.Call:
			if sc := x.Call.StaticCallee(); sc != nil {
				return sc.Name() + "()"
			}
			if x.Call.IsInvoke() {
				return addrExpr(x.Call.Value) + "." + x.Call.Method.Name() + "()"
			}
			return "call()"
		case *ssa.Extract:
			v = x.Tuple
			continue
		case *ssa.TypeAssert:
			v = x.X
			continue
		case *ssa.ChangeType:
			v = x.X
			continue
		case *ssa.Convert:
			v = x.X
			continue
		case *ssa.MakeInterface:
			v = x.X
			continue
		case *ssa.ChangeInterface:
			v = x.X
			continue
		case *ssa.Const:
			return x.String()
		default:
			return v.Name()
		}
	}
	return v.Name()
}

func fieldNameOf(t types.Type, i int) string {
	if p, ok := t.Underlying().(*types.Pointer); ok {
		t = p.Elem()
	}
	if st, ok := t.Underlying().(*types.Struct); ok && i < st.NumFields() {
		return st.Field(i).Name()
	}
	return fmt.Sprintf("f%d", i)
}
