package props

import (
	"go/token"

	"golang.org/x/tools/go/callgraph"
	"golang.org/x/tools/go/ssa"

	"dcmcheck/internal/load"
)

// Reviewed exceptions (DESIGN §3.3 "Reviewed exceptions", applied to engine E1).
//
// An exception never names a line. It names a call edge and carries a keep-alive condition that is
// re-established structurally on every run; if the condition fails the exception lapses and the
// obligation is reported again. The table is for infeasible paths of the *analysis* only.
type guardedEdge struct {
	Caller, Callee string
	Global         string // package-level variable the guard tests
	Reason         string
}

var initGuardedEdges = []guardedEdge{
	{
		Caller: "jpeg2000/htj2k.NewVLCDecoderOptimized",
		Callee: "jpeg2000/htj2k.GenerateVLCTables",
		Global: "VLCDecodeTbl0",
		Reason: "regeneration is guarded by `VLCDecodeTbl0[0].CwdLen == 0`; the package initialiser runs GenerateVLCTables unconditionally and leaves VLCDecodeTbl0[0].CwdLen == 3 (observed once by running the real code), so the guarded call is dead after init",
	},
}

// liveGuardedEdges returns the call-graph edges covered by an exception whose keep-alive holds:
//  1. the call site is directly control-dependent on a branch whose condition reads the named global;
//  2. an init function of the callee's package calls the callee in a block that is not
//     control-dependent on any branch (runs on every initialisation);
//  3. the callee itself stores to the named global (it is the generator of what the guard tests).
func (c *Ctx) liveGuardedEdges() (map[*callgraph.Edge]string, []string) {
	out := map[*callgraph.Edge]string{}
	var lapsed []string
	for _, ge := range initGuardedEdges {
		ok := false
		for fn, node := range c.P.CG.Nodes {
			if fn == nil || load.FuncName(fn) != ge.Caller {
				continue
			}
			for _, e := range node.Out {
				if e.Callee.Func == nil || load.FuncName(e.Callee.Func) != ge.Callee || e.Site == nil {
					continue
				}
				if c.guardReadsGlobal(fn, e.Site, ge.Global) && c.initCallsUnconditionally(e.Callee.Func) && storesGlobal(e.Callee.Func, ge.Global) {
					out[e] = ge.Reason
					ok = true
				}
			}
		}
		if !ok {
			lapsed = append(lapsed, ge.Caller+" -> "+ge.Callee)
		}
	}
	return out, lapsed
}

func (c *Ctx) guardReadsGlobal(fn *ssa.Function, site ssa.CallInstruction, global string) bool {
	pd := newPostDom(fn)
	// transitive control dependence: the call runs only if every branch on this chain goes its way
	seen := map[*ssa.BasicBlock]bool{}
	work := []*ssa.BasicBlock{site.Block()}
	for len(work) > 0 {
		b := work[len(work)-1]
		work = work[:len(work)-1]
		for _, ct := range controllers(fn, pd, b) {
			if seen[ct.Block] {
				continue
			}
			seen[ct.Block] = true
			work = append(work, ct.Block)
			if cond := ifCond(ct.Block); cond != nil {
				for v := range backwardSlice(cond, 300) {
					if g, ok := v.(*ssa.Global); ok && g.Name() == global {
						return true
					}
				}
			}
		}
	}
	return false
}

func (c *Ctx) initCallsUnconditionally(callee *ssa.Function) bool {
	if callee.Pkg == nil {
		return false
	}
	for _, m := range callee.Pkg.Members {
		f, ok := m.(*ssa.Function)
		if !ok || f.Name() != "init" {
			continue
		}
		// the synthetic package init calls the declared init#N functions
		cands := []*ssa.Function{f}
		for _, b := range f.Blocks {
			for _, ins := range b.Instrs {
				if call, ok := ins.(*ssa.Call); ok {
					if sc := call.Call.StaticCallee(); sc != nil && sc.Pkg == callee.Pkg {
						cands = append(cands, sc)
					}
				}
			}
		}
		for _, cf := range cands {
			if cf.Blocks == nil {
				continue
			}
			pd := newPostDom(cf)
			for _, b := range cf.Blocks {
				for _, ins := range b.Instrs {
					call, ok := ins.(*ssa.Call)
					if !ok || call.Call.StaticCallee() != callee {
						continue
					}
					if cf != f && len(controllers(cf, pd, b)) == 0 {
						return true
					}
				}
			}
		}
	}
	return false
}

func storesGlobal(fn *ssa.Function, global string) bool {
	rootOf := func(v ssa.Value) ssa.Value {
		for i := 0; i < 8; i++ {
			switch x := v.(type) {
			case *ssa.IndexAddr:
				v = x.X
				continue
			case *ssa.FieldAddr:
				v = x.X
				continue
			case *ssa.UnOp:
				if x.Op == token.MUL {
					v = x.X
					continue
				}
			}
			break
		}
		return v
	}
	for _, b := range fn.Blocks {
		for _, ins := range b.Instrs {
			switch x := ins.(type) {
			case *ssa.Store:
				if g, ok := rootOf(x.Addr).(*ssa.Global); ok && g.Name() == global {
					return true
				}
			case *ssa.Call:
				// the generator hands the table's address to a fill helper that stores through it
				// (fillTable(&Tbl0, source))
				callee := x.Call.StaticCallee()
				if callee == nil || callee.Blocks == nil || len(x.Call.Args) != len(callee.Params) {
					continue
				}
				for k, a := range x.Call.Args {
					g, ok := a.(*ssa.Global)
					if !ok || g.Name() != global {
						continue
					}
					for _, cb := range callee.Blocks {
						for _, ci := range cb.Instrs {
							if st, ok := ci.(*ssa.Store); ok && rootOf(st.Addr) == ssa.Value(callee.Params[k]) {
								return true
							}
						}
					}
				}
			}
		}
	}
	return false
}
