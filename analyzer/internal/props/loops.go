package props

import (
	"golang.org/x/tools/go/ssa"
)

// natLoop is a natural loop of a function's CFG.
type natLoop struct {
	Header  *ssa.BasicBlock
	Latches []*ssa.BasicBlock
	Blocks  map[*ssa.BasicBlock]bool
}

// naturalLoops finds the natural loops of fn (one per header; loops sharing a header are merged).
func naturalLoops(fn *ssa.Function) []*natLoop {
	byHeader := map[*ssa.BasicBlock]*natLoop{}
	var order []*ssa.BasicBlock
	for _, b := range fn.Blocks {
		for _, s := range b.Succs {
			if s.Dominates(b) { // back edge b -> s
				l := byHeader[s]
				if l == nil {
					l = &natLoop{Header: s, Blocks: map[*ssa.BasicBlock]bool{s: true}}
					byHeader[s] = l
					order = append(order, s)
				}
				l.Latches = append(l.Latches, b)
				// collect body: everything that reaches b without passing through s
				stack := []*ssa.BasicBlock{b}
				for len(stack) > 0 {
					x := stack[len(stack)-1]
					stack = stack[:len(stack)-1]
					if l.Blocks[x] {
						continue
					}
					l.Blocks[x] = true
					stack = append(stack, x.Preds...)
				}
			}
		}
	}
	var out []*natLoop
	for _, h := range order {
		out = append(out, byHeader[h])
	}
	return out
}

// innermostLoopOf returns the smallest loop containing b, or nil.
func innermostLoopOf(loops []*natLoop, b *ssa.BasicBlock) *natLoop {
	var best *natLoop
	for _, l := range loops {
		if l.Blocks[b] && (best == nil || len(l.Blocks) < len(best.Blocks)) {
			best = l
		}
	}
	return best
}

// exitEdges returns the (from, to) CFG edges leaving the loop.
func (l *natLoop) exitEdges() [][2]*ssa.BasicBlock {
	var out [][2]*ssa.BasicBlock
	for _, b := range l.ordered() {
		for _, s := range b.Succs {
			if !l.Blocks[s] {
				out = append(out, [2]*ssa.BasicBlock{b, s})
			}
		}
	}
	return out
}

// returnsReachable collects the Return instructions reachable from b without re-entering avoid.
func returnsReachable(b *ssa.BasicBlock, avoid map[*ssa.BasicBlock]bool) []*ssa.Return {
	var out []*ssa.Return
	seen := map[*ssa.BasicBlock]bool{}
	var walk func(x *ssa.BasicBlock)
	walk = func(x *ssa.BasicBlock) {
		if seen[x] || avoid[x] {
			return
		}
		seen[x] = true
		if len(x.Instrs) > 0 {
			if r, ok := x.Instrs[len(x.Instrs)-1].(*ssa.Return); ok {
				out = append(out, r)
			}
		}
		for _, s := range x.Succs {
			walk(s)
		}
	}
	walk(b)
	return out
}

// isNilConst reports whether v is the nil constant.
func isNilConst(v ssa.Value) bool {
	c, ok := v.(*ssa.Const)
	return ok && c.IsNil()
}

// errorResultIndex returns the index of the last result if it is of type error, else -1.
func errorResultIndex(fn *ssa.Function) int {
	res := fn.Signature.Results()
	if res.Len() == 0 {
		return -1
	}
	if res.At(res.Len()-1).Type().String() == "error" {
		return res.Len() - 1
	}
	return -1
}

// ordered lists the loop's blocks in the function's block order (map iteration would make any
// "first match" depend on the run).
func (l *natLoop) ordered() []*ssa.BasicBlock {
	var out []*ssa.BasicBlock
	for _, b := range l.Header.Parent().Blocks {
		if l.Blocks[b] {
			out = append(out, b)
		}
	}
	return out
}
