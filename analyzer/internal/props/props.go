// Package props holds one file per property: which obligations are generated
// and under which verdict policy.
package props

import (
	"go/types"
	"sort"

	"golang.org/x/tools/go/ssa"

	"dcmcheck/internal/load"
	"dcmcheck/internal/report"
)

// Ctx is passed to every property runner.
type Ctx struct {
	P    *load.Program
	C    *report.Collector
	Tier string
	Dump string

	eps             *EntryPoints
	eff             *Eff
	streamOracle    func(fn *ssa.Function, v ssa.Value) bool
	minLenMemo      map[string][2]int64
	validators      map[*ssa.Function]*ssa.Function
	ctorOnlyMemo    map[string]bool
	markersSeen     map[int64]bool
	genericEmitters int
}

// Info is the descriptive part of the evidence.
type Info struct {
	Explanation  string
	DoesNotCover string
	Trusted      []string
	Assumptions  []string
	Extra        map[string]any
}

// rangeAssumptions: what engine E2 takes for granted beyond the trusted base.
var rangeAssumptions = []string{
	"a difference X - Y of two operands compared on a dominating edge (X >= Y) is taken to be >= 0 when one operand is proven to lie within +-2^62: byte offsets and lengths do not reach 2^62, so the subtraction does not wrap",
	"an object whose parse / validate function returns a non-nil error (or, for comma-ok helpers, false next to zero values) is dropped by its caller (exit-refined stores)",
}

var commonTrusted = []string{
	"go/types + go/ssa (golang.org/x/tools v0.50.0) represent the program faithfully",
	"VTA call graph over-approximates dynamic dispatch (cross-checked against CHA in thorough)",
	"library code contains no unsafe / reflect / cgo / assembly (re-checked on every run by rule NO-HIDDEN-MECHANISM where relevant)",
	"go/packages loads the same files the build uses (build-ignored files are not part of any build)",
}

// Registry maps property id -> runner.
var Registry = map[string]func(*Ctx) Info{}

// add creates an obligation with position/function names resolved.
func (c *Ctx) add(rule string, fn *ssa.Function, construct string, st report.Status, pos string, detail string, witness ...string) *report.Obligation {
	o := &report.Obligation{Rule: rule, Func: load.FuncName(fn), Construct: construct, Status: st, Pos: pos, Detail: detail, Witness: witness}
	if fn != nil && load.IsControl(load.FuncPkgPath(fn)) {
		o.Control = true
	}
	c.C.Add(o)
	return o
}

// scopeFuncs returns every SSA function (incl. closures, methods) defined in
// library or control packages, sorted by name.
func (c *Ctx) scopeFuncs() []*ssa.Function {
	var out []*ssa.Function
	for fn := range c.P.AllFuncs {
		if fn.Blocks == nil || fn.Synthetic != "" && fn.Syntax() == nil {
			continue
		}
		if load.InScope(fn) {
			out = append(out, fn)
		}
	}
	sort.Slice(out, func(i, j int) bool {
		if a, b := out[i].String(), out[j].String(); a != b {
			return a < b
		}
		return out[i].Pos() < out[j].Pos()
	})
	return out
}

// fieldOf resolves the struct field selected by a FieldAddr / Field instruction.
func fieldOf(v ssa.Value) (owner *types.Named, field *types.Var, base ssa.Value, ok bool) {
	switch x := v.(type) {
	case *ssa.FieldAddr:
		pt, _ := x.X.Type().Underlying().(*types.Pointer)
		if pt == nil {
			return nil, nil, nil, false
		}
		st, _ := pt.Elem().Underlying().(*types.Struct)
		if st == nil {
			return nil, nil, nil, false
		}
		return load.NamedOf(pt.Elem()), st.Field(x.Field), x.X, true
	case *ssa.Field:
		st, _ := x.X.Type().Underlying().(*types.Struct)
		if st == nil {
			return nil, nil, nil, false
		}
		return load.NamedOf(x.X.Type()), st.Field(x.Field), x.X, true
	}
	return nil, nil, nil, false
}
