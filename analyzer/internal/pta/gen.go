package pta

import (
	"fmt"
	"go/token"
	"go/types"

	"golang.org/x/tools/go/ssa"
)

type deferredEffect struct {
	kind   EffectKind
	node   nodeID
	suffix string
	instr  ssa.Instruction
	fn     *ssa.Function
	ctx    Ctx
	note   string
}

// retKey is a synthetic register (return slots, temporaries).
type retKey struct{ fn *ssa.Function }

func (*retKey) Name() string                  { return "ret" }
func (*retKey) String() string                { return "ret" }
func (*retKey) Type() types.Type              { return nil }
func (*retKey) Parent() *ssa.Function         { return nil }
func (*retKey) Referrers() *[]ssa.Instruction { return nil }
func (*retKey) Pos() token.Pos                { return token.NoPos }

type genState struct {
	a         *Analysis
	deferred  []deferredEffect
	rets      map[*ssa.Function]ssa.Value
	hooked    map[string]bool
	stack     []FnCtx
	lateFuncs []FnCtx
}

// fc generates constraints for one function in one context.
type fc struct {
	g   *genState
	a   *Analysis
	fn  *ssa.Function
	ctx Ctx
}

func (g *genState) visit(f *ssa.Function, ctx Ctx) {
	a := g.a
	if f == nil || f.Blocks == nil || !a.cfg.Enter(f) {
		return
	}
	k := FnCtx{f, ctx}
	if a.Reach[k] {
		return
	}
	a.Reach[k] = true
	g.stack = append(g.stack, k)
}

func (g *genState) drain() {
	for len(g.stack) > 0 {
		k := g.stack[len(g.stack)-1]
		g.stack = g.stack[:len(g.stack)-1]
		(&fc{g, g.a, k.Fn, k.Ctx}).gen()
	}
}

// Run generates constraints for everything reachable from the roots and solves.
func (a *Analysis) Run() {
	g := &genState{a: a, rets: map[*ssa.Function]ssa.Value{}, hooked: map[string]bool{}}
	a.gs = g
	for fn, n := range a.cfg.CG.Nodes {
		if fn == nil {
			continue
		}
		for _, e := range n.Out {
			if e.Site == nil || e.Callee.Func == nil {
				continue
			}
			a.callees[e.Site] = appendUniq(a.callees[e.Site], e.Callee.Func)
		}
	}
	// A call of a function value in an entered (library) function: the call graph matches every
	// function of that signature whose value flows anywhere type-compatible, including closures
	// private to the standard library (func() error steps vs os/exec internals). A function value
	// called by library code was made by library code (or go-dicom): when the site has such
	// candidates, the others are dropped.
	for site, cs := range a.callees {
		cc := site.Common()
		if cc.IsInvoke() || cc.StaticCallee() != nil || site.Parent() == nil || !a.cfg.Enter(site.Parent()) {
			continue
		}
		var own []*ssa.Function
		for _, f := range cs {
			if a.cfg.Enter(f) {
				own = append(own, f)
			}
		}
		if len(own) > 0 && len(own) < len(cs) {
			a.callees[site] = own
		}
	}
	for _, r := range a.cfg.Roots {
		g.visit(r.Fn, r.Ctx)
		for i, o := range r.Params {
			if o != nil && i < len(r.Fn.Params) {
				a.addAddr(a.valNode(r.Fn.Params[i], r.Ctx), Loc{o, ""})
			}
		}
	}
	g.drain()
	a.solve()
	for len(g.lateFuncs) > 0 {
		lf := g.lateFuncs
		g.lateFuncs = nil
		for _, k := range lf {
			g.visit(k.Fn, k.Ctx)
		}
		g.drain()
		a.solve()
	}
}

// Finish expands the deferred effects; call after the last Solve.
func (a *Analysis) Finish() {
	g := a.gs
	a.Effects = a.Effects[:0:0]
	a.Effects = append(a.Effects, a.immediate...)
	for _, d := range g.deferred {
		for l := range a.pts[d.node] {
			loc := a.locList[l]
			if !loc.Obj.Blob {
				loc.Path += d.suffix
			}
			a.Effects = append(a.Effects, Effect{Kind: d.kind, Loc: loc, Instr: d.instr, Fn: d.fn, Ctx: d.ctx, Note: d.note})
		}
	}
	a.Stats.Nodes = len(a.keys)
}

func appendUniq(s []*ssa.Function, f *ssa.Function) []*ssa.Function {
	for _, x := range s {
		if x == f {
			return s
		}
	}
	return append(s, f)
}

func (g *genState) ret(fn *ssa.Function) ssa.Value {
	if r, ok := g.rets[fn]; ok {
		return r
	}
	r := &retKey{fn}
	g.rets[fn] = r
	return r
}

func (c *fc) retBase(fn *ssa.Function, i int) nodeBase {
	return nodeBase{c.a.regBase(c.g.ret(fn), c.ctx), fmt.Sprintf(".#%d", i)}
}

func (c *fc) tmp() nodeBase { return c.a.valBase(&retKey{nil}, c.ctx) }

func (c *fc) base(v ssa.Value) nodeBase {
	switch v.(type) {
	case *ssa.Global, *ssa.Function:
		c.a.valNode(v, c.ctx)
	}
	return c.a.valBase(v, c.ctx)
}

func (c *fc) node(v ssa.Value) nodeID { return c.a.valNode(v, c.ctx) }

func (c *fc) site(v ssa.Value, what string, t types.Type) *Obj {
	return c.a.siteObj(v, c.fn, c.ctx, what, t)
}

func (c *fc) effect(kind EffectKind, ptr ssa.Value, suffix string, instr ssa.Instruction, note string) {
	c.g.deferred = append(c.g.deferred, deferredEffect{kind, c.node(ptr), suffix, instr, c.fn, c.ctx, note})
}

func fieldName(t types.Type, i int) string {
	if p, ok := t.Underlying().(*types.Pointer); ok {
		t = p.Elem()
	}
	st := t.Underlying().(*types.Struct)
	return st.Field(i).Name()
}

func (c *fc) gen() {
	a, fn := c.a, c.fn
	for _, an := range fn.AnonFuncs {
		c.g.visit(an, c.ctx)
	}
	for _, b := range fn.Blocks {
		for _, ins := range b.Instrs {
			switch x := ins.(type) {
			case *ssa.Alloc:
				o := c.site(x, "", x.Type().(*types.Pointer).Elem())
				a.addAddr(c.node(x), Loc{o, ""})
			case *ssa.MakeSlice:
				a.addAddr(c.node(x), Loc{c.site(x, "", x.Type()), ""})
			case *ssa.MakeMap:
				a.addAddr(c.node(x), Loc{c.site(x, "", x.Type()), ""})
			case *ssa.MakeChan:
				a.addAddr(c.node(x), Loc{c.site(x, "", x.Type()), ""})
			case *ssa.MakeInterface:
				t := x.X.Type()
				if pointerLike(t) {
					a.addCopy(c.node(x), c.node(x.X))
				} else if len(a.leaves(t)) > 0 {
					box := c.site(x, "", t)
					a.copyAgg(nodeBase{int32(box.ID), ""}, c.base(x.X), t)
					a.addAddr(c.node(x), Loc{box, ""})
				}
			case *ssa.MakeClosure:
				fnc := x.Fn.(*ssa.Function)
				c.g.visit(fnc, c.ctx)
				for i, bnd := range x.Bindings {
					// a closure built in one context may be called in the other
					for _, cx := range []Ctx{CtxInit, CtxRun} {
						a.copyAgg(a.valBase(fnc.FreeVars[i], cx), c.base(bnd), bnd.Type())
					}
				}
				a.addAddr(c.node(x), Loc{a.funcObj(fnc), ""})
			case *ssa.FieldAddr:
				a.addComplex(c.node(x.X), complexC{kind: cOffset, suffix: "." + fieldName(x.X.Type(), x.Field), dst: c.node(x)})
			case *ssa.IndexAddr:
				a.addComplex(c.node(x.X), complexC{kind: cOffset, suffix: "[*]", dst: c.node(x)})
			case *ssa.Field:
				src := c.base(x.X)
				src.prefix += "." + fieldName(x.X.Type(), x.Field)
				a.copyAgg(c.base(x), src, x.Type())
			case *ssa.Index:
				if _, isArr := x.X.Type().Underlying().(*types.Array); isArr {
					src := c.base(x.X)
					src.prefix += "[*]"
					a.copyAgg(c.base(x), src, x.Type())
				}
			case *ssa.UnOp:
				if x.Op == token.MUL {
					if lv := a.leaves(x.Type()); len(lv) > 0 {
						a.addComplex(c.node(x.X), complexC{kind: cLoad, other: c.base(x), leaves: lv})
					}
				}
			case *ssa.Store:
				if lv := a.leaves(x.Val.Type()); len(lv) > 0 {
					a.addComplex(c.node(x.Addr), complexC{kind: cStore, other: c.base(x.Val), leaves: lv})
				}
				c.effect(EffStore, x.Addr, "", x, "")
			case *ssa.Phi:
				for _, e := range x.Edges {
					a.copyAgg(c.base(x), c.base(e), x.Type())
				}
			case *ssa.ChangeType:
				a.copyAgg(c.base(x), c.base(x.X), x.Type())
			case *ssa.ChangeInterface:
				a.copyAgg(c.base(x), c.base(x.X), x.Type())
			case *ssa.SliceToArrayPointer:
				a.copyAgg(c.base(x), c.base(x.X), x.Type())
			case *ssa.MultiConvert:
				a.copyAgg(c.base(x), c.base(x.X), x.Type())
			case *ssa.Convert:
				if _, toSlice := x.Type().Underlying().(*types.Slice); toSlice {
					if bt, ok := x.X.Type().Underlying().(*types.Basic); ok && bt.Info()&types.IsString != 0 {
						a.addAddr(c.node(x), Loc{c.site(x, "", x.Type()), ""})
						break
					}
				}
				if pointerLike(x.Type()) && pointerLike(x.X.Type()) {
					a.addCopy(c.node(x), c.node(x.X))
				}
			case *ssa.TypeAssert:
				dst := c.base(x)
				if x.CommaOk {
					dst.prefix = ".#0"
				}
				if pointerLike(x.AssertedType) {
					a.addCopy(a.baseNode(dst, ""), c.node(x.X))
				} else if lv := a.leaves(x.AssertedType); len(lv) > 0 {
					a.addComplex(c.node(x.X), complexC{kind: cLoad, other: dst, leaves: lv})
				}
			case *ssa.Extract:
				src := c.base(x.Tuple)
				src.prefix += fmt.Sprintf(".#%d", x.Index)
				a.copyAgg(c.base(x), src, x.Type())
			case *ssa.Slice:
				switch x.X.Type().Underlying().(type) {
				case *types.Slice, *types.Pointer:
					a.addCopy(c.node(x), c.node(x.X))
				}
			case *ssa.Lookup:
				if _, isMap := x.X.Type().Underlying().(*types.Map); isMap {
					dst := c.base(x)
					vt := x.Type()
					if x.CommaOk {
						dst.prefix = ".#0"
						vt = x.Type().(*types.Tuple).At(0).Type()
					}
					if lv := a.leaves(vt); len(lv) > 0 {
						a.addComplex(c.node(x.X), complexC{kind: cLoad, other: dst, leaves: lv, suffix: "[*]"})
					}
				}
			case *ssa.MapUpdate:
				if lv := a.leaves(x.Value.Type()); len(lv) > 0 {
					a.addComplex(c.node(x.Map), complexC{kind: cStore, other: c.base(x.Value), leaves: lv, suffix: "[*]"})
				}
				if lv := a.leaves(x.Key.Type()); len(lv) > 0 {
					a.addComplex(c.node(x.Map), complexC{kind: cStore, other: c.base(x.Key), leaves: lv, suffix: "[k]"})
				}
				c.effect(EffMapUpdate, x.Map, "", x, "")
			case *ssa.Range:
				if _, isMap := x.X.Type().Underlying().(*types.Map); isMap {
					a.addCopy(c.node(x), c.node(x.X))
				}
			case *ssa.Next:
				if !x.IsString {
					tt := x.Type().(*types.Tuple)
					rb := a.regBase(x, c.ctx)
					if lv := a.leaves(tt.At(1).Type()); len(lv) > 0 {
						a.addComplex(c.node(x.Iter), complexC{kind: cLoad, other: nodeBase{rb, ".#1"}, leaves: lv, suffix: "[k]"})
					}
					if lv := a.leaves(tt.At(2).Type()); len(lv) > 0 {
						a.addComplex(c.node(x.Iter), complexC{kind: cLoad, other: nodeBase{rb, ".#2"}, leaves: lv, suffix: "[*]"})
					}
				}
			case *ssa.Return:
				for i, r := range x.Results {
					a.copyAgg(c.retBase(fn, i), c.base(r), r.Type())
				}
			case *ssa.Call:
				c.genCall(x)
			case *ssa.Go:
				c.genCall(x)
			case *ssa.Defer:
				c.genCall(x)
			}
		}
	}
}

// resultBase returns where result i of a call lands.
func (c *fc) resultBase(site ssa.CallInstruction, nres, i int) (nodeBase, bool) {
	v := site.Value()
	if v == nil {
		return nodeBase{}, false
	}
	if nres == 1 {
		return c.a.valBase(v, c.ctx), true
	}
	return nodeBase{c.a.regBase(v, c.ctx), fmt.Sprintf(".#%d", i)}, true
}

func (c *fc) genCall(site ssa.CallInstruction) {
	a := c.a
	cc := site.Common()
	if b, ok := cc.Value.(*ssa.Builtin); ok {
		c.genBuiltin(site, b)
		return
	}
	var args []ssa.Value
	if cc.IsInvoke() {
		args = append(args, cc.Value)
	}
	args = append(args, cc.Args...)
	callees := a.callees[site]
	if sc := cc.StaticCallee(); sc != nil {
		callees = []*ssa.Function{sc}
	}
	for _, callee := range callees {
		if a.cfg.SkipEdge != nil && a.cfg.SkipEdge(site, callee) {
			continue
		}
		c.bindCall(site, callee, args)
	}
	if cc.IsInvoke() && a.cfg.ExtInvoke != nil {
		method := cc.Method.Name()
		a.addComplex(c.node(cc.Value), complexC{kind: cHook, hook: func(l Loc) {
			switch l.Obj.Kind {
			case ExtArg, ExtInput, ExtParam, ExtRecv:
				if !l.Obj.Blob {
					return // a structured caller object: its methods are in the call graph
				}
				key := fmt.Sprintf("%p/%d/%d/%s", site, c.ctx, l.Obj.ID, method)
				if c.g.hooked[key] {
					return
				}
				c.g.hooked[key] = true
				if !a.cfg.ExtInvoke(a, c.ctx, site, c.fn, l.Obj, method) {
					a.Unresolved = append(a.Unresolved, Unresolved{Instr: site, Fn: c.fn, Callee: cc.Value.Type().String() + "." + method, Reason: "interface method invoked on caller-owned object " + l.Obj.Label + " has no summary"})
				}
			}
		}})
	}
	if len(callees) == 0 && !cc.IsInvoke() {
		a.ExtCalls["<no callee> "+cc.Value.Type().String()]++
	}
}

func (c *fc) bindCall(site ssa.CallInstruction, callee *ssa.Function, args []ssa.Value) {
	a := c.a
	name := callee.String()
	if o := callee.Origin(); o != nil {
		name = o.String() // instantiation of a generic function: summaries are keyed by the generic
	}
	if s, ok := summaries[name]; ok {
		a.ExtCalls[name]++
		s(c, site, callee, args)
		c.bindCallbacks(args)
		return
	}
	if callee.Blocks == nil || !a.cfg.Enter(callee) {
		a.ExtCalls[name]++
		c.bindCallbacks(args)
		if callee.Name() == "init" && callee.Signature.Recv() == nil && callee.Signature.Params().Len() == 0 {
			return // initialiser of an imported (standard library) package
		}
		if !isPureExternal(callee) {
			a.Unresolved = append(a.Unresolved, Unresolved{Instr: site, Fn: c.fn, Callee: name, Reason: "external callee without summary"})
		}
		c.freshResults(site, callee)
		return
	}
	c.g.visit(callee, c.ctx)
	for i, p := range callee.Params {
		if i < len(args) {
			a.copyAgg(a.valBase(p, c.ctx), c.base(args[i]), p.Type())
		}
	}
	res := callee.Signature.Results()
	for i := 0; i < res.Len(); i++ {
		if dst, ok := c.resultBase(site, res.Len(), i); ok {
			a.copyAgg(dst, c.retBase(callee, i), res.At(i).Type())
		}
	}
}

// bindCallbacks: a function literal / named function handed to an un-entered callee (sort.Slice,
// slices.EqualFunc, slices.SortFunc, ...) is called back by it with elements of the slices passed
// alongside: the callback is analysed, and its parameters receive those elements.
func (c *fc) bindCallbacks(args []ssa.Value) {
	a := c.a
	for _, fv := range args {
		var fn *ssa.Function
		switch x := fv.(type) {
		case *ssa.MakeClosure:
			fn, _ = x.Fn.(*ssa.Function)
		case *ssa.Function:
			fn = x
		}
		if fn == nil || fn.Blocks == nil || !a.cfg.Enter(fn) {
			continue
		}
		c.g.visit(fn, c.ctx)
		for _, p := range fn.Params {
			lv := a.leaves(p.Type())
			if len(lv) == 0 {
				continue
			}
			for _, other := range args {
				sl, ok := other.Type().Underlying().(*types.Slice)
				if !ok || !types.Identical(sl.Elem(), p.Type()) {
					continue
				}
				a.addComplex(c.node(other), complexC{kind: cLoad, other: a.valBase(p, c.ctx), leaves: lv, suffix: "[*]"})
			}
		}
	}
}

// freshResults gives every pointer-like result of an un-entered callee a fresh opaque object.
func (c *fc) freshResults(site ssa.CallInstruction, callee *ssa.Function) {
	a := c.a
	v := site.Value()
	if v == nil {
		return
	}
	res := callee.Signature.Results()
	for i := 0; i < res.Len(); i++ {
		lv := a.leaves(res.At(i).Type())
		if len(lv) == 0 {
			continue
		}
		o := c.site(v, fmt.Sprintf("ext%d", i), res.At(i).Type())
		if !o.Blob {
			o.Blob = true
			o.Foreign = true
			a.addAddr(a.locNode(Loc{o, ""}), Loc{o, ""})
		}
		dst, _ := c.resultBase(site, res.Len(), i)
		for _, p := range lv {
			a.addAddr(a.baseNode(dst, p), Loc{o, ""})
		}
	}
}

var purePkgs = map[string]bool{
	"fmt": true, "errors": true, "math": true, "math/bits": true, "strconv": true, "strings": true,
	"unicode": true, "unicode/utf8": true, "image": true, "image/color": true, "image/jpeg": true,
	"testing": true, "cmp": true, "hash/crc32": true, "hash/adler32": true, "hash/fnv": true, "hash/maphash": true,
	"unicode/utf16": true, "math/cmplx": true,
}

func isPureExternal(f *ssa.Function) bool {
	pk := ""
	if f.Pkg != nil {
		pk = f.Pkg.Pkg.Path()
	} else if f.Object() != nil && f.Object().Pkg() != nil {
		pk = f.Object().Pkg().Path()
	} else if f.Signature.Recv() != nil {
		t := f.Signature.Recv().Type()
		if p, ok := t.(*types.Pointer); ok {
			t = p.Elem()
		}
		if n, ok := t.(*types.Named); ok && n.Obj().Pkg() != nil {
			pk = n.Obj().Pkg().Path()
		}
	}
	return purePkgs[pk]
}

func (c *fc) genBuiltin(site ssa.CallInstruction, b *ssa.Builtin) {
	a := c.a
	cc := site.Common()
	v := site.Value()
	switch b.Name() {
	case "append":
		if v == nil || len(cc.Args) == 0 {
			return
		}
		s := cc.Args[0]
		res := c.node(v)
		a.addCopy(res, c.node(s))
		o := c.site(v, "", v.Type())
		a.addAddr(res, Loc{o, ""})
		c.effect(EffAppendInPlace, s, "[*]", site, "append may write into the spare capacity of its first operand")
		a.byteFlows = append(a.byteFlows, byteFlow{src: c.node(s), dst: res})
		if len(cc.Args) > 1 {
			if _, isSl := cc.Args[1].Type().Underlying().(*types.Slice); isSl {
				a.byteFlows = append(a.byteFlows, byteFlow{src: c.node(cc.Args[1]), dst: res})
			}
		}
		if sl, _ := v.Type().Underlying().(*types.Slice); sl != nil {
			if lv := a.leaves(sl.Elem()); len(lv) > 0 {
				t := c.tmp()
				a.addComplex(c.node(s), complexC{kind: cLoad, other: t, leaves: lv, suffix: "[*]"})
				if len(cc.Args) > 1 {
					if _, isSl := cc.Args[1].Type().Underlying().(*types.Slice); isSl {
						a.addComplex(c.node(cc.Args[1]), complexC{kind: cLoad, other: t, leaves: lv, suffix: "[*]"})
					}
				}
				a.addComplex(res, complexC{kind: cStore, other: t, leaves: lv, suffix: "[*]"})
			}
		}
	case "copy":
		if len(cc.Args) < 2 {
			return
		}
		dst, src := cc.Args[0], cc.Args[1]
		c.effect(EffCopyDst, dst, "[*]", site, "")
		if _, isSl := src.Type().Underlying().(*types.Slice); isSl {
			a.byteFlows = append(a.byteFlows, byteFlow{src: c.node(src), dst: c.node(dst)})
		}
		if sl, ok := dst.Type().Underlying().(*types.Slice); ok {
			if lv := a.leaves(sl.Elem()); len(lv) > 0 {
				if _, isSl := src.Type().Underlying().(*types.Slice); isSl {
					t := c.tmp()
					a.addComplex(c.node(src), complexC{kind: cLoad, other: t, leaves: lv, suffix: "[*]"})
					a.addComplex(c.node(dst), complexC{kind: cStore, other: t, leaves: lv, suffix: "[*]"})
				}
			}
		}
	case "ssa:wrapnilchk":
		if v != nil && len(cc.Args) > 0 {
			a.copyAgg(c.base(v), c.base(cc.Args[0]), v.Type())
		}
	case "delete", "clear":
		if len(cc.Args) > 0 {
			switch cc.Args[0].Type().Underlying().(type) {
			case *types.Map:
				c.effect(EffMapUpdate, cc.Args[0], "", site, b.Name())
			case *types.Slice:
				c.effect(EffStore, cc.Args[0], "[*]", site, b.Name())
			}
		}
	}
}

// ---------------------------------------------------------------------------------------------
// client helpers (used from ExtInvoke callbacks)

// SetResult makes result i of the call (made in context ctx) point to location l.
func (a *Analysis) SetResult(site ssa.CallInstruction, ctx Ctx, i int, l Loc) {
	v := site.Value()
	if v == nil {
		return
	}
	var t types.Type = v.Type()
	n := 1
	if tt, ok := t.(*types.Tuple); ok {
		n = tt.Len()
		if i >= n {
			return
		}
		t = tt.At(i).Type()
	}
	dst := a.valBase(v, ctx)
	if n > 1 {
		dst = nodeBase{a.regBase(v, ctx), fmt.Sprintf(".#%d", i)}
	}
	for _, p := range a.leaves(t) {
		a.addAddr(a.baseNode(dst, p), l)
	}
}

// AddEffect records an immediate effect.
func (a *Analysis) AddEffect(kind EffectKind, l Loc, instr ssa.Instruction, fn *ssa.Function, ctx Ctx, note string) {
	a.immediate = append(a.immediate, Effect{Kind: kind, Loc: l, Instr: instr, Fn: fn, Ctx: ctx, Note: note})
}

// Resolve continues solving after the client added facts (type sinks, seeds).
func (a *Analysis) Resolve() {
	g := a.gs
	a.solve()
	for len(g.lateFuncs) > 0 {
		lf := g.lateFuncs
		g.lateFuncs = nil
		for _, k := range lf {
			g.visit(k.Fn, k.Ctx)
		}
		g.drain()
		a.solve()
	}
}

// EscapingObjects returns the objects reachable from the results of the given functions
// (analysed in ctx): what the library hands out to its callers.
func (a *Analysis) EscapingObjects(fns []*ssa.Function, ctx Ctx) map[*Obj]bool {
	var roots []*Obj
	seen := map[*Obj]bool{}
	for _, f := range fns {
		r, ok := a.gs.rets[f]
		if !ok {
			continue
		}
		id, ok := a.regs[regKey{r, ctx}]
		if !ok {
			continue
		}
		for k, n := range a.nodes {
			if k.base != id {
				continue
			}
			for l := range a.pts[n] {
				o := a.locList[l].Obj
				if !seen[o] {
					seen[o] = true
					roots = append(roots, o)
				}
			}
		}
	}
	return a.ReachableFrom(roots)
}

// AddReceiverObject makes receiver parameter v point to object o.
func (a *Analysis) AddReceiverObject(v ssa.Value, ctx Ctx, o *Obj) {
	a.addAddr(a.valNode(v, ctx), Loc{o, ""})
}

// AddDeferredEffect records a write through pointer value ptr (resolved after solving).
func (a *Analysis) AddDeferredEffect(kind EffectKind, ptr ssa.Value, ctx Ctx, suffix string, instr ssa.Instruction, fn *ssa.Function, note string) {
	a.gs.deferred = append(a.gs.deferred, deferredEffect{kind, a.valNode(ptr, ctx), suffix, instr, fn, ctx, note})
}
