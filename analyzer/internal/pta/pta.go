// Package pta is engine E1 of DESIGN §3.2: an inclusion-based (Andersen-style),
// context-insensitive, allocation-site points-to analysis over go/ssa, with
// path-sensitive sub-objects (struct fields / element nodes), external summary
// objects for caller-owned memory, and a write-effect collector.
//
// The call graph is fixed in advance (VTA or CHA), so no on-the-fly call graph
// construction is needed.
package pta

import (
	"fmt"
	"go/token"
	"go/types"
	"os"
	"sort"
	"strings"

	"golang.org/x/tools/go/callgraph"
	"golang.org/x/tools/go/ssa"
)

// ObjKind classifies abstract objects (regions of DESIGN §3.2).
type ObjKind int

const (
	Fresh    ObjKind = iota // allocated during the analysed call
	Global                  // package-level variable
	ExtRecv                 // receiver object of an entry method (codec struct, Encoder/Decoder object)
	ExtParam                // the codec `parameters` argument and whatever it reaches
	ExtInput                // caller's frame / pixel bytes
	ExtArg                  // any other caller-owned argument (PixelData objects, FrameInfo, misc)
	FuncObj                 // function value
)

func (k ObjKind) String() string {
	return [...]string{"FRESH", "GLOBAL", "RECV", "PARAM", "INPUT", "ARG", "FUNC"}[k]
}

// Obj is an abstract object.
type Obj struct {
	ID      int
	Kind    ObjKind
	Blob    bool // interior is opaque: every path collapses onto the object, and it points to itself
	Label   string
	Pos     token.Pos
	Fn      *ssa.Function // function containing the allocation site (nil for globals / externals)
	Site    ssa.Value     // allocation instruction (may be nil)
	Glob    *ssa.Global
	Type    types.Type
	Tag     string // free client tag (e.g. entry-point name for externals)
	Ctx     Ctx    // context the allocation site was analysed in
	Foreign bool   // opaque result of an un-entered (standard library) callee
}

// Loc is an addressable location: object + access path.
type Loc struct {
	Obj  *Obj
	Path string
}

func (l Loc) String() string { return l.Obj.Label + l.Path }

// EffectKind says how a location may be written.
type EffectKind int

const (
	EffStore EffectKind = iota
	EffMapUpdate
	EffCopyDst
	EffAppendInPlace
	EffExternalWrite // write performed inside a summarised external callee
)

func (k EffectKind) String() string {
	return [...]string{"store", "map-update", "copy-dst", "append-in-place", "external-write"}[k]
}

// Effect is one may-write on one location.
type Effect struct {
	Kind  EffectKind
	Loc   Loc
	Instr ssa.Instruction
	Fn    *ssa.Function
	Ctx   Ctx
	Note  string
}

// Unresolved records a call whose effect is unknown.
type Unresolved struct {
	Instr  ssa.Instruction
	Fn     *ssa.Function
	Callee string
	Reason string
}

type nodeID int32

type nodeKey struct {
	base int32 // >0: object id ; <0: register id
	path string
}

type complexKind uint8

const (
	cLoad complexKind = iota
	cStore
	cOffset
	cHook
)

type complexC struct {
	kind   complexKind
	other  nodeBase // load: dst base ; store: src base
	leaves []string // paths copied
	suffix string   // offset
	dst    nodeID   // offset: destination node
	hook   func(l Loc)
}

// nodeBase identifies an aggregate holder: either a register or an object+path prefix.
type nodeBase struct {
	base   int32
	prefix string
}

// Root describes one entry point and how its parameters are seeded.
type Root struct {
	Fn     *ssa.Function
	Ctx    Ctx
	Params []*Obj // one per fn.Params entry (nil = not seeded)
}

// Config drives Analyze.
type Config struct {
	CG        *callgraph.Graph
	Roots     []Root
	Enter     func(fn *ssa.Function) bool                               // analyse the body of fn?
	SkipEdge  func(site ssa.CallInstruction, callee *ssa.Function) bool // ignore this call-graph edge (handled by ExtInvoke)
	ExtInvoke func(a *Analysis, ctx Ctx, site ssa.CallInstruction, fn *ssa.Function, recv *Obj, method string) bool
}

// Analysis holds the result.
type Analysis struct {
	cfg       Config
	objs      []*Obj
	nodes     map[nodeKey]nodeID
	keys      []nodeKey
	pts       []map[int32]struct{} // node -> set of loc ids
	copyTo    []map[nodeID]struct{}
	complex   [][]complexC
	locs      map[Loc]int32
	locList   []Loc
	regs      map[regKey]int32
	regList   []regKey
	globals   map[*ssa.Global]*Obj
	work      []nodeID
	inWork    []bool
	leafCache map[types.Type][]string
	callees   map[ssa.CallInstruction][]*ssa.Function

	Reach      map[FnCtx]bool
	Effects    []Effect
	Unresolved []Unresolved
	ExtCalls   map[string]int
	siteObjs   map[regKey]*Obj
	siteObjs2  map[string]*Obj
	gs         *genState
	byteFlows  []byteFlow
	immediate  []Effect
	Trace      bool
	cause      map[[2]int32][2]int32
	ntype      []types.Type
	typeSinks  map[*types.TypeName][]nodeID
	ntypeSet   []bool
	Filtered   int
	Stats      struct{ Nodes, Constraints, Iterations int }
}

// NewObj creates a client-defined (external) object.
func (a *Analysis) NewObj(kind ObjKind, blob bool, label string, t types.Type) *Obj {
	o := &Obj{ID: len(a.objs) + 1, Kind: kind, Blob: blob, Label: label, Type: t}
	a.objs = append(a.objs, o)
	if blob {
		// closed under load: the blob points to itself
		a.addAddr(a.locNode(Loc{o, ""}), Loc{o, ""})
	}
	return o
}

// New prepares an analysis.
func New(cfg Config) *Analysis {
	a := &Analysis{cfg: cfg, nodes: map[nodeKey]nodeID{}, locs: map[Loc]int32{}, regs: map[regKey]int32{},
		globals: map[*ssa.Global]*Obj{}, leafCache: map[types.Type][]string{}, callees: map[ssa.CallInstruction][]*ssa.Function{},
		Reach: map[FnCtx]bool{}, ExtCalls: map[string]int{}, siteObjs: map[regKey]*Obj{}, siteObjs2: map[string]*Obj{}}
	return a
}

func (a *Analysis) Objects() []*Obj { return a.objs }

// ---------------------------------------------------------------------------------------------
// nodes, locations

func (a *Analysis) node(k nodeKey) nodeID {
	if k.base > 0 {
		if o := a.objs[k.base-1]; o.Blob {
			k.path = ""
		}
	}
	if id, ok := a.nodes[k]; ok {
		return id
	}
	id := nodeID(len(a.keys))
	a.nodes[k] = id
	a.keys = append(a.keys, k)
	a.pts = append(a.pts, nil)
	a.copyTo = append(a.copyTo, nil)
	a.complex = append(a.complex, nil)
	a.inWork = append(a.inWork, false)
	return id
}

func (a *Analysis) locID(l Loc) int32 {
	if l.Obj.Blob {
		l.Path = ""
	}
	if id, ok := a.locs[l]; ok {
		return id
	}
	id := int32(len(a.locList))
	a.locs[l] = id
	a.locList = append(a.locList, l)
	return id
}

func (a *Analysis) locNode(l Loc) nodeID { return a.node(nodeKey{int32(l.Obj.ID), l.Path}) }

// Ctx is an analysis context: functions are analysed once per context they are reachable in, and
// allocation sites are cloned per context (so that a table built by a constructor during package
// initialisation is a different abstract object from the one the same constructor builds at run time).
type Ctx int8

const (
	CtxInit Ctx = iota // code running from package initialisers
	CtxRun             // code running from API entry points
)

type regKey struct {
	v   ssa.Value
	ctx Ctx
}

// FnCtx is a (function, context) pair.
type FnCtx struct {
	Fn  *ssa.Function
	Ctx Ctx
}

func normCtx(v ssa.Value, ctx Ctx) Ctx {
	switch v.(type) {
	case *ssa.Global, *ssa.Function, *ssa.Const, *ssa.Builtin:
		return 0
	}
	return ctx
}

func (a *Analysis) regBase(v ssa.Value, ctx Ctx) int32 {
	k := regKey{v, normCtx(v, ctx)}
	if id, ok := a.regs[k]; ok {
		return id
	}
	a.regList = append(a.regList, k)
	id := -int32(len(a.regList))
	a.regs[k] = id
	return id
}

func (a *Analysis) baseNode(b nodeBase, path string) nodeID {
	return a.node(nodeKey{b.base, b.prefix + path})
}

func (a *Analysis) push(n nodeID) {
	if !a.inWork[n] {
		a.inWork[n] = true
		a.work = append(a.work, n)
	}
}

func (a *Analysis) addAddr(n nodeID, l Loc) {
	if !a.compatible(a.nodeType(n), l) {
		a.Filtered++
		return
	}
	id := a.locID(l)
	if a.pts[n] == nil {
		a.pts[n] = map[int32]struct{}{}
	}
	if _, ok := a.pts[n][id]; !ok {
		a.pts[n][id] = struct{}{}
		a.push(n)
	}
}

func (a *Analysis) addCopy(dst, src nodeID) {
	if dst == src {
		return
	}
	if a.copyTo[src] == nil {
		a.copyTo[src] = map[nodeID]struct{}{}
	}
	if _, ok := a.copyTo[src][dst]; ok {
		return
	}
	a.copyTo[src][dst] = struct{}{}
	a.Stats.Constraints++
	if len(a.pts[src]) > 0 {
		a.push(src)
		// propagate immediately on next visit; mark everything as delta by re-pushing
		a.fullProp(src, dst)
	}
}

func (a *Analysis) fullProp(src, dst nodeID) {
	changed := false
	dt := a.nodeType(dst)
	for l := range a.pts[src] {
		if a.pts[dst] == nil {
			a.pts[dst] = map[int32]struct{}{}
		}
		if _, ok := a.pts[dst][l]; !ok {
			if dt != nil && !a.compatible(dt, a.locList[l]) {
				a.Filtered++
				continue
			}
			a.pts[dst][l] = struct{}{}
			changed = true
			if a.Trace {
				if a.cause == nil {
					a.cause = map[[2]int32][2]int32{}
				}
				a.cause[[2]int32{int32(dst), l}] = [2]int32{int32(src), l}
			}
		}
	}
	if changed {
		a.push(dst)
	}
}

func (a *Analysis) addComplex(n nodeID, c complexC) {
	a.complex[n] = append(a.complex[n], c)
	a.Stats.Constraints++
	if len(a.pts[n]) > 0 {
		a.push(n)
	}
}

// leaves returns the access paths of all pointer-bearing scalar leaves of a value of type t.
func (a *Analysis) leaves(t types.Type) []string {
	if l, ok := a.leafCache[t]; ok {
		return l
	}
	a.leafCache[t] = nil // recursion guard (value recursion is impossible, but be safe)
	var out []string
	switch u := t.Underlying().(type) {
	case *types.Struct:
		for i := 0; i < u.NumFields(); i++ {
			for _, p := range a.leaves(u.Field(i).Type()) {
				out = append(out, "."+u.Field(i).Name()+p)
			}
		}
	case *types.Array:
		for _, p := range a.leaves(u.Elem()) {
			out = append(out, "[*]"+p)
		}
	case *types.Tuple:
		for i := 0; i < u.Len(); i++ {
			for _, p := range a.leaves(u.At(i).Type()) {
				out = append(out, fmt.Sprintf(".#%d%s", i, p))
			}
		}
	case *types.Pointer, *types.Slice, *types.Map, *types.Chan, *types.Signature, *types.Interface:
		out = []string{""}
	case *types.Basic:
		if u.Kind() == types.UnsafePointer {
			out = []string{""}
		}
	case *types.TypeParam:
		out = []string{""}
	}
	a.leafCache[t] = out
	return out
}

func pointerLike(t types.Type) bool {
	switch u := t.Underlying().(type) {
	case *types.Pointer, *types.Slice, *types.Map, *types.Chan, *types.Signature, *types.Interface, *types.TypeParam:
		return true
	case *types.Basic:
		return u.Kind() == types.UnsafePointer
	}
	return false
}

// valBase returns the node base holding the contents of SSA value v.
func (a *Analysis) valBase(v ssa.Value, ctx Ctx) nodeBase {
	return nodeBase{a.regBase(v, ctx), ""}
}

// valNode returns the node of a pointer-like scalar SSA value (creating address facts for
// globals, functions and constants on first use).
func (a *Analysis) valNode(v ssa.Value, ctx Ctx) nodeID {
	_, known := a.regs[regKey{v, normCtx(v, ctx)}]
	n := a.node(nodeKey{a.regBase(v, ctx), ""})
	if known {
		return n
	}
	switch x := v.(type) {
	case *ssa.Global:
		a.addAddr(n, Loc{a.globalObj(x), ""})
	case *ssa.Function:
		a.addAddr(n, Loc{a.funcObj(x), ""})
	}
	return n
}

func (a *Analysis) globalObj(g *ssa.Global) *Obj {
	if o, ok := a.globals[g]; ok {
		return o
	}
	o := &Obj{ID: len(a.objs) + 1, Kind: Global, Label: "G(" + g.Pkg.Pkg.Path() + "." + g.Name() + ")", Pos: g.Pos(), Glob: g, Type: g.Type().(*types.Pointer).Elem()}
	a.objs = append(a.objs, o)
	a.globals[g] = o
	return o
}

func (a *Analysis) funcObj(f *ssa.Function) *Obj {
	key := "func:" + f.String()
	if o, ok := a.siteObjs2[key]; ok {
		return o
	}
	o := &Obj{ID: len(a.objs) + 1, Kind: FuncObj, Label: "func " + f.String(), Pos: f.Pos(), Type: f.Type()}
	a.objs = append(a.objs, o)
	a.siteObjs2[key] = o
	return o
}

func (a *Analysis) siteObj(site ssa.Value, fn *ssa.Function, ctx Ctx, what string, t types.Type) *Obj {
	if o, ok := a.siteObjs[regKey{site, ctx}]; ok && what == "" {
		return o
	}
	key := ""
	if what != "" {
		key = fmt.Sprintf("%p/%d/%s", site, ctx, what)
		if o, ok := a.siteObjs2[key]; ok {
			return o
		}
	}
	pos := site.Pos()
	lbl := "FRESH(" + shortFn(fn) + ":" + site.Name()
	if what != "" {
		lbl += "/" + what
	}
	if ctx == CtxInit {
		lbl += "@init"
	}
	lbl += ")"
	o := &Obj{ID: len(a.objs) + 1, Kind: Fresh, Label: lbl, Pos: pos, Fn: fn, Site: site, Type: t, Ctx: ctx}
	a.objs = append(a.objs, o)
	if n, ok := t.(*types.Named); ok && what == "" {
		for _, sink := range a.typeSinks[n.Obj()] {
			a.addAddr(sink, Loc{o, ""})
		}
	}
	if what == "" {
		a.siteObjs[regKey{site, ctx}] = o
	} else {
		a.siteObjs2[key] = o
	}
	return o
}

func shortFn(fn *ssa.Function) string {
	if fn == nil {
		return "?"
	}
	s := fn.String()
	if i := strings.LastIndex(s, "/"); i >= 0 {
		s = s[i+1:]
	}
	return s
}

// copyAgg adds copy constraints dst+π ⊇ src+π for every leaf π of type t.
func (a *Analysis) copyAgg(dst, src nodeBase, t types.Type) {
	for _, p := range a.leaves(t) {
		a.addCopy(a.baseNode(dst, p), a.baseNode(src, p))
	}
}

// ---------------------------------------------------------------------------------------------
// solving

func (a *Analysis) solve() {
	for len(a.work) > 0 {
		n := a.work[len(a.work)-1]
		a.work = a.work[:len(a.work)-1]
		a.inWork[n] = false
		a.Stats.Iterations++
		// complex constraints (may add copy edges / addr facts)
		if cs := a.complex[n]; len(cs) > 0 {
			// snapshot of locations
			ls := make([]int32, 0, len(a.pts[n]))
			for l := range a.pts[n] {
				ls = append(ls, l)
			}
			for ci := 0; ci < len(a.complex[n]); ci++ {
				c := a.complex[n][ci]
				for _, lid := range ls {
					l := a.locList[lid]
					switch c.kind {
					case cLoad:
						for _, p := range c.leaves {
							a.addCopy(a.baseNode(c.other, p), a.locNode(Loc{l.Obj, l.Path + c.suffix + p}))
						}
					case cStore:
						for _, p := range c.leaves {
							a.addCopy(a.locNode(Loc{l.Obj, l.Path + c.suffix + p}), a.baseNode(c.other, p))
						}
					case cOffset:
						nl := Loc{l.Obj, l.Path + c.suffix}
						if a.Trace {
							if a.cause == nil {
								a.cause = map[[2]int32][2]int32{}
							}
							k := [2]int32{int32(c.dst), a.locID(nl)}
							if _, ok := a.cause[k]; !ok {
								a.cause[k] = [2]int32{int32(n), lid}
							}
						}
						a.addAddr(c.dst, nl)
					case cHook:
						c.hook(l)
					}
				}
			}
		}
		for dst := range a.copyTo[n] {
			a.fullProp(n, dst)
		}
	}
}

// ---------------------------------------------------------------------------------------------
// queries

// PointsTo returns the locations a pointer-like SSA value may point to.
func (a *Analysis) PointsTo(v ssa.Value, ctx Ctx) []Loc {
	id, ok := a.regs[regKey{v, normCtx(v, ctx)}]
	if !ok {
		switch v.(type) {
		case *ssa.Global, *ssa.Function:
			a.valNode(v, ctx)
			id = a.regs[regKey{v, 0}]
		default:
			return nil
		}
	}
	n, ok := a.nodes[nodeKey{id, ""}]
	if !ok {
		return nil
	}
	return a.locsOf(n)
}

// PointsToPath returns the locations held at path p inside aggregate register v.
func (a *Analysis) PointsToPath(v ssa.Value, ctx Ctx, p string) []Loc {
	id, ok := a.regs[regKey{v, normCtx(v, ctx)}]
	if !ok {
		return nil
	}
	n, ok := a.nodes[nodeKey{id, p}]
	if !ok {
		return nil
	}
	return a.locsOf(n)
}

// Contents returns what location l may hold.
func (a *Analysis) Contents(l Loc) []Loc {
	if l.Obj.Blob {
		l.Path = ""
	}
	n, ok := a.nodes[nodeKey{int32(l.Obj.ID), l.Path}]
	if !ok {
		return nil
	}
	return a.locsOf(n)
}

func (a *Analysis) locsOf(n nodeID) []Loc {
	out := make([]Loc, 0, len(a.pts[n]))
	for l := range a.pts[n] {
		out = append(out, a.locList[l])
	}
	sort.Slice(out, func(i, j int) bool {
		if out[i].Obj.ID != out[j].Obj.ID {
			return out[i].Obj.ID < out[j].Obj.ID
		}
		return out[i].Path < out[j].Path
	})
	return out
}

// Callees returns the call-graph callees of a call site.
func (a *Analysis) Callees(site ssa.CallInstruction) []*ssa.Function { return a.callees[site] }

// SetConfig replaces the configuration (roots and callbacks are usually built after New,
// because they refer to objects created through NewObj).
func (a *Analysis) SetConfig(cfg Config) { a.cfg = cfg }

// ReachableFromGlobals returns every object reachable from the contents of a package-level
// variable, mapped to the (sorted) labels of the globals that reach it. The globals themselves
// are included.
func (a *Analysis) ReachableFromGlobals() map[*Obj][]string {
	// index nodes by object id
	byObj := map[int32][]nodeID{}
	for id, k := range a.keys {
		if k.base > 0 {
			byObj[k.base] = append(byObj[k.base], nodeID(id))
		}
	}
	out := map[*Obj]map[string]bool{}
	for _, g := range a.objs {
		if g.Kind != Global {
			continue
		}
		seen := map[*Obj]bool{g: true}
		stack := []*Obj{g}
		for len(stack) > 0 {
			o := stack[len(stack)-1]
			stack = stack[:len(stack)-1]
			if out[o] == nil {
				out[o] = map[string]bool{}
			}
			out[o][g.Label] = true
			for _, n := range byObj[int32(o.ID)] {
				for l := range a.pts[n] {
					t := a.locList[l].Obj
					if !seen[t] && t.Kind != FuncObj {
						seen[t] = true
						stack = append(stack, t)
					}
				}
			}
		}
	}
	res := map[*Obj][]string{}
	for o, m := range out {
		var ls []string
		for l := range m {
			ls = append(ls, l)
		}
		sort.Strings(ls)
		res[o] = ls
	}
	return res
}

// Why explains how location l came into the points-to set of value v (Trace must be on):
// the chain of nodes it was propagated through, origin last.
func (a *Analysis) Why(v ssa.Value, ctx Ctx, l Loc) []string {
	id, ok := a.regs[regKey{v, normCtx(v, ctx)}]
	if !ok {
		return nil
	}
	n, ok := a.nodes[nodeKey{id, ""}]
	if !ok {
		return nil
	}
	lid := a.locID(l)
	var out []string
	for i := 0; i < 80; i++ {
		out = append(out, a.nodeString(n)+" ∋ "+a.locList[lid].String())
		src, ok := a.cause[[2]int32{int32(n), lid}]
		if !ok {
			break
		}
		n, lid = nodeID(src[0]), src[1]
	}
	return out
}

func (a *Analysis) nodeString(n nodeID) string {
	k := a.keys[n]
	if k.base > 0 {
		return a.objs[k.base-1].Label + k.path
	}
	r := a.regList[-k.base-1]
	s := r.v.Name()
	if p := r.v.Parent(); p != nil {
		s = p.String() + ":" + s
	}
	if _, isRet := r.v.(*retKey); isRet {
		if rk := r.v.(*retKey); rk.fn != nil {
			s = "ret(" + rk.fn.String() + ")"
		}
	}
	return fmt.Sprintf("%s@%d%s", s, r.ctx, k.path)
}

// ---------------------------------------------------------------------------------------------
// type filtering: a pointer-typed node never holds an object whose (known) type is incompatible
// with the node's static type. Unknown types (caller-owned blobs) always pass.

func walkPath(t types.Type, path string) types.Type {
	for path != "" && t != nil {
		switch {
		case strings.HasPrefix(path, "[*]"):
			path = path[3:]
			switch u := t.Underlying().(type) {
			case *types.Array:
				t = u.Elem()
			case *types.Slice:
				t = u.Elem()
			case *types.Map:
				t = u.Elem()
			case *types.Pointer:
				if ar, ok := u.Elem().Underlying().(*types.Array); ok {
					t = ar.Elem()
				} else {
					return nil
				}
			default:
				return nil
			}
		case strings.HasPrefix(path, "[k]"):
			path = path[3:]
			if m, ok := t.Underlying().(*types.Map); ok {
				t = m.Key()
			} else {
				return nil
			}
		case path[0] == '.':
			end := 1
			for end < len(path) && path[end] != '.' && path[end] != '[' {
				end++
			}
			name := path[1:end]
			path = path[end:]
			if strings.HasPrefix(name, "#") {
				tt, ok := t.(*types.Tuple)
				if !ok {
					return nil
				}
				i := 0
				fmt.Sscanf(name[1:], "%d", &i)
				if i >= tt.Len() {
					return nil
				}
				t = tt.At(i).Type()
				continue
			}
			st, ok := t.Underlying().(*types.Struct)
			if !ok {
				return nil
			}
			var ft types.Type
			for i := 0; i < st.NumFields(); i++ {
				if st.Field(i).Name() == name {
					ft = st.Field(i).Type()
					break
				}
			}
			t = ft
		default:
			return nil
		}
	}
	return t
}

// locType returns the static type stored at location l, or nil if unknown.
func (a *Analysis) locType(l Loc) types.Type {
	if l.Obj.Blob || l.Obj.Type == nil {
		return nil
	}
	return walkPath(l.Obj.Type, l.Path)
}

func (a *Analysis) nodeType(n nodeID) types.Type {
	if int(n) < len(a.ntype) && a.ntypeSet[n] {
		return a.ntype[n]
	}
	for len(a.ntype) <= int(n) {
		a.ntype = append(a.ntype, nil)
		a.ntypeSet = append(a.ntypeSet, false)
	}
	k := a.keys[n]
	var t types.Type
	if k.base > 0 {
		t = a.locType(Loc{a.objs[k.base-1], k.path})
	} else {
		v := a.regList[-k.base-1].v
		if v.Type() != nil {
			t = walkPath(v.Type(), k.path)
		}
	}
	a.ntype[n] = t
	a.ntypeSet[n] = true
	return t
}

func moduleNamed(t types.Type) bool {
	n, ok := t.(*types.Named)
	if !ok || n.Obj().Pkg() == nil {
		return false
	}
	p := n.Obj().Pkg().Path()
	return strings.HasPrefix(p, "github.com/cocosip/")
}

// compatible reports whether a node of static type t may hold a pointer to location l.
func (a *Analysis) compatible(t types.Type, l Loc) bool {
	if t == nil {
		return true
	}
	o := l.Obj
	if o.Foreign {
		// result of an un-entered callee: its dynamic type is the declared one, or, behind an
		// interface, some type of a foreign package
		if _, isIface := o.Type.Underlying().(*types.Interface); !isIface {
			if _, nodeIface := t.Underlying().(*types.Interface); nodeIface {
				return true
			}
			return types.Identical(o.Type, t)
		}
		switch u := t.Underlying().(type) {
		case *types.Pointer:
			return !moduleNamed(u.Elem())
		case *types.Slice, *types.Map:
			return false
		}
		return true
	}
	if o.Blob {
		return true
	}
	lt := a.locType(l)
	if lt == nil {
		return true
	}
	switch u := t.Underlying().(type) {
	case *types.Pointer:
		e := u.Elem()
		if types.Identical(lt, e) {
			return true
		}
		// pointer to array obtained from a slice's backing array
		if ea, ok := e.Underlying().(*types.Array); ok {
			switch x := lt.Underlying().(type) {
			case *types.Slice:
				return types.Identical(x.Elem(), ea.Elem())
			case *types.Array:
				return types.Identical(x.Elem(), ea.Elem())
			}
		}
		return false
	case *types.Slice:
		switch x := lt.Underlying().(type) {
		case *types.Slice:
			return types.Identical(x.Elem(), u.Elem())
		case *types.Array:
			return types.Identical(x.Elem(), u.Elem())
		}
		return false
	case *types.Map:
		return types.Identical(lt.Underlying(), u)
	case *types.Signature:
		return o.Kind == FuncObj
	}
	return true
}

// AddTypeSink makes pointer value v (a receiver parameter of an exported method) point to every
// object of named type n allocated anywhere in the analysed program: an external caller may pass
// any object the library's constructors handed out.
func (a *Analysis) AddTypeSink(n *types.Named, v ssa.Value, ctx Ctx) {
	if a.typeSinks == nil {
		a.typeSinks = map[*types.TypeName][]nodeID{}
	}
	node := a.valNode(v, ctx)
	a.typeSinks[n.Obj()] = append(a.typeSinks[n.Obj()], node)
	for _, o := range a.objs {
		if on, ok := o.Type.(*types.Named); ok && on.Obj() == n.Obj() && o.Kind == Fresh && !o.Blob {
			a.addAddr(node, Loc{o, ""})
		}
	}
}

// ReachableFrom returns every object reachable (through stored pointers) from the given objects.
func (a *Analysis) ReachableFrom(roots []*Obj) map[*Obj]bool {
	byObj := map[int32][]nodeID{}
	for id, k := range a.keys {
		if k.base > 0 {
			byObj[k.base] = append(byObj[k.base], nodeID(id))
		}
	}
	seen := map[*Obj]bool{}
	stack := append([]*Obj{}, roots...)
	for _, r := range roots {
		seen[r] = true
	}
	for len(stack) > 0 {
		o := stack[len(stack)-1]
		stack = stack[:len(stack)-1]
		for _, n := range byObj[int32(o.ID)] {
			for l := range a.pts[n] {
				t := a.locList[l].Obj
				if !seen[t] && t.Kind != FuncObj {
					seen[t] = true
					stack = append(stack, t)
				}
			}
		}
	}
	return seen
}

// byteFlow records that bytes may be copied from what src denotes to what dst denotes.
// reader==true: src is an io.Reader-like value; the bytes come from whatever it wraps.
type byteFlow struct {
	src, dst nodeID
	reader   bool
}

// StreamTainted computes the set of array objects that may hold bytes copied from the given
// seed objects (the caller's input buffers): closure over copy / append / Read-style transfers.
// TaintDebug: when set, StreamTainted reports how objects whose name contains it become tainted.
var TaintDebug string

func (a *Analysis) StreamTainted(seed func(o *Obj) bool) map[*Obj]bool {
	t := map[*Obj]bool{}
	for _, o := range a.objs {
		if seed(o) {
			t[o] = true
		}
	}
	reachMemo := map[*Obj]map[*Obj]bool{}
	reach := func(o *Obj) map[*Obj]bool {
		if r, ok := reachMemo[o]; ok {
			return r
		}
		r := a.ReachableFrom([]*Obj{o})
		reachMemo[o] = r
		return r
	}
	for changed := true; changed; {
		changed = false
		for _, f := range a.byteFlows {
			hit := false
			for l := range a.pts[f.src] {
				o := a.locList[l].Obj
				if t[o] {
					hit = true
					break
				}
				if f.reader {
					for ro := range reach(o) {
						if t[ro] {
							hit = true
							break
						}
					}
				}
				if hit {
					break
				}
			}
			if !hit {
				continue
			}
			for l := range a.pts[f.dst] {
				o := a.locList[l].Obj
				if !t[o] {
					t[o] = true
					changed = true
					if TaintDebug != "" && strings.Contains(o.Label, TaintDebug) {
						var srcs []string
						for sl := range a.pts[f.src] {
							if so := a.locList[sl].Obj; t[so] {
								srcs = append(srcs, so.Label)
							}
						}
						fmt.Fprintf(os.Stderr, "TAINT %s <- %v (reader=%v)\n", o.Label, srcs, f.reader)
					}
				}
			}
		}
	}
	return t
}

// ObjectsOf returns the objects a slice/pointer value may refer to in context ctx.
func (a *Analysis) ObjectsOf(v ssa.Value, ctx Ctx) []*Obj {
	var out []*Obj
	for _, l := range a.PointsTo(v, ctx) {
		out = append(out, l.Obj)
	}
	return out
}
