package pta

import (
	"fmt"
	"go/types"

	"golang.org/x/tools/go/ssa"
)

// summary models the effect of one external (un-entered) callee.
type summary func(c *fc, site ssa.CallInstruction, callee *ssa.Function, args []ssa.Value)

var summaries = map[string]summary{}

func init() {
	pure := func(c *fc, site ssa.CallInstruction, callee *ssa.Function, args []ssa.Value) {
		c.freshResults(site, callee)
	}
	// bytes.Buffer -------------------------------------------------------------------------
	for _, m := range []string{"Write", "WriteByte", "WriteString", "WriteRune", "Grow", "Reset", "Truncate", "ReadFrom"} {
		summaries["(*bytes.Buffer)."+m] = func(c *fc, site ssa.CallInstruction, callee *ssa.Function, args []ssa.Value) {
			c.writerWrite(site, args[0], "bytes.Buffer."+callee.Name())
			if callee.Name() == "Write" && len(args) > 1 {
				// bytes of p end up in the buffer's storage: p -> every object reachable from the buffer
				c.a.addComplex(c.node(args[0]), complexC{kind: cHook, hook: func(l Loc) {
					c.a.byteFlows = append(c.a.byteFlows, byteFlow{src: c.node(args[1]), dst: c.a.locNode(Loc{l.Obj, l.Path + ".buf"})})
				}})
			}
		}
	}
	summaries["(*bytes.Buffer).Bytes"] = func(c *fc, site ssa.CallInstruction, callee *ssa.Function, args []ssa.Value) {
		if v := site.Value(); v != nil {
			c.a.addComplex(c.node(args[0]), complexC{kind: cLoad, other: c.base(v), leaves: []string{""}, suffix: ".buf"})
		}
	}
	summaries["(*bytes.Buffer).Next"] = summaries["(*bytes.Buffer).Bytes"]
	for _, m := range []string{"Len", "Cap", "String", "ReadByte", "UnreadByte", "Available"} {
		summaries["(*bytes.Buffer)."+m] = pure
	}
	summaries["(*bytes.Buffer).Read"] = func(c *fc, site ssa.CallInstruction, callee *ssa.Function, args []ssa.Value) {
		c.effect(EffExternalWrite, args[1], "[*]", site, "bytes.Buffer.Read fills its argument")
		c.a.byteFlows = append(c.a.byteFlows, byteFlow{src: c.node(args[0]), dst: c.node(args[1]), reader: true})
	}
	summaries["bytes.NewBuffer"] = func(c *fc, site ssa.CallInstruction, callee *ssa.Function, args []ssa.Value) {
		v := site.Value()
		if v == nil {
			return
		}
		o := c.site(v, "", v.Type().(*types.Pointer).Elem())
		c.a.addAddr(c.node(v), Loc{o, ""})
		c.a.addCopy(c.a.locNode(Loc{o, ".buf"}), c.node(args[0]))
	}
	summaries["bytes.NewReader"] = func(c *fc, site ssa.CallInstruction, callee *ssa.Function, args []ssa.Value) {
		v := site.Value()
		if v == nil {
			return
		}
		o := c.site(v, "", v.Type().(*types.Pointer).Elem())
		c.a.addAddr(c.node(v), Loc{o, ""})
		c.a.addCopy(c.a.locNode(Loc{o, ".s"}), c.node(args[0]))
	}
	for _, m := range []string{"Read", "ReadAt"} {
		summaries["(*bytes.Reader)."+m] = func(c *fc, site ssa.CallInstruction, callee *ssa.Function, args []ssa.Value) {
			c.effect(EffExternalWrite, args[1], "[*]", site, "bytes.Reader.Read fills its argument")
			c.a.byteFlows = append(c.a.byteFlows, byteFlow{src: c.node(args[0]), dst: c.node(args[1]), reader: true})
		}
	}
	for _, m := range []string{"ReadByte", "UnreadByte", "Len", "Size", "Seek", "Reset"} {
		summaries["(*bytes.Reader)."+m] = pure
	}
	// encoding/binary ---------------------------------------------------------------------
	summaries["encoding/binary.Write"] = func(c *fc, site ssa.CallInstruction, callee *ssa.Function, args []ssa.Value) {
		c.writerWrite(site, args[0], "binary.Write")
	}
	summaries["encoding/binary.Read"] = func(c *fc, site ssa.CallInstruction, callee *ssa.Function, args []ssa.Value) {
		c.readerRead(site, args[0], "binary.Read")
		c.effect(EffExternalWrite, args[2], "", site, "binary.Read stores through its data argument")
		c.a.byteFlows = append(c.a.byteFlows, byteFlow{src: c.node(args[0]), dst: c.node(args[2]), reader: true})
	}
	for _, e := range []string{"bigEndian", "littleEndian"} {
		for _, m := range []string{"PutUint16", "PutUint32", "PutUint64"} {
			summaries["(encoding/binary."+e+")."+m] = func(c *fc, site ssa.CallInstruction, callee *ssa.Function, args []ssa.Value) {
				c.effect(EffExternalWrite, args[1], "[*]", site, "binary.Put* writes its slice argument")
			}
		}
		for _, m := range []string{"Uint16", "Uint32", "Uint64", "String"} {
			summaries["(encoding/binary."+e+")."+m] = pure
		}
	}
	// append-like helpers: the result is the first slice argument extended (possibly in place) or
	// a fresh array holding its bytes.
	appendLike := func(idx int) summary {
		return func(c *fc, site ssa.CallInstruction, callee *ssa.Function, args []ssa.Value) {
			v := site.Value()
			if v == nil || idx >= len(args) {
				return
			}
			s := args[idx]
			res := c.node(v)
			c.a.addCopy(res, c.node(s))
			o := c.site(v, "", v.Type())
			c.a.addAddr(res, Loc{o, ""})
			c.effect(EffAppendInPlace, s, "[*]", site, callee.Name()+" may write into the spare capacity of its slice operand")
			c.a.byteFlows = append(c.a.byteFlows, byteFlow{src: c.node(s), dst: res})
			for i, other := range args {
				if i != idx {
					if _, isSl := other.Type().Underlying().(*types.Slice); isSl {
						c.a.byteFlows = append(c.a.byteFlows, byteFlow{src: c.node(other), dst: res})
					}
				}
			}
		}
	}
	for _, e := range []string{"bigEndian", "littleEndian"} {
		for _, m := range []string{"AppendUint16", "AppendUint32", "AppendUint64"} {
			summaries["(encoding/binary."+e+")."+m] = appendLike(1)
		}
	}
	summaries["encoding/binary.Append"] = appendLike(0)
	for _, m := range []string{"slices.Grow", "slices.Insert", "slices.Delete", "slices.Clip", "slices.Concat", "slices.Compact"} {
		summaries[m] = appendLike(0)
	}
	// copies: a fresh array holding the bytes of the arguments
	cloneLike := func(c *fc, site ssa.CallInstruction, callee *ssa.Function, args []ssa.Value) {
		c.freshResults(site, callee)
		if v := site.Value(); v != nil {
			for _, a := range args {
				if _, isSl := a.Type().Underlying().(*types.Slice); isSl {
					c.a.byteFlows = append(c.a.byteFlows, byteFlow{src: c.node(a), dst: c.node(v)})
				}
			}
		}
	}
	for _, m := range []string{"bytes.Clone", "slices.Clone", "bytes.Repeat", "bytes.Join", "bytes.ToUpper", "bytes.ToLower"} {
		summaries[m] = cloneLike
	}
	// read-only helpers
	for _, m := range []string{"bytes.Equal", "bytes.Compare", "bytes.Index", "bytes.IndexByte", "bytes.LastIndex", "bytes.LastIndexByte",
		"bytes.Contains", "bytes.HasPrefix", "bytes.HasSuffix", "bytes.Count", "bytes.IndexAny", "bytes.IndexFunc", "bytes.ContainsAny",
		"slices.Equal", "slices.EqualFunc", "slices.CompareFunc", "slices.IndexFunc", "slices.MaxFunc", "slices.MinFunc", "slices.BinarySearchFunc", "slices.IsSortedFunc", "slices.Contains", "slices.Index", "slices.IndexFunc", "slices.ContainsFunc", "slices.Max", "slices.Min",
		"slices.BinarySearch", "slices.IsSorted", "slices.Compare", "(encoding/binary.bigEndian).GoString", "(encoding/binary.littleEndian).GoString",
		"encoding/binary.Size"} {
		summaries[m] = pure
	}
	// iterators: maps.Keys(m) / slices.Values(s) build a read-only sequence; slices.Sorted(seq) /
	// slices.Collect(seq) gather it into a fresh slice. Only for element types without pointers —
	// with pointers the fresh slice would alias what the map holds, which is not modelled here, and
	// the call stays unresolved.
	for _, m := range []string{"maps.Keys", "maps.Values", "maps.All", "slices.Values", "slices.All", "slices.Backward", "slices.Chunk"} {
		summaries[m] = pure
	}
	for _, m := range []string{"slices.Sorted", "slices.Collect", "slices.SortedFunc", "slices.SortedStableFunc"} {
		summaries[m] = func(c *fc, site ssa.CallInstruction, callee *ssa.Function, args []ssa.Value) {
			if v := site.Value(); v != nil {
				if sl, ok := v.Type().Underlying().(*types.Slice); ok && hasPointers(sl.Elem()) {
					c.a.Unresolved = append(c.a.Unresolved, Unresolved{Instr: site, Fn: c.fn, Callee: callee.String(), Reason: "collects a sequence of pointer-carrying elements: aliasing with the source is not modelled"})
					return
				}
			}
			c.freshResults(site, callee)
		}
	}
	// io ----------------------------------------------------------------------------------
	for _, m := range []string{"io.ReadFull", "io.ReadAtLeast"} {
		summaries[m] = func(c *fc, site ssa.CallInstruction, callee *ssa.Function, args []ssa.Value) {
			c.readerRead(site, args[0], callee.Name())
			c.effect(EffExternalWrite, args[1], "[*]", site, callee.Name()+" fills its buffer argument")
			c.a.byteFlows = append(c.a.byteFlows, byteFlow{src: c.node(args[0]), dst: c.node(args[1]), reader: true})
		}
	}
	summaries["io.ReadAll"] = func(c *fc, site ssa.CallInstruction, callee *ssa.Function, args []ssa.Value) {
		c.readerRead(site, args[0], "io.ReadAll")
		c.freshResults(site, callee)
		if v := site.Value(); v != nil {
			c.a.byteFlows = append(c.a.byteFlows, byteFlow{src: c.node(args[0]), dst: c.a.baseNode(nodeBase{c.a.regBase(v, c.ctx), ".#0"}, ""), reader: true})
		}
	}
	for _, m := range []string{"io.CopyN", "io.Copy"} {
		summaries[m] = func(c *fc, site ssa.CallInstruction, callee *ssa.Function, args []ssa.Value) {
			c.writerWrite(site, args[0], callee.Name())
			c.readerRead(site, args[1], callee.Name())
		}
	}
	// sort --------------------------------------------------------------------------------
	for _, m := range []string{"sort.Ints", "sort.Float64s", "sort.Strings", "sort.Slice", "sort.SliceStable", "slices.Sort", "slices.SortFunc", "slices.SortStableFunc", "slices.Reverse"} {
		summaries[m] = func(c *fc, site ssa.CallInstruction, callee *ssa.Function, args []ssa.Value) {
			// the first argument may be an interface (sort.Slice) or a slice
			c.effect(EffExternalWrite, args[0], "[*]", site, callee.Name()+" permutes its argument in place")
		}
	}
	// go-dicom registry: synchronised inside go-dicom, not library state --------------------
	for _, m := range []string{
		"github.com/cocosip/go-dicom/pkg/imaging/codec.GetGlobalRegistry",
		"(*github.com/cocosip/go-dicom/pkg/imaging/codec.Registry).RegisterCodec",
		"(*github.com/cocosip/go-dicom/pkg/imaging/codec.Registry).GetCodec",
	} {
		summaries[m] = pure
	}
}

// writerWrite models "something is written to the io.Writer w".
func (c *fc) writerWrite(site ssa.CallInstruction, w ssa.Value, what string) {
	a, g, fn := c.a, c.g, c.fn
	a.addComplex(c.node(w), complexC{kind: cHook, hook: func(l Loc) {
		key := fmt.Sprintf("ww/%p/%d/%d/%s", site, c.ctx, l.Obj.ID, l.Path)
		if g.hooked[key] {
			return
		}
		g.hooked[key] = true
		o := l.Obj
		switch {
		case o.Foreign:
		case o.Blob || o.Kind != Fresh && o.Kind != Global:
			a.AddEffect(EffExternalWrite, l, site, fn, c.ctx, what+" writes to caller-owned writer")
		case isNamed(o.Type, l.Path, "bytes", "Buffer"):
			a.AddEffect(EffExternalWrite, l, site, fn, c.ctx, what)
			st := a.siteObj2("bufstore/"+l.String(), o)
			bufNode := a.locNode(Loc{o, l.Path + ".buf"})
			a.addAddr(bufNode, Loc{st, ""})
			g.deferred = append(g.deferred, deferredEffect{EffExternalWrite, bufNode, "[*]", site, fn, c.ctx, what + " appends to the buffer's backing array"})
		default:
			// a writer implemented in the analysed program: call its Write method
			if m := g.methodOf(o.Type, "Write"); m != nil {
				c.lateCall(site, m, l)
			} else {
				a.Unresolved = append(a.Unresolved, Unresolved{Instr: site, Fn: fn, Callee: what, Reason: "writer object " + l.String() + " of unknown type"})
			}
		}
	}})
}

// readerRead models "bytes are read from io.Reader r" (the reader advances; nothing else is written).
func (c *fc) readerRead(site ssa.CallInstruction, r ssa.Value, what string) {
	a, g, fn := c.a, c.g, c.fn
	a.addComplex(c.node(r), complexC{kind: cHook, hook: func(l Loc) {
		key := fmt.Sprintf("rr/%p/%d/%d/%s", site, c.ctx, l.Obj.ID, l.Path)
		if g.hooked[key] {
			return
		}
		g.hooked[key] = true
		o := l.Obj
		switch {
		case o.Foreign:
			// an object produced by a standard-library callee (error values, image readers): private
		case o.Blob || o.Kind != Fresh && o.Kind != Global:
			a.AddEffect(EffExternalWrite, l, site, fn, c.ctx, what+" advances a caller-owned reader")
		case isNamed(o.Type, l.Path, "bytes", "Reader"), isNamed(o.Type, l.Path, "bytes", "Buffer"):
			a.AddEffect(EffExternalWrite, l, site, fn, c.ctx, what+" advances the reader")
		default:
			if m := g.methodOf(o.Type, "Read"); m != nil {
				c.lateCall(site, m, l)
			} else {
				a.Unresolved = append(a.Unresolved, Unresolved{Instr: site, Fn: fn, Callee: what, Reason: "reader object " + l.String() + " of unknown type"})
			}
		}
	}})
}

func (a *Analysis) siteObj2(key string, like *Obj) *Obj {
	if o, ok := a.siteObjs2[key]; ok {
		return o
	}
	o := &Obj{ID: len(a.objs) + 1, Kind: like.Kind, Label: key, Pos: like.Pos, Fn: like.Fn, Site: like.Site, Ctx: like.Ctx}
	a.objs = append(a.objs, o)
	a.siteObjs2[key] = o
	return o
}

// isNamed reports whether the sub-object at path (only "" supported precisely) of type t is pkg.name.
func isNamed(t types.Type, path, pkg, name string) bool {
	if t == nil {
		return false
	}
	if path != "" {
		// resolve the path through struct fields
		for path != "" {
			if path[0] != '.' {
				return false
			}
			end := 1
			for end < len(path) && path[end] != '.' && path[end] != '[' {
				end++
			}
			fname := path[1:end]
			st, ok := t.Underlying().(*types.Struct)
			if !ok {
				return false
			}
			found := false
			for i := 0; i < st.NumFields(); i++ {
				if st.Field(i).Name() == fname {
					t = st.Field(i).Type()
					found = true
					break
				}
			}
			if !found {
				return false
			}
			path = path[end:]
		}
	}
	n, ok := t.(*types.Named)
	return ok && n.Obj().Pkg() != nil && n.Obj().Pkg().Path() == pkg && n.Obj().Name() == name
}

func (g *genState) methodOf(t types.Type, name string) *ssa.Function {
	if t == nil {
		return nil
	}
	prog := g.prog()
	if prog == nil {
		return nil
	}
	for _, tt := range []types.Type{types.NewPointer(t), t} {
		ms := prog.MethodSets.MethodSet(tt)
		for i := 0; i < ms.Len(); i++ {
			if ms.At(i).Obj().Name() == name {
				return prog.MethodValue(ms.At(i))
			}
		}
	}
	return nil
}

func (g *genState) prog() *ssa.Program {
	for _, r := range g.a.cfg.Roots {
		if r.Fn != nil {
			return r.Fn.Prog
		}
	}
	return nil
}

// lateCall binds receiver location l to method m (used when an external summary calls back
// into the analysed program, e.g. binary.Write -> (*T).Write).
func (c *fc) lateCall(site ssa.CallInstruction, m *ssa.Function, recv Loc) {
	a, g, fn := c.a, c.g, c.fn
	if m.Blocks == nil || len(m.Params) == 0 {
		return
	}
	a.addAddr(a.valNode(m.Params[0], c.ctx), recv)
	for _, p := range m.Params[1:] {
		if lv := a.leaves(p.Type()); len(lv) > 0 {
			o := a.siteObj2(fmt.Sprintf("latearg/%s/%s", m.String(), p.Name()), &Obj{Kind: Fresh, Pos: site.Pos(), Fn: fn})
			for _, pth := range lv {
				a.addAddr(a.baseNode(a.valBase(p, c.ctx), pth), Loc{o, ""})
			}
		}
	}
	if !a.Reach[FnCtx{m, c.ctx}] {
		g.lateFuncs = append(g.lateFuncs, FnCtx{m, c.ctx})
	}
}

// hasPointers: values of type t can hold a reference to other memory.
func hasPointers(t types.Type) bool {
	switch u := t.Underlying().(type) {
	case *types.Basic:
		return u.Kind() == types.UnsafePointer
	case *types.Array:
		return hasPointers(u.Elem())
	case *types.Struct:
		for i := 0; i < u.NumFields(); i++ {
			if hasPointers(u.Field(i).Type()) {
				return true
			}
		}
		return false
	}
	return true
}
