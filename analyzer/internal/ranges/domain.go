// Package ranges is engine E2 of DESIGN §3.3: an interprocedural interval + stream-taint analysis
// over go/ssa. Abstract values are unions of at most four disjoint intervals with a taint bit, an
// exactness bit, per-side "sanitised" bits and a possible-one-bits mask.
package ranges

import (
	"fmt"
	"math"
	"math/bits"
	"sort"
	"strings"
)

const (
	negInf = math.MinInt64
	posInf = math.MaxInt64
)

// Itv is a closed interval; Lo==negInf / Hi==posInf mean unbounded.
type Itv struct{ Lo, Hi int64 }

func (i Itv) String() string {
	lo, hi := fmt.Sprint(i.Lo), fmt.Sprint(i.Hi)
	if i.Lo == negInf {
		lo = "-inf"
	}
	if i.Hi == posInf {
		hi = "+inf"
	}
	if i.Lo == i.Hi {
		return "{" + lo + "}"
	}
	return "[" + lo + "," + hi + "]"
}

// AV is an abstract integer value.
type AV struct {
	P     []Itv  // disjoint, sorted pieces; empty = bottom (unreachable / no value)
	Taint bool   // a function of bytes / arguments an adversary controls
	Exact bool   // every value of every piece is producible if the path is feasible
	SanLo bool   // some mask / guard / conversion / table limited the lower side
	SanHi bool   // ... the upper side
	Bits  uint64 // possible one-bits when the value is known non-negative; ^0 = unknown
	// ZeroDef: the value 0 is present because a struct field may still hold its zero value (the
	// assignment that gives it its real value lives in a step that need not have run).
	ZeroDef bool
	// Raw: the value is an adversarial scalar as it arrived (an entry-point argument, a value pulled
	// out of a parameters bag, a wide header field), possibly converted or offset/scaled by constants,
	// but not yet combined with other variables. Only raw values qualify for the "no limit applied at
	// all" witness shape.
	Raw bool
	// Blowup: the value is (derived from) 1<<n with a stream-controlled, unchecked n that can reach 31
	// or more: sizes built from it are exponential in a header byte.
	Blowup bool
	// Trip: the value is a pure iteration counter of a loop whose exit test depends on a
	// stream-controlled value (length++ in `for n > 0 { n >>= 1; length++ }`): it is controlled by
	// the stream through the trip count although no data flows into it.
	Trip bool
}

const maxPieces = 4

func Bottom() AV { return AV{Exact: true, SanLo: true, SanHi: true, Bits: 0} }

func (a AV) IsBottom() bool { return len(a.P) == 0 }

func Const(c int64) AV {
	b := ^uint64(0)
	if c >= 0 {
		b = uint64(c)
	}
	return AV{P: []Itv{{c, c}}, Exact: true, SanLo: true, SanHi: true, Bits: b}
}

func Range(lo, hi int64) AV {
	a := AV{P: []Itv{{lo, hi}}, Bits: ^uint64(0)}
	if lo >= 0 && hi != posInf {
		a.Bits = maskFor(uint64(hi))
	}
	return a
}

// Top is the full range of a type (lo, hi) with nothing known.
func Top(lo, hi int64) AV { return Range(lo, hi) }

func maskFor(hi uint64) uint64 {
	if hi == 0 {
		return 0
	}
	n := bits.Len64(hi)
	if n >= 64 {
		return ^uint64(0)
	}
	return (uint64(1) << n) - 1
}

func (a AV) Lo() int64 {
	if len(a.P) == 0 {
		return posInf
	}
	return a.P[0].Lo
}

func (a AV) Hi() int64 {
	if len(a.P) == 0 {
		return negInf
	}
	return a.P[len(a.P)-1].Hi
}

func (a AV) String() string {
	if a.IsBottom() {
		return "⊥"
	}
	var ps []string
	for _, p := range a.P {
		ps = append(ps, p.String())
	}
	s := strings.Join(ps, "∪")
	var fl []string
	if a.Taint {
		fl = append(fl, "tainted")
	}
	if a.Exact {
		fl = append(fl, "exact")
	}
	if !a.SanLo {
		fl = append(fl, "lo-unlimited")
	}
	if !a.SanHi {
		fl = append(fl, "hi-unlimited")
	}
	if a.Raw {
		fl = append(fl, "raw")
	}
	if a.Blowup {
		fl = append(fl, "2^stream-byte")
	}
	if a.Trip {
		fl = append(fl, "trip-count")
	}
	if len(fl) > 0 {
		s += " (" + strings.Join(fl, ",") + ")"
	}
	return s
}

func (a AV) Contains(c int64) bool {
	for _, p := range a.P {
		if p.Lo <= c && c <= p.Hi {
			return true
		}
	}
	return false
}

// Within reports whether every value lies in [lo,hi].
func (a AV) Within(lo, hi int64) bool {
	if a.IsBottom() {
		return true
	}
	return a.Lo() >= lo && a.Hi() <= hi
}

// normalize sorts, merges and limits the number of pieces.
func normalize(ps []Itv) ([]Itv, bool) {
	if len(ps) == 0 {
		return nil, false
	}
	sort.Slice(ps, func(i, j int) bool { return ps[i].Lo < ps[j].Lo })
	out := []Itv{ps[0]}
	for _, p := range ps[1:] {
		last := &out[len(out)-1]
		if last.Hi == posInf || p.Lo <= last.Hi+1 {
			if p.Hi > last.Hi {
				last.Hi = p.Hi
			}
		} else {
			out = append(out, p)
		}
	}
	hulled := false
	for len(out) > maxPieces {
		// merge the two closest neighbours
		best, gap := 0, int64(posInf)
		for i := 0; i+1 < len(out); i++ {
			g := satSub(out[i+1].Lo, out[i].Hi)
			if g < gap {
				gap, best = g, i
			}
		}
		out[best].Hi = out[best+1].Hi
		out = append(out[:best+1], out[best+2:]...)
		hulled = true
	}
	return out, hulled
}

// Join is the least upper bound.
func Join(a, b AV) AV {
	if a.IsBottom() {
		return b
	}
	if b.IsBottom() {
		return a
	}
	ps, hulled := normalize(append(append([]Itv{}, a.P...), b.P...))
	return AV{P: ps, Taint: a.Taint || b.Taint, Exact: a.Exact && b.Exact && !hulled, SanLo: a.SanLo && b.SanLo, SanHi: a.SanHi && b.SanHi, Bits: a.Bits | b.Bits, ZeroDef: a.ZeroDef || b.ZeroDef, Raw: a.Raw && b.Raw, Blowup: a.Blowup || b.Blowup, Trip: a.Trip || b.Trip}
}

// Equal compares ranges and flags.
func Equal(a, b AV) bool {
	if len(a.P) != len(b.P) || a.Taint != b.Taint || a.Exact != b.Exact || a.SanLo != b.SanLo || a.SanHi != b.SanHi || a.Bits != b.Bits || a.ZeroDef != b.ZeroDef || a.Raw != b.Raw || a.Blowup != b.Blowup || a.Trip != b.Trip {
		return false
	}
	for i := range a.P {
		if a.P[i] != b.P[i] {
			return false
		}
	}
	return true
}

// Meet intersects a with [lo,hi]; the limited sides become sanitised. The result keeps a's
// exactness (restricting an exact set by a constant guard keeps every remaining value producible).
func (a AV) Meet(lo, hi int64) AV {
	var ps []Itv
	for _, p := range a.P {
		l, h := p.Lo, p.Hi
		if l < lo {
			l = lo
		}
		if h > hi {
			h = hi
		}
		if l <= h {
			ps = append(ps, Itv{l, h})
		}
	}
	r := a
	r.P = ps
	r.ZeroDef = a.ZeroDef && lo <= 0 && hi >= 0
	if lo != negInf {
		r.SanLo = true
	}
	if hi != posInf {
		r.SanHi = true
	}
	if len(ps) > 0 && ps[0].Lo >= 0 && ps[len(ps)-1].Hi != posInf {
		r.Bits &= maskFor(uint64(ps[len(ps)-1].Hi))
	}
	return r
}

// Remove excludes the single value c (x != c refinement).
func (a AV) Remove(c int64) AV {
	var ps []Itv
	for _, p := range a.P {
		switch {
		case c < p.Lo || c > p.Hi:
			ps = append(ps, p)
		case p.Lo == p.Hi:
		case c == p.Lo:
			ps = append(ps, Itv{p.Lo + 1, p.Hi})
		case c == p.Hi:
			ps = append(ps, Itv{p.Lo, p.Hi - 1})
		default:
			ps = append(ps, Itv{p.Lo, c - 1}, Itv{c + 1, p.Hi})
		}
	}
	r := a
	r.P, _ = normalize(ps)
	if c == 0 {
		r.ZeroDef = false
	}
	return r
}

// Widen pushes unstable bounds to the next threshold.
func Widen(old, nw AV, thresholds []int64, lo, hi int64) AV {
	if old.IsBottom() {
		return nw
	}
	r := Join(old, nw)
	if r.IsBottom() {
		return r
	}
	nl, nh := r.Lo(), r.Hi()
	if nl < old.Lo() {
		nl = lo
		for i := len(thresholds) - 1; i >= 0; i-- {
			if thresholds[i] <= r.Lo() {
				nl = thresholds[i]
				break
			}
		}
	}
	if nh > old.Hi() {
		nh = hi
		for _, t := range thresholds {
			if t >= r.Hi() {
				nh = t
				break
			}
		}
	}
	if nl != r.Lo() || nh != r.Hi() {
		r.P = []Itv{{nl, nh}}
		r.Exact = false
		if nl >= 0 && nh != posInf {
			r.Bits = maskFor(uint64(nh))
		} else {
			r.Bits = ^uint64(0)
		}
	}
	return r
}

// ---------------------------------------------------------------------------------------------
// saturating arithmetic

func satAdd(a, b int64) int64 {
	if a == negInf || b == negInf {
		if a == posInf || b == posInf {
			return posInf
		}
		return negInf
	}
	if a == posInf || b == posInf {
		return posInf
	}
	s := a + b
	if (a > 0 && b > 0 && s < 0) || s == posInf {
		return posInf
	}
	if (a < 0 && b < 0 && s >= 0) || s == negInf {
		return negInf
	}
	return s
}

func satNeg(a int64) int64 {
	switch a {
	case negInf:
		return posInf
	case posInf:
		return negInf
	}
	return -a
}

func satSub(a, b int64) int64 { return satAdd(a, satNeg(b)) }

func satMul(a, b int64) int64 {
	if a == 0 || b == 0 {
		return 0
	}
	neg := (a < 0) != (b < 0)
	if a == negInf || a == posInf || b == negInf || b == posInf {
		if neg {
			return negInf
		}
		return posInf
	}
	hi, lo := bits.Mul64(abs64(a), abs64(b))
	if hi != 0 || lo >= uint64(posInf) {
		if neg {
			return negInf
		}
		return posInf
	}
	if neg {
		return -int64(lo)
	}
	return int64(lo)
}

func abs64(a int64) uint64 {
	if a < 0 {
		return uint64(-a)
	}
	return uint64(a)
}

func min4(a, b, c, d int64) int64 { return minI(minI(a, b), minI(c, d)) }
func max4(a, b, c, d int64) int64 { return maxI(maxI(a, b), maxI(c, d)) }
func minI(a, b int64) int64 {
	if a < b {
		return a
	}
	return b
}
func maxI(a, b int64) int64 {
	if a > b {
		return a
	}
	return b
}

// hull returns the single-interval hull.
func (a AV) hull() Itv {
	return Itv{a.Lo(), a.Hi()}
}

// combine builds the result of a binary operation from piece-wise results.
func combine(a, b AV, f func(x, y Itv) Itv) AV {
	var ps []Itv
	for _, x := range a.P {
		for _, y := range b.P {
			ps = append(ps, f(x, y))
		}
	}
	n, _ := normalize(ps)
	return AV{P: n, Taint: a.Taint || b.Taint, Bits: ^uint64(0), Blowup: a.Blowup || b.Blowup}
}

func isPoint(a AV) (int64, bool) {
	if len(a.P) == 1 && a.P[0].Lo == a.P[0].Hi {
		return a.P[0].Lo, true
	}
	return 0, false
}

// Add, Sub, Mul: exactness survives only when one operand is a constant.
func Add(a, b AV) AV {
	if a.IsBottom() || b.IsBottom() {
		return Bottom()
	}
	r := combine(a, b, func(x, y Itv) Itv { return Itv{satAdd(x.Lo, y.Lo), satAdd(x.Hi, y.Hi)} })
	_, ca := isPoint(a)
	_, cb := isPoint(b)
	r.Exact = (ca && b.Exact) || (cb && a.Exact)
	r.SanLo, r.SanHi = a.SanLo && b.SanLo, a.SanHi && b.SanHi
	r.Raw = (ca && b.Raw) || (cb && a.Raw)
	r.fixBits()
	return r
}

func Sub(a, b AV) AV {
	if a.IsBottom() || b.IsBottom() {
		return Bottom()
	}
	r := combine(a, b, func(x, y Itv) Itv { return Itv{satSub(x.Lo, y.Hi), satSub(x.Hi, y.Lo)} })
	_, ca := isPoint(a)
	_, cb := isPoint(b)
	r.Exact = (ca && b.Exact) || (cb && a.Exact)
	r.SanLo, r.SanHi = a.SanLo && b.SanHi, a.SanHi && b.SanLo
	r.Raw = cb && a.Raw
	r.fixBits()
	return r
}

func Mul(a, b AV) AV {
	if a.IsBottom() || b.IsBottom() {
		return Bottom()
	}
	r := combine(a, b, func(x, y Itv) Itv {
		p1, p2, p3, p4 := satMul(x.Lo, y.Lo), satMul(x.Lo, y.Hi), satMul(x.Hi, y.Lo), satMul(x.Hi, y.Hi)
		return Itv{min4(p1, p2, p3, p4), max4(p1, p2, p3, p4)}
	})
	ka, ca := isPoint(a)
	kb, cb := isPoint(b)
	r.Exact = false // a product of an interval by k skips values; never claim exactness
	_ = ka
	_ = kb
	_ = ca
	_ = cb
	r.SanLo, r.SanHi = a.SanLo && b.SanLo && a.SanHi && b.SanHi, a.SanLo && b.SanLo && a.SanHi && b.SanHi
	if a.Lo() >= 0 && b.Lo() >= 0 {
		r.SanLo = true
		r.SanHi = a.SanHi && b.SanHi
	}
	r.Raw = (ca && b.Raw) || (cb && a.Raw)
	r.fixBits()
	return r
}

func (r *AV) fixBits() {
	if !r.IsBottom() && r.Lo() >= 0 && r.Hi() != posInf {
		r.Bits = maskFor(uint64(r.Hi()))
	} else {
		r.Bits = ^uint64(0)
	}
}

// Div is Go's truncated integer division (divisor assumed non-zero by the caller's obligation).
func Div(a, b AV) AV {
	if a.IsBottom() || b.IsBottom() {
		return Bottom()
	}
	bb := b.Remove(0)
	if bb.IsBottom() {
		return Bottom()
	}
	r := combine(a, bb, func(x, y Itv) Itv {
		var c []int64
		for _, d := range []int64{y.Lo, y.Hi, -1, 1} {
			if d == 0 || d < y.Lo || d > y.Hi {
				continue
			}
			for _, n := range []int64{x.Lo, x.Hi} {
				c = append(c, satDiv(n, d))
			}
		}
		lo, hi := c[0], c[0]
		for _, v := range c {
			lo, hi = minI(lo, v), maxI(hi, v)
		}
		return Itv{lo, hi}
	})
	r.SanLo, r.SanHi = a.SanLo, a.SanHi
	if a.Lo() >= 0 && bb.Lo() > 0 {
		r.SanLo = true
	}
	r.fixBits()
	return r
}

func satDiv(n, d int64) int64 {
	if n == posInf || n == negInf {
		if (n == posInf) == (d > 0) {
			return posInf
		}
		return negInf
	}
	if d == posInf || d == negInf {
		return 0
	}
	return n / d
}

// Rem: |result| < |divisor|, sign follows the dividend.
func Rem(a, b AV) AV {
	if a.IsBottom() || b.IsBottom() {
		return Bottom()
	}
	m := maxI(absSat(b.Lo()), absSat(b.Hi()))
	if m == posInf {
		r := a
		r.Exact = false
		return r
	}
	lo, hi := int64(0), m-1
	if a.Lo() < 0 {
		lo = -(m - 1)
	}
	if a.Hi() < 0 {
		hi = 0
	}
	if a.Lo() >= 0 && a.Hi() < m {
		hi = a.Hi()
	}
	r := Range(lo, hi)
	r.Taint = a.Taint || b.Taint
	r.SanLo, r.SanHi = true, true
	return r
}

func absSat(a int64) int64 {
	if a == negInf || a == posInf {
		return posInf
	}
	if a < 0 {
		return -a
	}
	return a
}

// And with known bits: for non-negative operands the result's bits are the intersection.
func And(a, b AV) AV {
	if a.IsBottom() || b.IsBottom() {
		return Bottom()
	}
	r := AV{Taint: a.Taint || b.Taint, Bits: ^uint64(0)}
	kb, cb := isPoint(b)
	ka, ca := isPoint(a)
	switch {
	case a.Lo() >= 0 && b.Lo() >= 0:
		m := a.Bits & b.Bits
		hi := minI(a.Hi(), b.Hi())
		if m != ^uint64(0) && int64(m) >= 0 && int64(m) < hi {
			hi = int64(m)
		}
		r.P = []Itv{{0, hi}}
		r.Bits = m & maskFor(uint64(hi))
	case b.Lo() >= 0:
		r.P = []Itv{{0, b.Hi()}}
		r.Bits = b.Bits
	case a.Lo() >= 0:
		r.P = []Itv{{0, a.Hi()}}
		r.Bits = a.Bits
	default:
		r.P = []Itv{{negInf, posInf}}
	}
	r.SanLo, r.SanHi = true, true
	if r.Lo() == negInf {
		r.SanLo, r.SanHi = a.SanLo && b.SanLo, a.SanHi && b.SanHi
	}
	// x & (2^k-1) of an exact full-range value is exact
	if cb && kb >= 0 && uint64(kb)&(uint64(kb)+1) == 0 && a.Exact && (a.Hi() >= kb || a.Lo() < 0) {
		r.Exact = true
	}
	if ca && ka >= 0 && uint64(ka)&(uint64(ka)+1) == 0 && b.Exact && (b.Hi() >= ka || b.Lo() < 0) {
		r.Exact = true
	}
	return r
}

// Or / Xor on non-negative operands: bits union.
func Or(a, b AV, xor bool) AV {
	if a.IsBottom() || b.IsBottom() {
		return Bottom()
	}
	r := AV{Taint: a.Taint || b.Taint, Bits: ^uint64(0)}
	if a.Lo() >= 0 && b.Lo() >= 0 && a.Bits != ^uint64(0) && b.Bits != ^uint64(0) {
		m := a.Bits | b.Bits
		lo := int64(0)
		if !xor {
			lo = maxI(a.Lo(), b.Lo())
		}
		hi := int64(m)
		if int64(m) < 0 {
			hi = posInf
		}
		r.P = []Itv{{lo, hi}}
		r.Bits = m
		r.SanLo, r.SanHi = true, a.SanHi && b.SanHi
		// OR of exact bit-fields occupying disjoint bit positions is exact
		if a.Exact && b.Exact && a.Bits&b.Bits == 0 && exactBitField(a) && exactBitField(b) {
			r.Exact = true
		}
		return r
	}
	r.P = []Itv{{negInf, posInf}}
	r.SanLo, r.SanHi = a.SanLo && b.SanLo, a.SanHi && b.SanHi
	return r
}

// exactBitField: the value ranges over every combination of its possible bits (e.g. a masked,
// shifted byte): true for an exact [0, mask] value whose mask is contiguous ones shifted left.
func exactBitField(a AV) bool {
	if len(a.P) != 1 || a.P[0].Lo != 0 || a.Bits == ^uint64(0) {
		return false
	}
	return uint64(a.P[0].Hi) == a.Bits || a.Bits == 0
}

// Shl by a constant (or small range) count.
func Shl(a, n AV) AV {
	if a.IsBottom() || n.IsBottom() {
		return Bottom()
	}
	r := AV{Taint: a.Taint || n.Taint, Bits: ^uint64(0), Blowup: a.Blowup}
	if n.Taint && (n.Exact || n.Trip) && n.Hi() >= 31 && a.Hi() >= 1 {
		r.Blowup = true
	}
	if n.Lo() < 0 || n.Hi() > 62 {
		r.P = []Itv{{negInf, posInf}}
		if a.Lo() >= 0 {
			r.P = []Itv{{0, posInf}}
			r.SanLo = true
		}
		return r
	}
	k, constCount := isPoint(n)
	sh := func(v int64, c int64) int64 {
		if v == posInf || v == negInf {
			return v
		}
		return satMul(v, int64(1)<<uint(c))
	}
	lo := minI(sh(a.Lo(), n.Lo()), sh(a.Lo(), n.Hi()))
	hi := maxI(sh(a.Hi(), n.Lo()), sh(a.Hi(), n.Hi()))
	r.P = []Itv{{lo, hi}}
	r.SanLo, r.SanHi = a.SanLo, a.SanHi && n.SanHi
	if a.Lo() >= 0 {
		r.SanLo = true
	}
	if constCount && a.Lo() >= 0 && a.Bits != ^uint64(0) && bits.Len64(a.Bits)+int(k) < 63 {
		r.Bits = a.Bits << uint(k)
		// a shifted bit-field: the interval [lo,hi] is NOT exact as an interval (low bits are zero),
		// but it is an exact bit-field; keep Exact so that OR-composition and masks stay exact,
		// and let obligations use Bits/hi.
		r.Exact = a.Exact
	} else if hi != posInf && lo >= 0 {
		r.Bits = maskFor(uint64(hi))
	}
	r.Raw = a.Raw && constCount
	return r
}

// Shr by a constant or bounded count.
func Shr(a, n AV) AV {
	if a.IsBottom() || n.IsBottom() {
		return Bottom()
	}
	r := AV{Taint: a.Taint || n.Taint, Bits: ^uint64(0)}
	if n.Lo() < 0 {
		r.P = []Itv{{minI(a.Lo(), 0), maxI(a.Hi(), 0)}}
		r.SanLo, r.SanHi = a.SanLo, a.SanHi
		return r
	}
	sh := func(v int64, c int64) int64 {
		if v == posInf || v == negInf {
			if c >= 63 {
				if v < 0 {
					return -1
				}
				return 0
			}
			return v
		}
		if c >= 63 {
			if v < 0 {
				return -1
			}
			return 0
		}
		return v >> uint(c)
	}
	lo := minI(sh(a.Lo(), n.Lo()), sh(a.Lo(), n.Hi()))
	hi := maxI(sh(a.Hi(), n.Lo()), sh(a.Hi(), n.Hi()))
	r.P = []Itv{{lo, hi}}
	r.SanLo, r.SanHi = a.SanLo, a.SanHi
	k, constCount := isPoint(n)
	if a.Lo() >= 0 {
		r.SanLo = true
		if constCount && a.Bits != ^uint64(0) {
			r.Bits = a.Bits >> uint(k)
		} else if hi != posInf {
			r.Bits = maskFor(uint64(hi))
		}
		r.Exact = a.Exact && constCount
		if a.Hi() != posInf {
			r.SanHi = true
		}
	}
	r.Raw = a.Raw && constCount
	return r
}

// Neg negates.
func Neg(a AV) AV {
	if a.IsBottom() {
		return a
	}
	var ps []Itv
	for _, p := range a.P {
		ps = append(ps, Itv{satNeg(p.Hi), satNeg(p.Lo)})
	}
	n, _ := normalize(ps)
	return AV{P: n, Taint: a.Taint, Exact: a.Exact, SanLo: a.SanHi, SanHi: a.SanLo, Bits: ^uint64(0)}
}

// ConvertTo models an integer conversion to a type with range [lo,hi] and the given bit size.
func ConvertTo(a AV, lo, hi int64, size int, signed bool) AV {
	if a.IsBottom() {
		return a
	}
	if a.Lo() >= lo && a.Hi() <= hi {
		r := a
		// the target type itself bounds the value
		if hi != posInf && size < 64 {
			r.SanHi = true
		}
		if lo == 0 || size < 64 {
			r.SanLo = true
		}
		return r
	}
	// out of range: wraps. A narrowing conversion limits both sides to the type.
	r := Range(lo, hi)
	r.Taint = a.Taint
	r.SanLo, r.SanHi = true, true
	if size >= 64 {
		// int64 <-> uint64 reinterpretation: not really limited
		r.SanLo, r.SanHi = a.SanLo && a.SanHi, a.SanLo && a.SanHi
	}
	// a full exact source range (e.g. byte of int) stays exact after narrowing if it covers the type
	if a.Exact && len(a.P) == 1 && size < 63 && satSub(a.Hi(), a.Lo()) >= (int64(1)<<uint(size))-1 {
		r.Exact = true
	}
	if !signed && a.Lo() >= 0 && a.Bits != ^uint64(0) && size < 64 {
		r.Bits = a.Bits & ((uint64(1) << uint(size)) - 1)
		if int64(r.Bits) >= 0 && int64(r.Bits) < r.Hi() {
			r.P = []Itv{{0, int64(r.Bits)}}
		}
	}
	return r
}
