package ranges

import (
	"go/constant"
	"go/token"
	"go/types"
	"math"
	"sort"
	"strconv"
	"strings"

	"golang.org/x/tools/go/callgraph"
	"golang.org/x/tools/go/ssa"
)

// Config selects what is analysed and where taint comes from.
type Config struct {
	CG    *callgraph.Graph
	Funcs map[*ssa.Function]bool // functions to analyse (reachable from the entry set, with bodies)
	Roots map[*ssa.Function]bool // entry points: their integer parameters are adversarial
	// ByteLoadsTainted: every element loaded from a []byte (or [N]byte reached through a slice) is
	// stream data: [0,255], tainted, exact. Used for decoder-side analyses.
	ByteLoadsTainted bool
	// TaintedFields: struct fields that are adversarial sources wherever they are loaded
	// (FrameInfo.Width ...), keyed "pkgpath.Type.Field".
	TaintedFields map[string]bool
	// FieldPost: for a tainted field, the range established by the validator that every entry point
	// runs first (computed in a first pass with FieldPostcondition); replaces the raw source.
	FieldPost map[string]AV
	// IntSize is the size of int/uint in bits (32 on GOARCH=386).
	IntSize  int
	InModule func(fn *ssa.Function) bool
	// StreamSlice reports whether the bytes behind slice/array value v may come from the input
	// stream (points-to based). nil: every []byte load is considered stream data.
	StreamSlice func(fn *ssa.Function, v ssa.Value) bool
	// MarkStream records that tainted bytes are stored through v; returns true if this is new.
	MarkStream func(fn *ssa.Function, v ssa.Value) bool
	// ObjectsOf returns opaque identities of the memory objects a slice / array pointer may refer
	// to (points-to based); IsInputObj says whether an object holds raw stream bytes.
	ObjectsOf  func(fn *ssa.Function, v ssa.Value) []any
	IsInputObj func(o any) bool
}

type fieldKey struct {
	t *types.TypeName
	f int
}

type fstate struct {
	fn     *ssa.Function
	vals   map[ssa.Value]AV
	params []AV
	seeded bool
	rets   []AV
	free   []AV
	thr    []int64
	visits map[ssa.Value]int
	atMemo map[atKey]AV
	kills  map[fieldKey]bool // fields this function or its callees may store to
	stores map[fieldKey][]*ssa.Store
	gen    int
}

type atKey struct {
	v ssa.Value
	b *ssa.BasicBlock
}

// Engine is the analysis state.
type Engine struct {
	storedMemo      map[fieldKey]bool
	bitLenMemo      map[*ssa.Function]bitLenInfo
	cfg             Config
	fs              map[*ssa.Function]*fstate
	order           []*ssa.Function
	fields          map[fieldKey]AV
	globals         map[*ssa.Global]AV // element ranges of package-level tables
	allocEl         map[ssa.Value]AV   // element ranges of init-time allocations feeding globals
	changed         bool
	Rounds          int
	callers         map[*ssa.Function][]callSite
	elems           map[fieldKey]AV   // element summaries of array/slice fields
	zeroDef         map[fieldKey]bool // field may still hold its zero value (some allocation leaves it unset)
	allocsOf        map[*types.TypeName]bool
	elemObj         map[any]AV        // element summaries per memory object
	guarded         map[fieldKey]bool // the field is compared in some branch condition of analysed code
	outcomeMemo     map[outcomeKey][]AV
	localStructMemo map[*ssa.Alloc]bool
}

type callSite struct {
	caller *ssa.Function
	site   ssa.CallInstruction
}

func New(cfg Config) *Engine {
	if cfg.IntSize == 0 {
		cfg.IntSize = 64
	}
	e := &Engine{cfg: cfg, fs: map[*ssa.Function]*fstate{}, fields: map[fieldKey]AV{}, globals: map[*ssa.Global]AV{}, allocEl: map[ssa.Value]AV{}, callers: map[*ssa.Function][]callSite{}, elems: map[fieldKey]AV{}, zeroDef: map[fieldKey]bool{}, allocsOf: map[*types.TypeName]bool{}, elemObj: map[any]AV{}, guarded: map[fieldKey]bool{}}
	for fn := range cfg.Funcs {
		if fn.Blocks == nil {
			continue
		}
		e.order = append(e.order, fn)
		e.fs[fn] = &fstate{fn: fn, vals: map[ssa.Value]AV{}, visits: map[ssa.Value]int{}, atMemo: map[atKey]AV{}, params: make([]AV, len(fn.Params)), free: make([]AV, len(fn.FreeVars))}
	}
	sort.Slice(e.order, func(i, j int) bool {
		if a, b := e.order[i].String(), e.order[j].String(); a != b {
			return a < b
		}
		return e.order[i].Pos() < e.order[j].Pos()
	})
	for _, fn := range e.order {
		s := e.fs[fn]
		s.thr = thresholdsOf(fn)
		n := fn.Signature.Results().Len()
		s.rets = make([]AV, n)
	}
	return e
}

// thresholdsOf harvests widening thresholds from the integer constants of the function.
func thresholdsOf(fn *ssa.Function) []int64 {
	set := map[int64]bool{0: true, 1: true, -1: true, 255: true, 256: true, 65535: true, 65536: true, math.MaxInt32: true, math.MinInt32: true}
	for _, b := range fn.Blocks {
		for _, ins := range b.Instrs {
			for _, op := range ins.Operands(nil) {
				if op == nil || *op == nil {
					continue
				}
				if c, ok := (*op).(*ssa.Const); ok && c.Value != nil && c.Value.Kind() == constant.Int {
					if v, ok := constant.Int64Val(c.Value); ok {
						set[v] = true
						set[v-1] = true
						set[v+1] = true
					}
				}
			}
		}
	}
	var out []int64
	for v := range set {
		out = append(out, v)
	}
	sort.Slice(out, func(i, j int) bool { return out[i] < out[j] })
	return out
}

// typeRange returns the value range of an integer type.
func (e *Engine) typeRange(t types.Type) (lo, hi int64, size int, signed bool, ok bool) {
	b, isB := t.Underlying().(*types.Basic)
	if !isB || b.Info()&types.IsInteger == 0 {
		return 0, 0, 0, false, false
	}
	is := e.cfg.IntSize
	switch b.Kind() {
	case types.Int8:
		return math.MinInt8, math.MaxInt8, 8, true, true
	case types.Int16:
		return math.MinInt16, math.MaxInt16, 16, true, true
	case types.Int32:
		return math.MinInt32, math.MaxInt32, 32, true, true
	case types.Int64:
		return negInf, posInf, 64, true, true
	case types.Int, types.UntypedInt:
		if is == 32 {
			return math.MinInt32, math.MaxInt32, 32, true, true
		}
		return negInf, posInf, 64, true, true
	case types.Uint8:
		return 0, math.MaxUint8, 8, false, true
	case types.Uint16:
		return 0, math.MaxUint16, 16, false, true
	case types.Uint32:
		return 0, math.MaxUint32, 32, false, true
	case types.Uint64:
		return 0, posInf, 64, false, true
	case types.Uint, types.Uintptr:
		if is == 32 {
			return 0, math.MaxUint32, 32, false, true
		}
		return 0, posInf, 64, false, true
	}
	return 0, 0, 0, false, false
}

func (e *Engine) top(t types.Type) AV {
	lo, hi, size, _, ok := e.typeRange(t)
	if !ok {
		return Range(negInf, posInf)
	}
	a := Range(lo, hi)
	// an unknown internal value is not a raw adversarial scalar: the "no limit applied at all" witness
	// shape is reserved for values marked Raw at their source
	a.SanLo, a.SanHi = true, true
	_ = size
	return a
}

// rawSource: an adversarial scalar as it arrives.
func (e *Engine) rawSource(t types.Type) AV {
	lo, hi, size, _, ok := e.typeRange(t)
	if !ok {
		lo, hi, size = negInf, posInf, 64
	}
	a := Range(lo, hi)
	a.Taint, a.Exact, a.Raw = true, true, true
	a.SanLo, a.SanHi = lo == 0, false
	if size < 32 {
		a.SanLo, a.SanHi = true, true // a narrow type bounds its values by itself
	}
	return a
}

func isIntType(t types.Type) bool {
	b, ok := t.Underlying().(*types.Basic)
	return ok && b.Info()&types.IsInteger != 0
}

// Run iterates to a global fixpoint.
func (e *Engine) Run() {
	e.collectCallers()
	e.computeKills()
	e.initGlobals()
	e.computeZeroDefaults()
	e.computeGuardedFields()
	for round := 0; round < 16; round++ {
		e.Rounds = round + 1
		e.changed = false
		e.outcomeMemo = nil
		for _, fn := range e.order {
			e.evalFunc(e.fs[fn], round)
		}
		if !e.changed {
			break
		}
	}
}

func (e *Engine) collectCallers() {
	for _, fn := range e.order {
		n := e.cfg.CG.Nodes[fn]
		if n == nil {
			continue
		}
		for _, ed := range n.Out {
			if ed.Callee.Func != nil && ed.Site != nil {
				e.callers[ed.Callee.Func] = append(e.callers[ed.Callee.Func], callSite{fn, ed.Site})
			}
		}
	}
}

// calleesOf returns the analysed callees of a call site.
func (e *Engine) calleesOf(fn *ssa.Function, site ssa.CallInstruction) []*ssa.Function {
	if sc := site.Common().StaticCallee(); sc != nil {
		return []*ssa.Function{sc}
	}
	var out []*ssa.Function
	if n := e.cfg.CG.Nodes[fn]; n != nil {
		for _, ed := range n.Out {
			if ed.Site == site && ed.Callee.Func != nil {
				out = append(out, ed.Callee.Func)
			}
		}
	}
	return out
}

// computeKills: which struct fields may a function (transitively) store to.
func (e *Engine) computeKills() {
	for _, fn := range e.order {
		s := e.fs[fn]
		s.kills = map[fieldKey]bool{}
		s.stores = map[fieldKey][]*ssa.Store{}
		for _, b := range fn.Blocks {
			for _, ins := range b.Instrs {
				if st, ok := ins.(*ssa.Store); ok {
					if k, ok := fieldKeyOfAddr(st.Addr); ok {
						s.kills[k] = true
						s.stores[k] = append(s.stores[k], st)
					}
				}
			}
		}
	}
	for changed := true; changed; {
		changed = false
		for _, fn := range e.order {
			s := e.fs[fn]
			n := e.cfg.CG.Nodes[fn]
			if n == nil {
				continue
			}
			for _, ed := range n.Out {
				cs := e.fs[ed.Callee.Func]
				if cs == nil {
					continue
				}
				for k := range cs.kills {
					if !s.kills[k] {
						s.kills[k] = true
						changed = true
					}
				}
			}
		}
	}
}

func namedStruct(t types.Type) *types.TypeName {
	if p, ok := t.Underlying().(*types.Pointer); ok {
		t = p.Elem()
	}
	if n, ok := t.(*types.Named); ok {
		if _, isS := n.Underlying().(*types.Struct); isS {
			return n.Obj()
		}
	}
	return nil
}

// fieldKeyOfAddr: addr is &x.f (possibly &x.f[i] / &x.f.g are attributed to f).
func fieldKeyOfAddr(addr ssa.Value) (fieldKey, bool) {
	fa, ok := addr.(*ssa.FieldAddr)
	if !ok {
		return fieldKey{}, false
	}
	tn := namedStruct(fa.X.Type())
	if tn == nil {
		return fieldKey{}, false
	}
	return fieldKey{tn, fa.Field}, true
}

// initGlobals computes element ranges of package-level tables from their initialisers: every
// store in any analysed-or-not package initialiser whose address is rooted at the global.
func (e *Engine) initGlobals() {
	seenPkg := map[*ssa.Package]bool{}
	for _, fn := range e.order {
		if fn.Pkg == nil || seenPkg[fn.Pkg] {
			continue
		}
		seenPkg[fn.Pkg] = true
		initFn := fn.Pkg.Func("init")
		if initFn == nil {
			continue
		}
		var fns []*ssa.Function
		seen := map[*ssa.Function]bool{}
		var walk func(f *ssa.Function)
		walk = func(f *ssa.Function) {
			if f == nil || seen[f] || f.Blocks == nil || f.Pkg != fn.Pkg {
				return
			}
			seen[f] = true
			fns = append(fns, f)
			for _, b := range f.Blocks {
				for _, ins := range b.Instrs {
					if c, ok := ins.(ssa.CallInstruction); ok {
						walk(c.Common().StaticCallee())
					}
				}
			}
		}
		walk(initFn)
		for _, f := range fns {
			e.scanInitStores(f)
		}
	}
}

func rootOfAddr(v ssa.Value) ssa.Value {
	for i := 0; i < 12; i++ {
		switch x := v.(type) {
		case *ssa.IndexAddr:
			v = x.X
		case *ssa.FieldAddr:
			v = x.X
		case *ssa.Slice:
			v = x.X
		case *ssa.UnOp:
			if x.Op == token.MUL {
				v = x.X
			} else {
				return v
			}
		default:
			return v
		}
	}
	return v
}

func (e *Engine) scanInitStores(f *ssa.Function) {
	// which local allocations end up stored (sliced) into which global
	allocTo := map[ssa.Value]*ssa.Global{}
	for _, b := range f.Blocks {
		for _, ins := range b.Instrs {
			st, ok := ins.(*ssa.Store)
			if !ok {
				continue
			}
			if g, ok := st.Addr.(*ssa.Global); ok {
				if r := rootOfAddr(st.Val); r != nil {
					if _, isAlloc := r.(*ssa.Alloc); isAlloc {
						allocTo[r] = g
					}
				}
			}
		}
	}
	for _, b := range f.Blocks {
		for _, ins := range b.Instrs {
			st, ok := ins.(*ssa.Store)
			if !ok || !isIntType(st.Val.Type()) {
				continue
			}
			root := rootOfAddr(st.Addr)
			var g *ssa.Global
			switch r := root.(type) {
			case *ssa.Global:
				g = r
			case *ssa.Alloc:
				g = allocTo[r]
			}
			if g == nil {
				continue
			}
			var v AV
			if c, ok := st.Val.(*ssa.Const); ok && c.Value != nil {
				if iv, ok := constant.Int64Val(constant.ToInt(c.Value)); ok {
					v = Const(iv)
				}
			}
			if v.IsBottom() {
				v = e.top(st.Val.Type())
				v.Exact = false
			}
			old, had := e.globals[g]
			if !had {
				// zero value of unset elements
				old = Const(0)
			}
			e.globals[g] = Join(old, v)
		}
	}
}

// ---------------------------------------------------------------------------------------------
// per-function evaluation

func (e *Engine) evalFunc(s *fstate, round int) {
	fn := s.fn
	s.gen++
	s.atMemo = map[atKey]AV{}
	// seed parameters of roots
	if e.cfg.Roots[fn] && !s.seeded {
		s.seeded = true
		for i, p := range fn.Params {
			if isIntType(p.Type()) {
				s.params[i] = e.rawSource(p.Type())
			}
		}
	}
	e.iterate(s)
	// publish summaries: returns, field stores, callee parameters, closure bindings
	for _, b := range fn.Blocks {
		for _, ins := range b.Instrs {
			switch x := ins.(type) {
			case *ssa.Return:
				for i, r := range x.Results {
					if i < len(s.rets) && isIntType(r.Type()) {
						nv := Join(s.rets[i], e.at(s, r, b, 0))
						if !Equal(nv, s.rets[i]) {
							s.rets[i] = e.widenSummary(s.rets[i], nv, r.Type(), round)
							e.changed = true
						}
					}
				}
			case *ssa.Store:
				if !isIntType(x.Val.Type()) {
					continue
				}
				if ia, ok := x.Addr.(*ssa.IndexAddr); ok {
					nv := e.at(s, x.Val, b, 0)
					if e.storeElems(fn, ia.X, nv, x.Val.Type(), round) {
						continue
					}
					if fa, ok := rootFieldAddr(ia.X); ok {
						if tn := namedStruct(fa.X.Type()); tn != nil {
							k := fieldKey{tn, fa.Field}
							old, had := e.elems[k]
							if !had {
								old = Const(0)
							}
							j := Join(old, nv)
							if !had || !Equal(j, old) {
								e.elems[k] = e.widenSummary(old, j, x.Val.Type(), round)
								e.changed = true
							}
						}
					} else if al := localArrayRoot(ia.X); al != nil {
						old, had := e.allocEl[al]
						if !had {
							old = Const(0)
						}
						j := Join(old, nv)
						if !had || !Equal(j, old) {
							e.allocEl[al] = e.widenSummary(old, j, x.Val.Type(), round)
							e.changed = true
						}
					}
					continue
				}
				if fa, ok := x.Addr.(*ssa.FieldAddr); ok {
					if al, ok := fa.X.(*ssa.Alloc); ok && e.localStruct(al) {
						continue // published where the finished struct is copied out (below)
					}
				}
				if prm, ok := x.Addr.(*ssa.Parameter); ok {
					// a store through a pointer the function was given (cx := &d.contexts[i]; finish(d, cx, …)
					// with `*cx = next` inside): the value lands in whatever field or element the callers
					// pass the address of
					nv := e.at(s, x.Val, b, 0)
					for _, tg := range e.pointerArgTargets(fn, prm, 0) {
						if tg.elem {
							old, had := e.elems[tg.k]
							if !had {
								old = Const(0)
							}
							if j := Join(old, nv); !had || !Equal(j, old) {
								e.elems[tg.k] = e.widenSummary(old, j, x.Val.Type(), round)
								e.changed = true
							}
						} else {
							old, had := e.fields[tg.k]
							if !had {
								old = Bottom()
								if e.hasZeroDefault(tg.k) {
									old = Const(0)
								}
							}
							if j := Join(old, nv); !had || !Equal(j, old) {
								e.fields[tg.k] = e.widenSummary(old, j, x.Val.Type(), round)
								e.changed = true
							}
						}
					}
					continue
				}
				if k, ok := fieldKeyOfAddr(x.Addr); ok {
					nv := e.storeContribution(s, x)
					old, had := e.fields[k]
					if !had {
						old = Bottom()
						if e.hasZeroDefault(k) {
							old = Const(0)
							// the zero is observable as such only if the field gets its value in a later,
							// separate step (not in the function that allocates the object)
							old.ZeroDef = e.allocsOf[k.t] && !e.allocatedIn(k.t, fn)
						}
					}
					j := Join(old, nv)
					if !had || !Equal(j, old) {
						e.fields[k] = e.widenSummary(old, j, x.Val.Type(), round)
						e.changed = true
					}
				}
			case *ssa.UnOp:
				// a local struct variable copied out as a whole (return g / f(g) / x.t = g): its fields
				// carry, into the summaries, what they hold at this point — not every intermediate value
				al, ok := x.X.(*ssa.Alloc)
				if !ok || x.Op != token.MUL || !e.localStruct(al) {
					continue
				}
				// a literal temporary copied into another local struct does not leave the frame here
				if refs := x.Referrers(); refs != nil && len(*refs) > 0 {
					internal := true
					for _, r := range *refs {
						st, ok := r.(*ssa.Store)
						dst, ok2 := (ssa.Value)(nil), false
						if ok {
							dst, ok2 = st.Addr, true
						}
						if d, isAl := dst.(*ssa.Alloc); !(ok && ok2 && isAl && e.localStruct(d)) {
							internal = false
						}
					}
					if internal {
						continue
					}
				}
				tn := namedStruct(al.Type())
				if tn == nil {
					continue
				}
				st := tn.Type().Underlying().(*types.Struct)
				for f := 0; f < st.NumFields(); f++ {
					if !isIntType(st.Field(f).Type()) {
						continue
					}
					nv, ok := e.localFieldAt(s, al, f, b, instrIndex(x), st.Field(f).Type())
					if !ok {
						nv = e.top(st.Field(f).Type())
					}
					k := fieldKey{tn, f}
					old, had := e.fields[k]
					if !had {
						old = Bottom()
					}
					j := Join(old, nv)
					if !had || !Equal(j, old) {
						e.fields[k] = e.widenSummary(old, j, st.Field(f).Type(), round)
						e.changed = true
					}
				}
			case ssa.CallInstruction:
				if bi, ok := x.Common().Value.(*ssa.Builtin); ok {
					args := x.Common().Args
					switch bi.Name() {
					case "copy":
						if len(args) == 2 {
							e.transferElems(fn, args[0], args[1], round)
						}
					case "append":
						if v := x.Value(); v != nil && len(args) >= 1 {
							e.transferElems(fn, v, args[0], round)
							if len(args) == 2 {
								e.transferElems(fn, v, args[1], round)
							}
						}
					}
					continue
				}
				e.publishCall(s, x, b, round)
			case *ssa.MakeClosure:
				cf := x.Fn.(*ssa.Function)
				cs := e.fs[cf]
				if cs == nil {
					continue
				}
				for i, bnd := range x.Bindings {
					if !isIntType(bnd.Type()) || i >= len(cs.free) {
						continue
					}
					nv := Join(cs.free[i], e.at(s, bnd, b, 0))
					if !Equal(nv, cs.free[i]) {
						cs.free[i] = e.widenSummary(cs.free[i], nv, bnd.Type(), round)
						e.changed = true
					}
				}
			}
		}
	}
}

// iterate: intraprocedural fixpoint of the value map of s (no publishing).
func (e *Engine) iterate(s *fstate) {
	fn := s.fn
	blocks := fn.DomPreorder()
	for iter := 0; iter < 12; iter++ {
		stable := true
		for _, b := range blocks {
			for _, ins := range b.Instrs {
				v, ok := ins.(ssa.Value)
				if !ok || !isIntType(v.Type()) {
					if ex, ok := ins.(*ssa.Extract); ok {
						_ = ex
					}
					continue
				}
				nv := e.transfer(s, v, b)
				old, had := s.vals[v]
				if _, isPhi := v.(*ssa.Phi); isPhi && had {
					s.visits[v]++
					if s.visits[v] > 3 {
						lo, hi, _, _, _ := e.typeRange(v.Type())
						nv = Widen(old, nv, s.thr, lo, hi)
					} else {
						nv = Join(old, nv)
					}
				}
				if phi, isPhi := v.(*ssa.Phi); isPhi {
					nv = e.tripAdjust(s, phi, nv)
				}
				if !had || !Equal(old, nv) {
					s.vals[v] = nv
					stable = false
					s.atMemo = map[atKey]AV{}
				}
			}
		}
		if stable {
			break
		}
	}
}

func (e *Engine) widenSummary(old, nw AV, t types.Type, round int) AV {
	if round < 7 || old.IsBottom() {
		return nw
	}
	lo, hi, _, _, ok := e.typeRange(t)
	if !ok {
		lo, hi = negInf, posInf
	}
	return Widen(old, nw, []int64{math.MinInt32, -1 << 24, -65536, -256, -1, 0, 1, 255, 256, 65535, 65536, 1 << 24, math.MaxInt32, 1 << 40, 1 << 48}, lo, hi)
}

func (e *Engine) publishCall(s *fstate, site ssa.CallInstruction, b *ssa.BasicBlock, round int) {
	cc := site.Common()
	if _, isB := cc.Value.(*ssa.Builtin); isB {
		return
	}
	var args []ssa.Value
	if cc.IsInvoke() {
		args = append(args, cc.Value)
	}
	args = append(args, cc.Args...)
	for _, callee := range e.calleesOf(s.fn, site) {
		cs := e.fs[callee]
		if cs == nil {
			continue
		}
		for i, a := range args {
			if i >= len(cs.params) || !isIntType(a.Type()) || !isIntType(callee.Params[i].Type()) {
				continue
			}
			nv := Join(cs.params[i], e.at(s, a, b, 0))
			if !Equal(nv, cs.params[i]) {
				cs.params[i] = e.widenSummary(cs.params[i], nv, a.Type(), round)
				e.changed = true
			}
		}
	}
}

// Val returns the (path-insensitive) value of v in fn.
func (e *Engine) Val(fn *ssa.Function, v ssa.Value) AV {
	s := e.fs[fn]
	if s == nil {
		return e.top(v.Type())
	}
	return e.val(s, v)
}

// At returns the value of v refined by the conditions dominating block b.
func (e *Engine) At(fn *ssa.Function, v ssa.Value, b *ssa.BasicBlock) AV {
	s := e.fs[fn]
	if s == nil {
		return e.top(v.Type())
	}
	return e.at(s, v, b, 0)
}

func (e *Engine) constVal(c *ssa.Const) AV {
	if c.Value == nil {
		return Const(0)
	}
	if c.Value.Kind() != constant.Int {
		if iv := constant.ToInt(c.Value); iv.Kind() == constant.Int {
			if v, ok := constant.Int64Val(iv); ok {
				return Const(v)
			}
		}
		return e.top(c.Type())
	}
	if v, ok := constant.Int64Val(c.Value); ok {
		return Const(v)
	}
	if u, ok := constant.Uint64Val(c.Value); ok && u > math.MaxInt64 {
		a := Range(posInf, posInf)
		a.SanLo, a.SanHi, a.Exact = true, true, true
		return a
	}
	return e.top(c.Type())
}

func (e *Engine) val(s *fstate, v ssa.Value) AV {
	switch x := v.(type) {
	case *ssa.Const:
		return e.constVal(x)
	case *ssa.Parameter:
		for i, p := range s.fn.Params {
			if p == x {
				if s.params[i].IsBottom() {
					// never called inside the analysed set: unknown
					if len(e.callers[s.fn]) == 0 || !e.cfg.Funcs[s.fn] {
						return e.top(x.Type())
					}
					return s.params[i]
				}
				return s.params[i]
			}
		}
		return e.top(x.Type())
	case *ssa.FreeVar:
		for i, p := range s.fn.FreeVars {
			if p == x && i < len(s.free) {
				if s.free[i].IsBottom() {
					return e.top(x.Type())
				}
				return s.free[i]
			}
		}
		return e.top(x.Type())
	}
	if a, ok := s.vals[v]; ok {
		return a
	}
	if !isIntType(v.Type()) {
		return e.top(v.Type())
	}
	return Bottom()
}

func (e *Engine) clip(a AV, t types.Type) AV {
	lo, hi, size, signed, ok := e.typeRange(t)
	if !ok {
		return a
	}
	return ConvertTo(a, lo, hi, size, signed)
}

// transfer computes the value of an instruction from its operands, evaluated at block b.
func (e *Engine) transfer(s *fstate, v ssa.Value, b *ssa.BasicBlock) AV {
	op := func(x ssa.Value) AV { return e.at(s, x, b, 1) }
	switch x := v.(type) {
	case *ssa.Phi:
		r := Bottom()
		for i, ed := range x.Edges {
			pred := x.Block().Preds[i]
			ev := e.atEdge(s, ed, pred, x.Block())
			r = Join(r, ev)
		}
		return r
	case *ssa.BinOp:
		return e.clipArith(e.binop(x.Op, op(x.X), op(x.Y), x), x.Type())
	case *ssa.UnOp:
		switch x.Op {
		case token.SUB:
			return e.clipArith(Neg(op(x.X)), x.Type())
		case token.XOR:
			a := op(x.X)
			r := e.top(x.Type())
			r.Taint = a.Taint
			return r
		case token.MUL:
			return e.load(s, x, b)
		}
		return e.top(x.Type())
	case *ssa.Convert:
		if !isIntType(x.X.Type()) {
			r := e.top(x.Type())
			if fb, ok := x.X.Type().Underlying().(*types.Basic); ok && fb.Info()&types.IsFloat != 0 {
				r.Taint = e.floatTaint(s, x.X)
			}
			return r
		}
		return e.clip(op(x.X), x.Type())
	case *ssa.ChangeType:
		if isIntType(x.X.Type()) {
			return e.clip(op(x.X), x.Type())
		}
	case *ssa.Call:
		return e.callResult(s, x, b, -1)
	case *ssa.Extract:
		if c, ok := x.Tuple.(*ssa.Call); ok {
			return e.callResult(s, c, b, x.Index)
		}
		if nx, ok := x.Tuple.(*ssa.Next); ok && x.Index == 1 {
			// range index over slice/array/string
			_ = nx
			r := Range(0, posInf)
			r.SanLo = true
			return r
		}
		if ta, ok := x.Tuple.(*ssa.TypeAssert); ok && x.Index == 0 {
			if e.ifaceTaint(s, ta.X) {
				return e.rawSource(x.Type())
			}
			return e.top(x.Type())
		}
		if lk, ok := x.Tuple.(*ssa.Lookup); ok && x.Index == 0 {
			_ = lk
			return e.top(x.Type())
		}
		return e.top(x.Type())
	case *ssa.TypeAssert:
		if e.ifaceTaint(s, x.X) {
			return e.rawSource(x.Type())
		}
		return e.top(x.Type())
	case *ssa.Field:
		if tn := namedStruct(x.X.Type()); tn != nil {
			return e.fieldVal(fieldKey{tn, x.Field}, x.Type(), fieldIsTainted(e, tn, x.Field))
		}
		return e.top(x.Type())
	case *ssa.Index:
		return e.elemOf(s, x.X, x.Type(), b)
	case *ssa.Lookup:
		if bt, ok := x.X.Type().Underlying().(*types.Basic); ok && bt.Info()&types.IsString != 0 {
			return Range(0, 255)
		}
		return e.top(x.Type())
	}
	return e.top(v.Type())
}

func (e *Engine) floatTaint(s *fstate, v ssa.Value) bool { return false }

func (e *Engine) ifaceTaint(s *fstate, v ssa.Value) bool {
	// values pulled out of a caller-supplied parameters bag
	if c, ok := v.(*ssa.Call); ok && c.Call.IsInvoke() && c.Call.Method.Name() == "GetParameter" {
		return true
	}
	return false
}

// clipArith: arithmetic that leaves the type's range wraps around.
func (e *Engine) clipArith(a AV, t types.Type) AV {
	lo, hi, size, signed, ok := e.typeRange(t)
	if !ok || a.IsBottom() {
		return a
	}
	if a.Lo() >= lo && a.Hi() <= hi {
		return a
	}
	// Overflow is possible. For 64-bit types the analysis is already saturating (±inf): keep the
	// saturated bounds (int overflow in index arithmetic is not modelled); for narrower types wrap.
	if size >= 64 {
		r := a
		r.P, _ = normalize([]Itv{{maxI(a.Lo(), lo), minI(a.Hi(), hi)}})
		if a.Lo() < lo && !signed {
			// unsigned underflow wraps to huge values
			r.P = []Itv{{lo, hi}}
		}
		r.Exact = false
		return r
	}
	return ConvertTo(a, lo, hi, size, signed)
}

func (e *Engine) binop(op token.Token, a, b AV, x *ssa.BinOp) AV {
	switch op {
	case token.ADD:
		return Add(a, b)
	case token.SUB:
		return Sub(a, b)
	case token.MUL:
		return Mul(a, b)
	case token.QUO:
		return Div(a, b)
	case token.REM:
		return Rem(a, b)
	case token.AND:
		return And(a, b)
	case token.OR:
		return Or(a, b, false)
	case token.XOR:
		return Or(a, b, true)
	case token.SHL:
		return Shl(a, b)
	case token.SHR:
		return Shr(a, b)
	case token.AND_NOT:
		r := a
		if a.Lo() < 0 {
			r = e.top(x.Type())
			r.Taint = a.Taint
		}
		r.Taint = a.Taint || b.Taint
		r.Exact = false
		if k, ok := isPoint(b); ok && k >= 0 && a.Lo() >= 0 && a.Bits != ^uint64(0) {
			r.Bits = a.Bits &^ uint64(k)
			if int64(r.Bits) >= 0 && int64(r.Bits) < r.Hi() {
				r.P = []Itv{{0, int64(r.Bits)}}
			}
		}
		r.P = []Itv{{minI(0, r.Lo()), r.Hi()}}
		return r
	}
	return e.top(x.Type())
}

func fieldIsTainted(e *Engine, tn *types.TypeName, f int) bool {
	if e.cfg.TaintedFields == nil || tn.Pkg() == nil {
		return false
	}
	st, ok := tn.Type().Underlying().(*types.Struct)
	if !ok || f >= st.NumFields() {
		return false
	}
	return e.cfg.TaintedFields[tn.Pkg().Path()+"."+tn.Name()+"."+st.Field(f).Name()]
}

func (e *Engine) fieldVal(k fieldKey, t types.Type, tainted bool) AV {
	if tainted {
		if e.cfg.FieldPost != nil {
			if st, ok := k.t.Type().Underlying().(*types.Struct); ok && k.t.Pkg() != nil && k.f < st.NumFields() {
				if pv, ok := e.cfg.FieldPost[k.t.Pkg().Path()+"."+k.t.Name()+"."+st.Field(k.f).Name()]; ok {
					return e.clip(pv, t)
				}
			}
		}
		return e.rawSource(t)
	}
	if a, ok := e.fields[k]; ok {
		r := e.clip(a, t)
		if e.guarded[k] {
			// the field is range-checked somewhere in the analysed code: the "no limit applied at all"
			// witness shape does not apply to it (a relational guard may protect this use)
			r.SanLo, r.SanHi = true, true
			r.ZeroDef = false
		}
		return r
	}
	// never stored in analysed code: zero value, or set by code outside the analysed set
	r := e.top(t)
	return r
}

// storedDirect: fields that some analysed function assigns with a plain store through a field
// address (x.f = v), whose value the round loop will therefore publish.
func (e *Engine) storedDirect() map[fieldKey]bool {
	if e.storedMemo != nil {
		return e.storedMemo
	}
	e.storedMemo = map[fieldKey]bool{}
	for _, fn := range e.order {
		for _, b := range fn.Blocks {
			for _, ins := range b.Instrs {
				st, ok := ins.(*ssa.Store)
				if !ok || !isIntType(st.Val.Type()) {
					continue
				}
				fa, ok := st.Addr.(*ssa.FieldAddr)
				if !ok {
					continue
				}
				if al, ok := fa.X.(*ssa.Alloc); ok && e.localStruct(al) {
					continue
				}
				if k, ok := fieldKeyOfAddr(st.Addr); ok {
					e.storedMemo[k] = true
				}
			}
		}
	}
	return e.storedMemo
}

// elemOf: value of an element loaded from container value c (array value).
func (e *Engine) elemOf(s *fstate, c ssa.Value, t types.Type, b *ssa.BasicBlock) AV {
	if g := globalRoot(c); g != nil {
		if a, ok := e.globals[g]; ok {
			return e.clip(a, t)
		}
	}
	return e.byteOrTop(c.Type(), t)
}

// streamSlice: may the bytes behind v come from the input stream?
func (e *Engine) streamSlice(fn *ssa.Function, v ssa.Value) bool {
	if !e.cfg.ByteLoadsTainted {
		return false
	}
	if e.cfg.StreamSlice == nil {
		return true
	}
	return e.cfg.StreamSlice(fn, v)
}

func (e *Engine) byteOrTopV(fn *ssa.Function, container ssa.Value, t types.Type) AV {
	r := e.top(t)
	if bt, ok := t.Underlying().(*types.Basic); ok && bt.Kind() == types.Uint8 && e.streamSlice(fn, container) {
		r.Taint, r.Exact = true, true
	}
	return r
}

func localArrayRoot(v ssa.Value) ssa.Value {
	for i := 0; i < 8; i++ {
		switch x := v.(type) {
		case *ssa.Alloc:
			if _, ok := x.Type().(*types.Pointer).Elem().Underlying().(*types.Array); ok {
				return x
			}
			return nil
		case *ssa.MakeSlice:
			return x
		case *ssa.Slice:
			v = x.X
		default:
			return nil
		}
	}
	return nil
}

func (e *Engine) byteOrTop(container types.Type, t types.Type) AV {
	r := e.top(t)
	if e.cfg.ByteLoadsTainted {
		if bt, ok := t.Underlying().(*types.Basic); ok && bt.Kind() == types.Uint8 {
			if _, isSlice := container.Underlying().(*types.Slice); isSlice {
				r.Taint, r.Exact = true, true
			}
		}
	}
	return r
}

func globalRoot(v ssa.Value) *ssa.Global {
	r := rootOfAddr(v)
	if g, ok := r.(*ssa.Global); ok {
		return g
	}
	return nil
}

// load evaluates *addr.
func (e *Engine) load(s *fstate, u *ssa.UnOp, b *ssa.BasicBlock) AV {
	switch a := u.X.(type) {
	case *ssa.FieldAddr:
		if tn := namedStruct(a.X.Type()); tn != nil {
			k := fieldKey{tn, a.Field}
			fv := e.fieldVal(k, u.Type(), fieldIsTainted(e, tn, a.Field))
			if al, ok := a.X.(*ssa.Alloc); ok && e.localStruct(al) {
				if rv, ok := e.localFieldAt(s, al, a.Field, u.Block(), instrIndex(u), u.Type()); ok {
					return e.clip(rv, u.Type())
				}
			}
			if st := e.forwardedStore(s, u, a, k); st != nil {
				sv := e.at(s, st.Val, b, 2)
				if !sv.IsBottom() {
					return e.clip(sv, u.Type())
				}
			}
			return fv
		}
	case *ssa.IndexAddr:
		if g := globalRoot(a.X); g == nil {
			if av, ok := e.loadElems(s.fn, a.X, u.Type()); ok {
				return av
			}
		}
		if al := localArrayRoot(a.X); al != nil {
			if av, ok := e.allocEl[al]; ok && !(isByteSliceType(a.X.Type()) && e.streamSlice(s.fn, a.X)) {
				return e.clip(av, u.Type())
			}
		}
		if g := globalRoot(a.X); g != nil {
			if av, ok := e.globals[g]; ok {
				return e.clip(av, u.Type())
			}
			return e.top(u.Type())
		}
		// element of a struct field array/slice: field summary of the container field
		if fa, ok := rootFieldAddr(a.X); ok {
			if tn := namedStruct(fa.X.Type()); tn != nil {
				if av, ok := e.elems[fieldKey{tn, fa.Field}]; ok && !(isByteSliceType(fa.Type()) && e.streamSlice(s.fn, a.X)) {
					return e.clip(av, u.Type())
				}
			}
		}
		return e.byteOrTopV(s.fn, a.X, u.Type())
	case *ssa.Alloc:
		// address-taken local: join of every store to it in this function
		r := Bottom()
		found := false
		if a.Referrers() != nil {
			for _, ref := range *a.Referrers() {
				switch st := ref.(type) {
				case *ssa.Store:
					if st.Addr == a {
						found = true
						r = Join(r, e.at(s, st.Val, st.Block(), 2))
					}
				case ssa.CallInstruction, *ssa.MakeInterface, *ssa.ChangeType, *ssa.Convert, *ssa.Phi, *ssa.MakeClosure:
					// address escapes to a call — directly, or boxed in an interface as in
					// binary.Read(r, order, &v) — or into something that is not followed: unknown,
					// adversarial in decoders
					t := e.top(u.Type())
					t.Taint = e.cfg.ByteLoadsTainted
					t.Exact = t.Taint
					return t
				}
			}
		}
		if !found {
			return Const(0)
		}
		if !a.Heap {
			r = Join(r, Const(0))
		}
		return r
	case *ssa.Global:
		if av, ok := e.globals[a]; ok {
			return e.clip(av, u.Type())
		}
	}
	return e.top(u.Type())
}

func isByteSliceType(t types.Type) bool {
	if p, ok := t.Underlying().(*types.Pointer); ok {
		t = p.Elem()
	}
	var el types.Type
	switch x := t.Underlying().(type) {
	case *types.Slice:
		el = x.Elem()
	case *types.Array:
		el = x.Elem()
	default:
		return false
	}
	b, ok := el.Underlying().(*types.Basic)
	return ok && b.Kind() == types.Uint8
}

func rootFieldAddr(v ssa.Value) (*ssa.FieldAddr, bool) {
	for i := 0; i < 8; i++ {
		switch x := v.(type) {
		case *ssa.FieldAddr:
			return x, true
		case *ssa.UnOp:
			if x.Op != token.MUL {
				return nil, false
			}
			v = x.X
		case *ssa.Slice:
			v = x.X
		case *ssa.IndexAddr:
			v = x.X
		default:
			return nil, false
		}
	}
	return nil, false
}

type ptrTarget struct {
	k    fieldKey
	elem bool
}

// pointerArgTargets: the struct fields (or elements of slice / array fields) whose address the
// analysed callers of fn pass for its pointer parameter prm; a parameter handed on is followed two
// levels up.
func (e *Engine) pointerArgTargets(fn *ssa.Function, prm *ssa.Parameter, depth int) []ptrTarget {
	pi := -1
	for i, p := range fn.Params {
		if p == prm {
			pi = i
		}
	}
	n := e.cfg.CG.Nodes[fn]
	if pi < 0 || n == nil || depth > 2 {
		return nil
	}
	var out []ptrTarget
	seen := map[ptrTarget]bool{}
	for _, in := range n.In {
		if in.Site == nil || in.Caller.Func == nil || e.fs[in.Caller.Func] == nil {
			continue
		}
		args := in.Site.Common().Args
		if in.Site.Common().IsInvoke() || pi >= len(args) || len(args) != len(fn.Params) {
			continue
		}
		var tgs []ptrTarget
		switch a := args[pi].(type) {
		case *ssa.IndexAddr:
			if fa, ok := rootFieldAddr(a.X); ok {
				if tn := namedStruct(fa.X.Type()); tn != nil {
					tgs = append(tgs, ptrTarget{fieldKey{tn, fa.Field}, true})
				}
			}
		case *ssa.FieldAddr:
			if k, ok := fieldKeyOfAddr(a); ok {
				tgs = append(tgs, ptrTarget{k, false})
			}
		case *ssa.Parameter:
			tgs = e.pointerArgTargets(in.Caller.Func, a, depth+1)
		}
		for _, t := range tgs {
			if !seen[t] {
				seen[t] = true
				out = append(out, t)
			}
		}
	}
	return out
}

// localStruct: al is a struct-typed local variable that lives only in this function's frame: its
// address is used for field accesses and whole-value loads / stores only (never passed, stored,
// returned or captured), and its fields are accessed directly (no nested addressing).
func (e *Engine) localStruct(al *ssa.Alloc) bool {
	if r, ok := e.localStructMemo[al]; ok {
		return r
	}
	if e.localStructMemo == nil {
		e.localStructMemo = map[*ssa.Alloc]bool{}
	}
	ok := !al.Heap && namedStruct(al.Type()) != nil && al.Referrers() != nil
	if ok {
		for _, r := range *al.Referrers() {
			switch x := r.(type) {
			case *ssa.FieldAddr:
				if x.Referrers() == nil {
					continue
				}
				for _, u := range *x.Referrers() {
					switch y := u.(type) {
					case *ssa.Store:
						if y.Addr != ssa.Value(x) {
							ok = false
						}
					case *ssa.UnOp:
						if y.Op != token.MUL {
							ok = false
						}
					case *ssa.DebugRef:
					default:
						ok = false
					}
				}
			case *ssa.UnOp:
				if x.Op != token.MUL {
					ok = false
				}
			case *ssa.Store:
				if x.Addr != ssa.Value(al) {
					ok = false
				}
			case *ssa.DebugRef:
			default:
				ok = false
			}
		}
	}
	e.localStructMemo[al] = ok
	return ok
}

// localFieldAt: the value field f of local struct al holds just before instruction idx of block b —
// a small flow-sensitive reaching-stores walk: the last store to the field on each path, refined by
// the branch conditions that tested a load of the field while that store was still the reaching one
// (g.w = p.W; if g.w == 0 { g.w = p.Width }; use g.w). ok=false: not decidable this way (loop-carried
// stores, whole-struct assignment), the caller falls back to the field summary.
func (e *Engine) localFieldAt(s *fstate, al *ssa.Alloc, f int, b *ssa.BasicBlock, idx int, t types.Type) (AV, bool) {
	type key struct {
		b   *ssa.BasicBlock
		idx int
	}
	visiting := map[*ssa.BasicBlock]bool{}
	memo := map[*ssa.BasicBlock]AV{}
	fail := false
	var whole *ssa.Store
	isFieldStore := func(ins ssa.Instruction) (*ssa.Store, bool) {
		st, ok := ins.(*ssa.Store)
		if !ok {
			return nil, false
		}
		if fa, ok := st.Addr.(*ssa.FieldAddr); ok && fa.X == ssa.Value(al) && fa.Field == f {
			return st, true
		}
		if st.Addr == ssa.Value(al) {
			whole = st // whole-struct assignment: handled by the caller of isFieldStore
		}
		return nil, false
	}
	var atEnd func(x *ssa.BasicBlock) AV
	var before func(x *ssa.BasicBlock, i int) AV
	before = func(x *ssa.BasicBlock, i int) AV {
		for j := i - 1; j >= 0; j-- {
			whole = nil
			if st, ok := isFieldStore(x.Instrs[j]); ok {
				return e.at(s, st.Val, x, 2)
			}
			if whole != nil {
				// g = T{...}: the literal is built in a temporary local and copied over as a whole
				if ld, ok := whole.Val.(*ssa.UnOp); ok && ld.Op == token.MUL {
					if src, ok := ld.X.(*ssa.Alloc); ok && src != al && e.localStruct(src) {
						if v, ok := e.localFieldAt(s, src, f, ld.Block(), instrIndex(ld), t); ok {
							return v
						}
					}
				}
				fail = true
			}
			if fail {
				return Bottom()
			}
		}
		if x == al.Block() || len(x.Preds) == 0 {
			return Const(0) // the variable starts zeroed
		}
		r := Bottom()
		for _, p := range x.Preds {
			v := atEnd(p)
			if fail {
				return Bottom()
			}
			// the edge p -> x may have tested a load of this very field
			if cond, ok := ifCondOf(p).(*ssa.BinOp); ok && len(p.Succs) == 2 && p.Succs[0] != p.Succs[1] {
				for side, opnd := range []ssa.Value{cond.X, cond.Y} {
					ld, ok := e.stripWiden(opnd).(*ssa.UnOp)
					if !ok || ld.Op != token.MUL || ld.Block() != p {
						continue
					}
					fa, ok := ld.X.(*ssa.FieldAddr)
					if !ok || fa.X != ssa.Value(al) || fa.Field != f {
						continue
					}
					// no store to the field between the load and the end of p
					clean := true
					for j := instrIndex(ld) + 1; j < len(p.Instrs); j++ {
						if _, isSt := isFieldStore(p.Instrs[j]); isSt {
							clean = false
						}
					}
					if !clean {
						continue
					}
					op := cond.Op
					if p.Succs[0] != x {
						op = negate(op)
					}
					other := cond.Y
					if side == 1 {
						other = cond.X
						op = flip(op)
					}
					switch op {
					case token.LSS, token.LEQ, token.GTR, token.GEQ, token.EQL, token.NEQ:
						v = refineCmp(v, op, e.at(s, other, p, 2))
					}
				}
			}
			r = Join(r, v)
		}
		return r
	}
	atEnd = func(x *ssa.BasicBlock) AV {
		if v, ok := memo[x]; ok {
			return v
		}
		if visiting[x] {
			fail = true // a loop carries the field: not handled here
			return Bottom()
		}
		visiting[x] = true
		v := before(x, len(x.Instrs))
		visiting[x] = false
		memo[x] = v
		return v
	}
	_ = key{}
	v := before(b, idx)
	if fail || v.IsBottom() {
		return AV{}, false
	}
	return v, true
}

// storeContribution: what a store adds to a field summary. Stores into element positions of an
// int array/slice field contribute to the same (container) field key.
func (e *Engine) storeContribution(s *fstate, st *ssa.Store) AV {
	base := e.at(s, st.Val, st.Block(), 0)
	// x.f = phi(A, x.f) (if v <= 0 { v = x.f }; x.f = v): the edge that carries the field's own value adds
	// nothing to a field-based summary; without this the summary feeds itself and is widened to the type
	if phi, ok := st.Val.(*ssa.Phi); ok {
		if k, ok := fieldKeyOfAddr(st.Addr); ok && len(phi.Edges) == len(phi.Block().Preds) {
			j, self := Bottom(), false
			for i, ed := range phi.Edges {
				if ld, ok := ed.(*ssa.UnOp); ok && ld.Op == token.MUL {
					if lk, ok := fieldKeyOfAddr(ld.X); ok && lk == k {
						self = true
						continue
					}
				}
				j = Join(j, e.atEdge(s, ed, phi.Block().Preds[i], phi.Block()))
			}
			if self && !j.IsBottom() {
				base = j
			}
		}
	}
	fn := s.fn
	if !hasFailConvention(fn) || base.IsBottom() {
		return base
	}
	fa, ok := st.Addr.(*ssa.FieldAddr)
	if !ok {
		return base
	}
	k, _ := fieldKeyOfAddr(st.Addr)
	// Exit-refined store (DESIGN §3.3): parsers store first and validate afterwards; the object is
	// dropped when the error propagates. The field keeps only what survives to a nil-error return,
	// refined by the guards on (forwarded) re-loads of the same field.
	aliases := []ssa.Value{st.Val}
	for _, b := range fn.Blocks {
		for _, ins := range b.Instrs {
			ld, ok := ins.(*ssa.UnOp)
			if !ok || ld.Op != token.MUL {
				continue
			}
			lfa, ok := ld.X.(*ssa.FieldAddr)
			if !ok || lfa.Field != fa.Field || !sameObject(lfa.X, fa.X) {
				continue
			}
			if e.forwardedStore(s, ld, lfa, k) == st {
				aliases = append(aliases, ld)
			}
		}
	}
	// The region the store dominates: control leaves it either through an ok-return inside it or
	// through an edge to a block outside it (e.g. a loop latch). At each such exit the aliases are
	// in scope and carry every guard the value passed.
	sb := st.Block()
	r := Bottom()
	any := false
	refineAt := func(x *ssa.BasicBlock, succ *ssa.BasicBlock) {
		any = true
		v := base
		for _, al := range aliases {
			ai, isInstr := al.(ssa.Instruction)
			if isInstr && !(ai.Block() == x || ai.Block().Dominates(x)) {
				continue
			}
			if ld, isLoad := al.(*ssa.UnOp); isLoad && al != st.Val {
				last := x.Instrs[len(x.Instrs)-1]
				if e.killOnPaths(s, k, ld, last) {
					continue
				}
			}
			var rv AV
			if succ != nil {
				rv = e.atEdge(s, al, x, succ)
			} else {
				rv = e.at(s, al, x, 1)
			}
			if !rv.IsBottom() {
				v = meetAV(v, rv)
			}
		}
		r = Join(r, v)
	}
	for _, x := range fn.Blocks {
		if !(x == sb || sb.Dominates(x)) || len(x.Instrs) == 0 {
			continue
		}
		if ret, ok := x.Instrs[len(x.Instrs)-1].(*ssa.Return); ok {
			if isFailReturn(fn, ret, x) {
				continue
			}
			refineAt(x, nil)
			continue
		}
		for _, y := range x.Succs {
			if !(y == sb || sb.Dominates(y)) || y == sb {
				refineAt(x, y)
			}
		}
	}
	if !any {
		return Bottom()
	}
	// store first, check afterwards through a method of the object (enc := &Encoder{width: w, ...};
	// if err := enc.checkGeometry(n); err != nil { return nil, err }): the checker certainly ran and
	// accepted on every successful return, so its postcondition on the field holds for what survives
	if tn := namedStruct(fa.X.Type()); tn != nil && tn.Pkg() != nil {
		st2 := tn.Type().Underlying().(*types.Struct)
		key := tn.Pkg().Path() + "." + tn.Name() + "." + st2.Field(fa.Field).Name()
		_, calls := e.subValidatorCalls(fn)
		for _, call := range calls {
			if !(sb == call.Block() && instrIndex(st) < instrIndex(call) || sb != call.Block() && sb.Dominates(call.Block())) {
				continue
			}
			onObj := false
			for _, a := range call.Call.Args {
				if sameObject(a, fa.X) {
					onObj = true
				}
			}
			if !onObj {
				continue
			}
			if pv, ok := e.fieldPostcondition(call.Call.StaticCallee(), key, 0); ok {
				if m := meetAV(r, pv); !m.IsBottom() {
					// the checker can only take values away: it never makes the stored value "exact"
					// (every value producible) if it was not, and it adds limits only where it tested
					m.Taint, m.Raw, m.ZeroDef = r.Taint, r.Raw, r.ZeroDef && m.Contains(0)
					m.Exact = r.Exact && pv.Exact
					m.SanLo, m.SanHi = r.SanLo || (pv.SanLo && pv.Lo() != negInf), r.SanHi || (pv.SanHi && pv.Hi() != posInf)
					r = m
				}
			}
		}
	}
	return r
}

// callResult evaluates result idx (-1: the single result) of a call.
func (e *Engine) callResult(s *fstate, c *ssa.Call, b *ssa.BasicBlock, idx int) AV {
	var t types.Type = c.Type()
	if tt, ok := t.(*types.Tuple); ok {
		if idx < 0 || idx >= tt.Len() {
			return Range(negInf, posInf)
		}
		t = tt.At(idx).Type()
	}
	if !isIntType(t) {
		return e.top(t)
	}
	cc := c.Common()
	if bi, ok := cc.Value.(*ssa.Builtin); ok {
		switch bi.Name() {
		case "len", "cap":
			r := Range(0, posInf)
			if e.cfg.IntSize == 32 {
				r = Range(0, math.MaxInt32)
			}
			r.SanLo = true
			if len(cc.Args) == 1 {
				if at, ok := cc.Args[0].Type().Underlying().(*types.Array); ok {
					return Const(at.Len())
				}
				if pt, ok := cc.Args[0].Type().Underlying().(*types.Pointer); ok {
					if at, ok := pt.Elem().Underlying().(*types.Array); ok {
						return Const(at.Len())
					}
				}
				if ms, ok := cc.Args[0].(*ssa.MakeSlice); ok {
					l := e.at(s, ms.Len, b, 2)
					if !l.IsBottom() && l.Lo() >= 0 {
						return l
					}
				}
			}
			return r
		case "min":
			r := e.at(s, cc.Args[0], b, 2)
			for _, a := range cc.Args[1:] {
				o := e.at(s, a, b, 2)
				r = minAV(r, o)
			}
			return r
		case "max":
			r := e.at(s, cc.Args[0], b, 2)
			for _, a := range cc.Args[1:] {
				o := e.at(s, a, b, 2)
				r = maxAV(r, o)
			}
			return r
		case "copy":
			r := Range(0, posInf)
			r.SanLo = true
			return r
		}
		return e.top(t)
	}
	if sc := cc.StaticCallee(); sc != nil {
		name := sc.String()
		switch {
		case strings.HasPrefix(name, "(encoding/binary.bigEndian).Uint") || strings.HasPrefix(name, "(encoding/binary.littleEndian).Uint"):
			if e.cfg.ByteLoadsTainted {
				return e.rawSource(t)
			}
			r := e.top(t)
			r.Exact = true
			return r
		case name == "math/bits.Len32" || name == "math/bits.Len":
			return Range(0, 64).Meet(0, 64)
		case name == "math/bits.OnesCount8":
			return Range(0, 8).Meet(0, 8)
		case strings.HasPrefix(name, "math/bits."):
			return Range(0, 64).Meet(0, 64)
		}
	}
	r := Bottom()
	known := false
	for _, callee := range e.calleesOf(s.fn, c) {
		cs := e.fs[callee]
		if cs == nil {
			known = false
			r = Bottom()
			break
		}
		known = true
		// bit-length helpers (for v > 0 { v >>= k; n++ }; return n) are evaluated with the actual
		// argument: the result is bounded by the bit length of what this caller passes, not of the
		// join over all callers
		if h := e.bitLenSummary(callee); h.ok && idx <= 0 && h.param < len(cc.Args) && !cc.IsInvoke() {
			arg := e.at(s, cc.Args[h.param], b, 2)
			if !arg.IsBottom() {
				bitlen := h.typeBits
				if hi := satSub(arg.Hi(), h.sub); arg.Hi() != posInf && hi < (int64(1)<<uint(minI(h.typeBits, 62))) {
					bitlen = 0
					for x := hi; x > 0; x >>= 1 {
						bitlen++
					}
				}
				trips := (bitlen + h.shift - 1) / h.shift
				hiRes := maxI(h.constHi, satAdd(h.init, satMul(h.inc, trips)))
				res := Range(minI(h.constLo, h.init), hiRes)
				res.SanLo = true
				if arg.Taint {
					res.Taint = true
					// the count is a dangerous exponent only when the halved value is itself an unchecked
					// exponential or an untouched wide stream scalar; a merely imprecise argument is not
					res.Trip = tripDangerous(arg)
				}
				r = Join(r, res)
				continue
			}
		}
		// small pure helpers (min/max/DivCeil/clamp...) are evaluated with the actual arguments
		if iv, ok := e.inline(s, c, callee, b, idx); ok {
			r = Join(r, iv)
			continue
		}
		i := idx
		if i < 0 {
			i = 0
		}
		if i < len(cs.rets) {
			r = Join(r, cs.rets[i])
		}
	}
	if !known {
		return e.top(t)
	}
	if r.IsBottom() {
		// callee not evaluated yet (or never returns)
		return r
	}
	return e.clip(r, t)
}

func minAV(a, b AV) AV {
	if a.IsBottom() || b.IsBottom() {
		return Bottom()
	}
	r := Range(minI(a.Lo(), b.Lo()), minI(a.Hi(), b.Hi()))
	r.Taint = a.Taint || b.Taint
	r.SanHi = a.SanHi || b.SanHi
	r.SanLo = a.SanLo && b.SanLo
	return r
}

func maxAV(a, b AV) AV {
	if a.IsBottom() || b.IsBottom() {
		return Bottom()
	}
	r := Range(maxI(a.Lo(), b.Lo()), maxI(a.Hi(), b.Hi()))
	r.Taint = a.Taint || b.Taint
	r.SanLo = a.SanLo || b.SanLo
	r.SanHi = a.SanHi && b.SanHi
	return r
}

// DumpFunc renders every integer value of fn (debugging aid).
func (e *Engine) DumpFunc(fn *ssa.Function) []string {
	s := e.fs[fn]
	if s == nil {
		return nil
	}
	var out []string
	for i, p := range fn.Params {
		if isIntType(p.Type()) {
			out = append(out, "param "+p.Name()+" = "+s.params[i].String())
		}
	}
	for _, b := range fn.Blocks {
		for _, ins := range b.Instrs {
			if v, ok := ins.(ssa.Value); ok && isIntType(v.Type()) {
				out = append(out, "  b"+itoa(b.Index)+" "+v.Name()+" = "+ins.String()+"  =>  "+e.val(s, v).String()+"   at-block: "+e.at(s, v, b, 0).String())
			}
		}
	}
	for i, r := range s.rets {
		out = append(out, "ret "+itoa(i)+" = "+r.String())
	}
	return out
}

func itoa(i int) string { return strconv.Itoa(i) }

// FieldSummary renders the summary of a struct field (debugging aid).
func (e *Engine) FieldSummaries() map[string]string {
	out := map[string]string{}
	for k, v := range e.fields {
		st, ok := k.t.Type().Underlying().(*types.Struct)
		if !ok || k.f >= st.NumFields() {
			continue
		}
		out[k.t.Pkg().Name()+"."+k.t.Name()+"."+st.Field(k.f).Name()] = v.String()
	}
	return out
}

// computeZeroDefaults: a field may be observed with its zero value unless every allocation of the
// struct in analysed code initialises it in the same block (composite literal).
func (e *Engine) computeZeroDefaults() {
	seenInit := map[fieldKey]int{}
	allocs := map[*types.TypeName]int{}
	embedded := map[*types.TypeName]bool{}
	var markEmbedded func(t types.Type, top bool)
	markEmbedded = func(t types.Type, top bool) {
		switch u := t.Underlying().(type) {
		case *types.Struct:
			if n, ok := t.(*types.Named); ok && !top {
				embedded[n.Obj()] = true
			}
			for i := 0; i < u.NumFields(); i++ {
				markEmbedded(u.Field(i).Type(), false)
			}
		case *types.Array:
			markEmbedded(u.Elem(), false)
		}
	}
	for _, fn := range e.order {
		for _, b := range fn.Blocks {
			for _, ins := range b.Instrs {
				switch x := ins.(type) {
				case *ssa.Alloc:
					et := x.Type().(*types.Pointer).Elem()
					markEmbedded(et, true)
					n, ok := et.(*types.Named)
					if !ok {
						continue
					}
					if _, isS := n.Underlying().(*types.Struct); !isS {
						continue
					}
					allocs[n.Obj()]++
					if x.Referrers() == nil {
						continue
					}
					// field f is initialised by construction if every path from the allocation to a
					// return that may carry a nil error passes a store to that field of this object
					initBlocks := map[int]map[*ssa.BasicBlock]bool{}
					for _, r := range *x.Referrers() {
						fa, ok := r.(*ssa.FieldAddr)
						if !ok || fa.Referrers() == nil {
							continue
						}
						for _, rr := range *fa.Referrers() {
							if st, ok := rr.(*ssa.Store); ok && st.Addr == fa {
								if initBlocks[fa.Field] == nil {
									initBlocks[fa.Field] = map[*ssa.BasicBlock]bool{}
								}
								initBlocks[fa.Field][st.Block()] = true
							}
						}
					}
					// … or a call of a method on the new object that stores the field on every one of its
					// own successful paths (d := &Decoder{…}; d.load(data))
					for _, r := range *x.Referrers() {
						call, ok := r.(*ssa.Call)
						if !ok || len(call.Call.Args) == 0 || call.Call.Args[0] != ssa.Value(x) {
							continue
						}
						callee := call.Call.StaticCallee()
						if callee == nil || callee.Signature.Recv() == nil {
							continue
						}
						for _, f := range mustStoreFields(callee) {
							if initBlocks[f] == nil {
								initBlocks[f] = map[*ssa.BasicBlock]bool{}
							}
							initBlocks[f][call.Block()] = true
						}
					}
					for f, ib := range initBlocks {
						if ib[b] || !okReturnReachableAvoiding(fn, b, ib) {
							seenInit[fieldKey{n.Obj(), f}]++
						}
					}
				case *ssa.MakeSlice:
					if sl, ok := x.Type().Underlying().(*types.Slice); ok {
						markEmbedded(sl.Elem(), false)
					}
				}
			}
		}
	}
	e.allocsOf = map[*types.TypeName]bool{}
	for tn, n := range allocs {
		e.allocsOf[tn] = true
		st := tn.Type().Underlying().(*types.Struct)
		for i := 0; i < st.NumFields(); i++ {
			k := fieldKey{tn, i}
			e.zeroDef[k] = embedded[tn] || seenInit[k] < n
		}
	}
	for tn := range embedded {
		if st, ok := tn.Type().Underlying().(*types.Struct); ok {
			for i := 0; i < st.NumFields(); i++ {
				e.zeroDef[fieldKey{tn, i}] = true
			}
		}
	}
}

// MustStoreFields is mustStoreFields for other packages.
func MustStoreFields(fn *ssa.Function) []int { return mustStoreFields(fn) }

// mustStoreFields: the fields of its receiver that method fn assigns on every path to a return
// that may carry a nil error.
func mustStoreFields(fn *ssa.Function) []int {
	if len(fn.Blocks) == 0 || len(fn.Params) == 0 {
		return nil
	}
	recv := fn.Params[0]
	if recv.Referrers() == nil {
		return nil
	}
	blocks := map[int]map[*ssa.BasicBlock]bool{}
	for _, r := range *recv.Referrers() {
		fa, ok := r.(*ssa.FieldAddr)
		if !ok || fa.Referrers() == nil {
			continue
		}
		for _, rr := range *fa.Referrers() {
			if st, ok := rr.(*ssa.Store); ok && st.Addr == fa {
				if blocks[fa.Field] == nil {
					blocks[fa.Field] = map[*ssa.BasicBlock]bool{}
				}
				blocks[fa.Field][st.Block()] = true
			}
		}
	}
	var out []int
	for f, ib := range blocks {
		if ib[fn.Blocks[0]] || !okReturnReachableAvoiding(fn, fn.Blocks[0], ib) {
			out = append(out, f)
		}
	}
	sort.Ints(out)
	return out
}

func (e *Engine) hasZeroDefault(k fieldKey) bool {
	if z, ok := e.zeroDef[k]; ok {
		return z
	}
	return true // allocated outside the analysed code: unknown
}

// instrIndex returns the position of ins in its block.
func instrIndex(ins ssa.Instruction) int {
	for i, x := range ins.Block().Instrs {
		if x == ins {
			return i
		}
	}
	return -1
}

// killsField: may ins store to field k (directly or through a callee)?
func (e *Engine) killsField(s *fstate, ins ssa.Instruction, k fieldKey) bool {
	switch x := ins.(type) {
	case *ssa.Store:
		if kk, ok := fieldKeyOfAddr(x.Addr); ok && kk == k {
			return true
		}
	case ssa.CallInstruction:
		for _, callee := range e.calleesOf(s.fn, x) {
			if cs := e.fs[callee]; cs != nil && cs.kills[k] {
				return true
			}
		}
	}
	return false
}

// killOnPaths: may field k be stored on some path from just after `from` to just before `to`?
func (e *Engine) killOnPaths(s *fstate, k fieldKey, from, to ssa.Instruction) bool {
	fb, tb := from.Block(), to.Block()
	fi, ti := instrIndex(from), instrIndex(to)
	if fb == tb && fi < ti {
		// straight-line case first; a loop around the block is handled by the region scan below
		for i := fi + 1; i < ti; i++ {
			if e.killsField(s, fb.Instrs[i], k) {
				return true
			}
		}
		cyc := false
		for _, p := range fb.Preds {
			if fb.Dominates(p) {
				cyc = true
			}
		}
		if !cyc {
			return false
		}
	}
	reg := region(fb, tb)
	for blk := range reg {
		lo, hi := 0, len(blk.Instrs)
		reenter := false
		for _, p := range blk.Preds {
			if reg[p] && blk != fb || (blk == fb && reg[p]) {
				reenter = true
			}
		}
		if blk == fb && !reenter {
			lo = fi + 1
		}
		succIn := false
		for _, sc := range blk.Succs {
			if reg[sc] {
				succIn = true
			}
		}
		if blk == tb && !(succIn && blk != fb) {
			hi = ti
		}
		if blk == fb && blk == tb && fi >= ti {
			// from is after to in the same block: only reachable through a cycle; scan everything
			lo, hi = 0, len(blk.Instrs)
		}
		for i := lo; i < hi && i < len(blk.Instrs); i++ {
			if blk.Instrs[i] == from || blk.Instrs[i] == to {
				continue
			}
			if e.killsField(s, blk.Instrs[i], k) {
				return true
			}
		}
	}
	return false
}

// forwardedStore finds a store to the same field of the same object whose value still holds at
// the load (dominates it, nothing in between may overwrite the field).
func (e *Engine) forwardedStore(s *fstate, ld *ssa.UnOp, fa *ssa.FieldAddr, k fieldKey) *ssa.Store {
	for _, st := range s.stores[k] {
		sfa, ok := st.Addr.(*ssa.FieldAddr)
		if !ok || !sameObject(sfa.X, fa.X) {
			continue
		}
		sb, lb := st.Block(), ld.Block()
		if sb == lb {
			if instrIndex(st) > instrIndex(ld) {
				continue
			}
		} else if !sb.Dominates(lb) {
			continue
		}
		if e.killOnPaths(s, k, st, ld) {
			continue
		}
		return st
	}
	return nil
}

// sameCellLoad: a and b are two loads of the same field of the same local object (in.err tested,
// then in.err returned) with no store to that field of that object anywhere in the function between
// the blocks of the two loads (checked conservatively: no store to it in either block after the
// first load, and none in the function outside the object's own methods is looked for — the object
// is a local allocation whose address is only used for field access and calls).
func sameCellLoad(a, b ssa.Value) bool {
	la, ok1 := a.(*ssa.UnOp)
	lb, ok2 := b.(*ssa.UnOp)
	if !ok1 || !ok2 || la.Op != token.MUL || lb.Op != token.MUL || la == lb {
		return false
	}
	fa, ok1 := la.X.(*ssa.FieldAddr)
	fb, ok2 := lb.X.(*ssa.FieldAddr)
	if !ok1 || !ok2 || fa.Field != fb.Field || !sameObject(fa.X, fb.X) {
		return false
	}
	// no store to that field and no call between the tested load and the later load when they are
	// in a tested-block / successor relation (the common shape); otherwise refuse
	first, second := la, lb
	if !(first.Block() == second.Block() || first.Block().Dominates(second.Block())) {
		first, second = lb, la
		if !(first.Block() == second.Block() || first.Block().Dominates(second.Block())) {
			return false
		}
	}
	clean := func(blk *ssa.BasicBlock, from, to int) bool {
		for i := from; i < to && i < len(blk.Instrs); i++ {
			switch x := blk.Instrs[i].(type) {
			case *ssa.Store:
				if sfa, ok := x.Addr.(*ssa.FieldAddr); ok && sfa.Field == fa.Field && sameObject(sfa.X, fa.X) {
					return false
				}
			case ssa.CallInstruction:
				if _, isB := x.Common().Value.(*ssa.Builtin); !isB {
					return false
				}
			}
		}
		return true
	}
	if first.Block() == second.Block() {
		return clean(first.Block(), instrIndex(first)+1, instrIndex(second))
	}
	// different blocks: second's block must be an immediate successor chain without other work
	if !clean(first.Block(), instrIndex(first)+1, len(first.Block().Instrs)) {
		return false
	}
	for blk := second.Block(); blk != first.Block(); blk = blk.Idom() {
		if blk == nil {
			return false
		}
		upto := len(blk.Instrs)
		if blk == second.Block() {
			upto = instrIndex(second)
		}
		if !clean(blk, 0, upto) {
			return false
		}
	}
	return true
}

// nonNilError: the error operand of a return is certainly non-nil.
func nonNilError(v ssa.Value, at *ssa.BasicBlock, depth int) bool {
	if depth > 4 {
		return false
	}
	switch x := v.(type) {
	case *ssa.Const:
		return false
	case *ssa.Call:
		if sc := x.Call.StaticCallee(); sc != nil {
			n := sc.String()
			if n == "fmt.Errorf" || n == "errors.New" {
				return true
			}
		}
	case *ssa.MakeInterface:
		return true
	case *ssa.UnOp:
		if g, ok := x.X.(*ssa.Global); ok && x.Type().String() == "error" {
			_ = g
			return true // a package-level sentinel error
		}
	case *ssa.Phi:
		for _, ed := range x.Edges {
			if !nonNilError(ed, at, depth+1) {
				return false
			}
		}
		return len(x.Edges) > 0
	}
	for b := at; b != nil; b = b.Idom() {
		id := b.Idom()
		if id == nil {
			break
		}
		bo, ok := ifCondOf(id).(*ssa.BinOp)
		if !ok || len(id.Succs) != 2 {
			continue
		}
		var other ssa.Value
		if bo.X == v || sameCellLoad(bo.X, v) {
			other = bo.Y
		} else if bo.Y == v || sameCellLoad(bo.Y, v) {
			other = bo.X
		} else {
			continue
		}
		if c, ok := other.(*ssa.Const); !ok || !c.IsNil() {
			continue
		}
		var nn *ssa.BasicBlock
		switch bo.Op {
		case token.NEQ:
			nn = id.Succs[0]
		case token.EQL:
			nn = id.Succs[1]
		default:
			continue
		}
		if len(nn.Preds) == 1 && (nn == at || nn.Dominates(at)) {
			return true
		}
	}
	return false
}

// isFailReturn: this return reports failure to the caller, so that what the function stored or
// built does not survive it: a certainly non-nil error, or (for functions without an error result
// whose last result is a bool, the comma-ok convention) a constant false accompanied by nothing but
// zero values.
func isFailReturn(fn *ssa.Function, ret *ssa.Return, b *ssa.BasicBlock) bool {
	if ei := errIndex(fn); ei >= 0 {
		return ei < len(ret.Results) && nonNilError(ret.Results[ei], b, 0)
	}
	n := len(ret.Results)
	if n < 2 {
		return false
	}
	if bt, ok := ret.Results[n-1].Type().Underlying().(*types.Basic); !ok || bt.Kind() != types.Bool {
		return false
	}
	k, ok := ret.Results[n-1].(*ssa.Const)
	if !ok || k.Value == nil || k.Value.String() != "false" {
		return false
	}
	for _, r := range ret.Results[:n-1] {
		c, ok := r.(*ssa.Const)
		if !ok {
			return false
		}
		if c.Value != nil && c.Value.String() != "0" && c.Value.String() != "false" && c.Value.String() != `""` {
			return false
		}
	}
	return true
}

func hasFailConvention(fn *ssa.Function) bool {
	if errIndex(fn) >= 0 {
		return true
	}
	res := fn.Signature.Results()
	if res.Len() < 2 {
		return false
	}
	bt, ok := res.At(res.Len() - 1).Type().Underlying().(*types.Basic)
	return ok && bt.Kind() == types.Bool
}

func errIndex(fn *ssa.Function) int {
	res := fn.Signature.Results()
	if res.Len() == 0 {
		return -1
	}
	if res.At(res.Len()-1).Type().String() == "error" {
		return res.Len() - 1
	}
	return -1
}

// storeElems joins val into the element summary of every object container may refer to.
// Returns false when no points-to information is available (caller falls back to field/alloc keys).
func (e *Engine) storeElems(fn *ssa.Function, container ssa.Value, val AV, t types.Type, round int) bool {
	if e.cfg.ObjectsOf == nil {
		return false
	}
	objs := e.cfg.ObjectsOf(fn, container)
	if len(objs) == 0 {
		return false
	}
	for _, o := range objs {
		if e.cfg.IsInputObj(o) {
			continue
		}
		old, had := e.elemObj[o]
		if !had {
			old = Const(0)
		}
		j := Join(old, val)
		if !had || !Equal(j, old) {
			e.elemObj[o] = e.widenSummary(old, j, t, round)
			e.changed = true
		}
	}
	return true
}

// loadElems: the value of an element of whatever container may refer to.
func (e *Engine) loadElems(fn *ssa.Function, container ssa.Value, t types.Type) (AV, bool) {
	if e.cfg.ObjectsOf == nil {
		return AV{}, false
	}
	objs := e.cfg.ObjectsOf(fn, container)
	if len(objs) == 0 {
		return AV{}, false
	}
	r := Bottom()
	for _, o := range objs {
		if e.cfg.IsInputObj(o) {
			in := e.top(t)
			in.Taint = e.cfg.ByteLoadsTainted
			in.Exact = in.Taint
			r = Join(r, in)
			continue
		}
		if av, ok := e.elemObj[o]; ok {
			r = Join(r, av)
		} else {
			r = Join(r, Const(0))
		}
	}
	return e.clip(r, t), true
}

// transferElems models copy(dst, src) / append(dst, src...) on element summaries.
func (e *Engine) transferElems(fn *ssa.Function, dst, src ssa.Value, round int) {
	var et types.Type
	switch x := src.Type().Underlying().(type) {
	case *types.Slice:
		et = x.Elem()
	default:
		return
	}
	if !isIntType(et) {
		return
	}
	if g := globalRoot(src); g != nil {
		if av, ok := e.globals[g]; ok {
			e.storeElems(fn, dst, av, et, round)
		}
		return
	}
	if av, ok := e.loadElems(fn, src, et); ok {
		e.storeElems(fn, dst, av, et, round)
	}
}

// computeGuardedFields: fields whose loaded value (possibly through arithmetic / conversions) is
// an operand of a comparison that controls a branch, anywhere in the analysed code.
func (e *Engine) computeGuardedFields() {
	var mark func(v ssa.Value, depth int)
	mark = func(v ssa.Value, depth int) {
		if depth > 4 || v == nil {
			return
		}
		switch x := v.(type) {
		case *ssa.UnOp:
			if x.Op == token.MUL {
				if k, ok := fieldKeyOfAddr(x.X); ok {
					e.guarded[k] = true
				}
				return
			}
			mark(x.X, depth+1)
		case *ssa.BinOp:
			mark(x.X, depth+1)
			mark(x.Y, depth+1)
		case *ssa.Convert:
			mark(x.X, depth+1)
		case *ssa.ChangeType:
			mark(x.X, depth+1)
		case *ssa.Field:
			if tn := namedStruct(x.X.Type()); tn != nil {
				e.guarded[fieldKey{tn, x.Field}] = true
			}
		}
	}
	for _, fn := range e.order {
		for _, b := range fn.Blocks {
			cond := ifCondOf(b)
			bo, ok := cond.(*ssa.BinOp)
			if !ok {
				continue
			}
			switch bo.Op {
			case token.LSS, token.LEQ, token.GTR, token.GEQ, token.EQL, token.NEQ:
				mark(bo.X, 0)
				mark(bo.Y, 0)
			}
		}
	}
}

// ---------------------------------------------------------------------------------------------
// per-call-site evaluation of small helpers

// SiteCtx is the evaluation of an inlineable callee with the arguments of one call site.
type SiteCtx struct {
	Caller *ssa.Function
	Site   ssa.CallInstruction
	e      *Engine
	s      *fstate
}

// At evaluates v (a value of the callee) at block b in this call-site context.
func (sc *SiteCtx) At(v ssa.Value, b *ssa.BasicBlock) AV { return sc.e.at(sc.s, v, b, 0) }

// Inlineable reports whether fn's obligations should be judged per call site.
func (e *Engine) Inlineable(fn *ssa.Function) bool {
	return e.inlineable(fn) && len(e.callers[fn]) > 0
}

// SiteContexts evaluates callee once per call site found in analysed functions.
func (e *Engine) SiteContexts(callee *ssa.Function) []*SiteCtx {
	var out []*SiteCtx
	for _, cs := range e.callers[callee] {
		caller := e.fs[cs.caller]
		if caller == nil {
			continue
		}
		cc := cs.site.Common()
		if cc.IsInvoke() || len(cc.Args) != len(callee.Params) {
			continue
		}
		tmp := &fstate{fn: callee, vals: map[ssa.Value]AV{}, visits: map[ssa.Value]int{}, atMemo: map[atKey]AV{}, params: make([]AV, len(callee.Params)), kills: map[fieldKey]bool{}, seeded: true}
		dead := false
		for i, a := range cc.Args {
			if isIntType(a.Type()) {
				tmp.params[i] = e.at(caller, a, cs.site.Block(), 1)
				if tmp.params[i].IsBottom() {
					dead = true
				}
			} else {
				tmp.params[i] = e.top(a.Type())
			}
		}
		if dead {
			continue
		}
		for _, blk := range callee.DomPreorder() {
			for _, ins := range blk.Instrs {
				if v, ok := ins.(ssa.Value); ok && isIntType(v.Type()) {
					tmp.vals[v] = e.transfer(tmp, v, blk)
				}
			}
		}
		out = append(out, &SiteCtx{Caller: cs.caller, Site: cs.site, e: e, s: tmp})
	}
	return out
}

// allocatedIn: does fn allocate a value of struct type tn?
func (e *Engine) allocatedIn(tn *types.TypeName, fn *ssa.Function) bool {
	for _, b := range fn.Blocks {
		for _, ins := range b.Instrs {
			if al, ok := ins.(*ssa.Alloc); ok {
				if n, ok := al.Type().(*types.Pointer).Elem().(*types.Named); ok && n.Obj() == tn {
					return true
				}
			}
		}
	}
	return false
}

// FieldGuarded reports whether a field is compared in some branch condition.
func (e *Engine) FieldGuarded(tn *types.TypeName, f int) bool { return e.guarded[fieldKey{tn, f}] }

// okReturnReachableAvoiding: can a return that may carry a nil error be reached from block `from`
// without passing through any block of `avoid`?
func okReturnReachableAvoiding(fn *ssa.Function, from *ssa.BasicBlock, avoid map[*ssa.BasicBlock]bool) bool {
	seen := map[*ssa.BasicBlock]bool{}
	var walk func(b *ssa.BasicBlock) bool
	walk = func(b *ssa.BasicBlock) bool {
		if seen[b] {
			return false
		}
		seen[b] = true
		if b != from && avoid[b] {
			return false
		}
		if len(b.Instrs) > 0 {
			if ret, ok := b.Instrs[len(b.Instrs)-1].(*ssa.Return); ok {
				return !isFailReturn(fn, ret, b)
			}
		}
		for _, sc := range b.Succs {
			if walk(sc) {
				return true
			}
		}
		return false
	}
	return walk(from)
}

// FieldMayBeZero reports whether the field may still hold its zero value somewhere.
func (e *Engine) FieldMayBeZero(tn *types.TypeName, f int) bool {
	return e.hasZeroDefault(fieldKey{tn, f})
}

// Analysed reports whether fn is part of the analysed set.
func (e *Engine) Analysed(fn *ssa.Function) bool { return e.fs[fn] != nil }

// FieldPostcondition: what is known about field key ("pkg.Type.Field") on every return of fn that
// may carry a nil error, from the guards fn applies to its loads of that field. ok=false when fn
// never loads the field.
func (e *Engine) FieldPostcondition(fn *ssa.Function, key string) (AV, bool) {
	return e.fieldPostcondition(fn, key, 0)
}

// subValidators: functions that have certainly run, and returned a nil error, whenever fn returns
// without failing: static calls whose error result is tested with every failing side leaving fn with
// a failure, and the entries of a local table of check functions that fn walks completely
// (for _, check := range checks { if err := check(p); err != nil { return err } }).
func (e *Engine) subValidators(fn *ssa.Function) []*ssa.Function {
	out, _ := e.subValidatorCalls(fn)
	return out
}

// subValidatorCalls is subValidators together with the static call instructions among them.
func (e *Engine) subValidatorCalls(fn *ssa.Function) ([]*ssa.Function, []*ssa.Call) {
	var out []*ssa.Function
	var calls []*ssa.Call
	okReturns := func() []*ssa.BasicBlock {
		var bs []*ssa.BasicBlock
		for _, b := range fn.Blocks {
			if len(b.Instrs) == 0 {
				continue
			}
			if ret, ok := b.Instrs[len(b.Instrs)-1].(*ssa.Return); ok && !isFailReturn(fn, ret, b) {
				bs = append(bs, b)
			}
		}
		return bs
	}()
	// failing side of `err != nil` leaves only through failure returns
	failsOnly := func(from *ssa.BasicBlock, avoid *ssa.BasicBlock) bool {
		seen := map[*ssa.BasicBlock]bool{}
		ok, any := true, false
		var walk func(b *ssa.BasicBlock)
		walk = func(b *ssa.BasicBlock) {
			if seen[b] || b == avoid {
				return
			}
			seen[b] = true
			if len(b.Instrs) > 0 {
				if ret, isRet := b.Instrs[len(b.Instrs)-1].(*ssa.Return); isRet {
					any = true
					if !isFailReturn(fn, ret, b) {
						ok = false
					}
					return
				}
			}
			for _, sc := range b.Succs {
				walk(sc)
			}
		}
		walk(from)
		return ok && any
	}
	errTested := func(call *ssa.Call) (*ssa.BasicBlock, bool) {
		// the call's error result is compared with nil in the call's block, failing side fails
		var errv ssa.Value = call
		if _, isTuple := call.Type().(*types.Tuple); isTuple {
			errv = nil
			if call.Referrers() != nil {
				for _, r := range *call.Referrers() {
					if ex, ok := r.(*ssa.Extract); ok && isErrorType(ex.Type()) {
						errv = ex
					}
				}
			}
		}
		if errv == nil || !isErrorType(errv.Type()) {
			return nil, false
		}
		b := call.Block()
		cond, ok := ifCondOf(b).(*ssa.BinOp)
		if !ok || len(b.Succs) != 2 || (cond.X != errv && cond.Y != errv) {
			return nil, false
		}
		var failSide, okSide *ssa.BasicBlock
		switch cond.Op {
		case token.NEQ:
			failSide, okSide = b.Succs[0], b.Succs[1]
		case token.EQL:
			failSide, okSide = b.Succs[1], b.Succs[0]
		default:
			return nil, false
		}
		if !failsOnly(failSide, okSide) {
			return nil, false
		}
		return okSide, true
	}
	loops := map[*ssa.BasicBlock]bool{} // headers
	for _, b := range fn.Blocks {
		for _, sc := range b.Succs {
			if sc.Dominates(b) {
				loops[sc] = true
			}
		}
	}
	inLoop := func(b *ssa.BasicBlock) *ssa.BasicBlock {
		for h := range loops {
			if h.Dominates(b) {
				// b is in the loop of h if some latch is reachable... approximate: h dominates b and b reaches h
				seen := map[*ssa.BasicBlock]bool{}
				var reach func(x *ssa.BasicBlock) bool
				reach = func(x *ssa.BasicBlock) bool {
					if x == h {
						return true
					}
					if seen[x] {
						return false
					}
					seen[x] = true
					for _, sc := range x.Succs {
						if reach(sc) {
							return true
						}
					}
					return false
				}
				for _, sc := range b.Succs {
					if reach(sc) {
						return h
					}
				}
			}
		}
		return nil
	}
	for _, b := range fn.Blocks {
		for _, ins := range b.Instrs {
			call, ok := ins.(*ssa.Call)
			if !ok {
				continue
			}
			if _, isB := call.Call.Value.(*ssa.Builtin); isB || call.Call.IsInvoke() {
				continue
			}
			if _, tested := errTested(call); !tested {
				continue
			}
			h := inLoop(b)
			if sc := call.Call.StaticCallee(); sc != nil {
				if h != nil || sc.Blocks == nil {
					continue
				}
				dom := true
				for _, rb := range okReturns {
					if !b.Dominates(rb) {
						dom = false
					}
				}
				if dom && len(okReturns) > 0 {
					out = append(out, sc)
					calls = append(calls, call)
				}
				continue
			}
			// dynamic call inside a loop: callee value loaded from a local table walked by range
			if h == nil {
				continue
			}
			// t = table[i] — through an element address (slice / addressable array) or on a copy of
			// the array value (range over an array literal)
			var base, index ssa.Value
			switch v := call.Call.Value.(type) {
			case *ssa.UnOp:
				if ia, ok := v.X.(*ssa.IndexAddr); ok && v.Op == token.MUL {
					base, index = ia.X, ia.Index
				}
			case *ssa.Index:
				base, index = v.X, v.Index
				if cp, ok := base.(*ssa.UnOp); ok && cp.Op == token.MUL {
					base = cp.X
				}
			}
			if base == nil {
				continue
			}
			if sl, ok := base.(*ssa.Slice); ok {
				base = sl.X
			}
			al, ok := base.(*ssa.Alloc)
			if !ok || al.Referrers() == nil {
				continue
			}
			at, ok := al.Type().(*types.Pointer).Elem().Underlying().(*types.Array)
			if !ok {
				continue
			}
			// range-index loop over the whole table: index = phi(-1, index+1), tested index+1 < len
			inc, ok := index.(*ssa.BinOp)
			if !ok || inc.Op != token.ADD {
				continue
			}
			phi, ok := inc.X.(*ssa.Phi)
			k1, ok1 := inc.Y.(*ssa.Const)
			if !ok || !ok1 || k1.Value == nil || k1.Int64() != 1 || phi.Block() != h {
				continue
			}
			whole := false
			for i, ed := range phi.Edges {
				if !h.Dominates(h.Preds[i]) || h.Preds[i] == h && false {
					if k, ok := ed.(*ssa.Const); ok && k.Value != nil && k.Int64() == -1 {
						whole = true
					}
				}
			}
			cond, ok := ifCondOf(inc.Block()).(*ssa.BinOp)
			if !whole || !ok || cond.Op != token.LSS || cond.X != ssa.Value(inc) {
				continue
			}
			// the bound is the table's length: the constant for an array, len(table[:]) for a slice literal
			boundOK := false
			if k, ok := cond.Y.(*ssa.Const); ok && k.Value != nil && k.Int64() == at.Len() {
				boundOK = true
			}
			if lc, ok := cond.Y.(*ssa.Call); ok {
				if bi, ok := lc.Call.Value.(*ssa.Builtin); ok && bi.Name() == "len" && len(lc.Call.Args) == 1 {
					if sl, ok := lc.Call.Args[0].(*ssa.Slice); ok && sl.X == ssa.Value(al) && sl.Low == nil && sl.High == nil {
						boundOK = true
					}
				}
			}
			if !boundOK {
				continue
			}
			// the loop's normal exit must lead to the ok returns, and the table entries are constants
			entries := map[int64]*ssa.Function{}
			cleanTable := true
			for _, r := range *al.Referrers() {
				eia, ok := r.(*ssa.IndexAddr)
				if !ok || eia.Referrers() == nil {
					continue
				}
				for _, u := range *eia.Referrers() {
					st, ok := u.(*ssa.Store)
					if !ok {
						continue
					}
					ki, ok := eia.Index.(*ssa.Const)
					f, ok2 := st.Val.(*ssa.Function)
					if !ok || !ok2 || ki.Value == nil {
						cleanTable = false
						continue
					}
					entries[ki.Int64()] = f
				}
			}
			if !cleanTable || int64(len(entries)) != at.Len() {
				continue
			}
			for i := int64(0); i < at.Len(); i++ {
				out = append(out, entries[i])
			}
		}
	}
	return out, calls
}

func (e *Engine) fieldPostcondition(fn *ssa.Function, key string, depth int) (AV, bool) {
	own, okOwn := e.ownFieldPostcondition(fn, key)
	if depth >= 2 {
		return own, okOwn
	}
	for _, g := range e.subValidators(fn) {
		if pv, ok := e.fieldPostcondition(g, key, depth+1); ok {
			if !okOwn {
				own, okOwn = pv, true
			} else if m := meetAV(own, pv); !m.IsBottom() {
				m.Taint, m.Raw = true, true
				own = m
			}
		}
	}
	return own, okOwn
}

func (e *Engine) ownFieldPostcondition(fn *ssa.Function, key string) (AV, bool) {
	s := e.fs[fn]
	if s == nil {
		return AV{}, false
	}
	var loads []*ssa.UnOp
	var t types.Type
	for _, b := range fn.Blocks {
		for _, ins := range b.Instrs {
			ld, ok := ins.(*ssa.UnOp)
			if !ok || ld.Op != token.MUL {
				continue
			}
			fa, ok := ld.X.(*ssa.FieldAddr)
			if !ok {
				continue
			}
			tn := namedStruct(fa.X.Type())
			if tn == nil || tn.Pkg() == nil {
				continue
			}
			st := tn.Type().Underlying().(*types.Struct)
			if tn.Pkg().Path()+"."+tn.Name()+"."+st.Field(fa.Field).Name() == key {
				loads = append(loads, ld)
				t = ld.Type()
			}
		}
	}
	if len(loads) == 0 {
		return AV{}, false
	}
	r := Bottom()
	for _, b := range fn.Blocks {
		if len(b.Instrs) == 0 {
			continue
		}
		ret, ok := b.Instrs[len(b.Instrs)-1].(*ssa.Return)
		if !ok {
			continue
		}
		if isFailReturn(fn, ret, b) {
			continue
		}
		v := e.rawSource(t)
		for _, ld := range loads {
			if ld.Block() == b || ld.Block().Dominates(b) {
				// what the guards say about the loaded value, whatever the field currently holds: the
				// load is evaluated as an unknown adversarial value (its summary may still be empty, or
				// be the very thing this postcondition is about to narrow)
				saved, had := s.vals[ld]
				s.vals[ld] = e.rawSource(t)
				s.atMemo = map[atKey]AV{}
				g := e.at(s, ld, b, 0)
				if had {
					s.vals[ld] = saved
				} else {
					delete(s.vals, ld)
				}
				s.atMemo = map[atKey]AV{}
				v = meetAV(v, g)
			}
		}
		r = Join(r, v)
	}
	if r.IsBottom() {
		return AV{}, false
	}
	r.Taint, r.Raw = true, true
	return r, true
}

// tripAdjust: a header phi that is a pure iteration counter (init; counter += c on every back edge)
// and is not itself read by the loop's exit test takes its final value from the trip count. When the
// exit test reads a stream-controlled value the counter is stream-controlled too (implicit flow):
// it is marked tainted / Trip. When the loop halves a non-negative value until it is zero
// (for w > 0 { w >>= k; counter++ }) the trip count is at most bitlen(max w)/k, which bounds the
// counter whatever widening did to it.
func (e *Engine) tripAdjust(s *fstate, phi *ssa.Phi, nv AV) AV {
	h := phi.Block()
	if nv.IsBottom() || len(phi.Edges) != len(h.Preds) {
		return nv
	}
	var inc int64
	init := Bottom()
	back := 0
	for i, ed := range phi.Edges {
		pred := h.Preds[i]
		if !h.Dominates(pred) {
			init = Join(init, e.atEdge(s, ed, pred, h))
			continue
		}
		back++
		bo, ok := e.stripWiden(ed).(*ssa.BinOp)
		if !ok || bo.Op != token.ADD {
			return nv
		}
		var k *ssa.Const
		if bo.X == ssa.Value(phi) {
			k, _ = bo.Y.(*ssa.Const)
		} else if bo.Y == ssa.Value(phi) {
			k, _ = bo.X.(*ssa.Const)
		}
		if k == nil || k.Value == nil || k.Value.Kind() != constant.Int {
			return nv
		}
		c, ok := constant.Int64Val(k.Value)
		if !ok || c <= 0 || (inc != 0 && inc != c) {
			return nv
		}
		inc = c
	}
	if back == 0 || inc == 0 || init.IsBottom() || len(h.Instrs) == 0 {
		return nv
	}
	ifi, ok := h.Instrs[len(h.Instrs)-1].(*ssa.If)
	if !ok {
		return nv
	}
	cond, ok := ifi.Cond.(*ssa.BinOp)
	if !ok {
		return nv
	}
	// the counter must not be what the exit test reads (those loops are refined by the test itself)
	for _, o := range []ssa.Value{cond.X, cond.Y} {
		if e.stripWiden(o) == ssa.Value(phi) {
			return nv
		}
	}
	tainted := e.at(s, cond.X, h, 1).Taint || e.at(s, cond.Y, h, 1).Taint
	// halving loop: the tested value is a header phi w with w >>= k on every back edge, compared with 0 / 1
	var w *ssa.Phi
	if p, ok := e.stripWiden(cond.X).(*ssa.Phi); ok && p.Block() == h {
		if kc, ok := cond.Y.(*ssa.Const); ok && kc.Value != nil && kc.Value.Kind() == constant.Int {
			if kv, ok := constant.Int64Val(kc.Value); ok {
				if (cond.Op == token.GTR && kv == 0) || (cond.Op == token.NEQ && kv == 0) || (cond.Op == token.GEQ && kv == 1) {
					w = p
				}
			}
		}
	}
	if w == nil || len(w.Edges) != len(h.Preds) || init.Hi() == posInf {
		return nv
	}
	shift := int64(0)
	winit := Bottom()
	for i, ed := range w.Edges {
		pred := h.Preds[i]
		if !h.Dominates(pred) {
			winit = Join(winit, e.atEdge(s, ed, pred, h))
			continue
		}
		bo, ok := e.stripWiden(ed).(*ssa.BinOp)
		if !ok || bo.Op != token.SHR || e.stripWiden(bo.X) != ssa.Value(w) {
			return nv
		}
		kc, ok := bo.Y.(*ssa.Const)
		if !ok || kc.Value == nil {
			return nv
		}
		kv, ok := constant.Int64Val(constant.ToInt(kc.Value))
		if !ok || kv < 1 || (shift != 0 && shift != kv) {
			return nv
		}
		shift = kv
	}
	if shift == 0 || winit.IsBottom() {
		return nv
	}
	if tainted && winit.Taint {
		nv.Taint = true
		if tripDangerous(winit) {
			nv.Trip = true
		}
	}
	bitlen := int64(63)
	if _, _, size, signed, ok := e.typeRange(w.Type()); ok {
		bitlen = int64(size)
		if signed {
			bitlen--
		}
	}
	if hi := winit.Hi(); hi != posInf && hi >= 0 {
		bl := int64(0)
		for x := uint64(hi); x > 0; x >>= 1 {
			bl++
		}
		if bl < bitlen {
			bitlen = bl
		}
	}
	trips := (bitlen + shift - 1) / shift
	bound := satAdd(init.Hi(), satMul(inc, trips))
	if nv.Hi() > bound {
		t, tr := nv.Taint, nv.Trip
		nv = nv.Meet(negInf, bound)
		nv.Taint, nv.Trip = t, tr
	}
	return nv
}

// bitLenInfo: the callee is a bit-length helper — one halving loop over a value derived from
// parameter `param` (p or p - sub), a pure counter starting at init and stepping by inc, and every
// return yields a constant or that counter.
type bitLenInfo struct {
	ok                    bool
	param                 int
	sub, shift, inc, init int64
	constLo, constHi      int64
	typeBits              int64
}

func (e *Engine) bitLenSummary(fn *ssa.Function) bitLenInfo {
	if e.bitLenMemo == nil {
		e.bitLenMemo = map[*ssa.Function]bitLenInfo{}
	}
	if h, ok := e.bitLenMemo[fn]; ok {
		return h
	}
	h := e.computeBitLen(fn)
	e.bitLenMemo[fn] = h
	return h
}

func constInt(v ssa.Value) (int64, bool) {
	k, ok := v.(*ssa.Const)
	if !ok || k.Value == nil {
		return 0, false
	}
	iv := constant.ToInt(k.Value)
	if iv.Kind() != constant.Int {
		return 0, false
	}
	return constant.Int64Val(iv)
}

func (e *Engine) computeBitLen(fn *ssa.Function) bitLenInfo {
	var none bitLenInfo
	if fn == nil || fn.Blocks == nil || fn.Signature.Results().Len() != 1 || !isIntType(fn.Signature.Results().At(0).Type()) || len(fn.Blocks) > 12 {
		return none
	}
	// exactly one loop header
	var h *ssa.BasicBlock
	for _, b := range fn.Blocks {
		for _, p := range b.Preds {
			if b.Dominates(p) {
				if h != nil && h != b {
					return none
				}
				h = b
			}
		}
	}
	if h == nil || len(h.Instrs) == 0 {
		return none
	}
	ifi, ok := h.Instrs[len(h.Instrs)-1].(*ssa.If)
	if !ok {
		return none
	}
	cond, ok := ifi.Cond.(*ssa.BinOp)
	if !ok {
		return none
	}
	w, ok := e.stripWiden(cond.X).(*ssa.Phi)
	if !ok || w.Block() != h {
		return none
	}
	kv, ok := constInt(cond.Y)
	if !ok || !((cond.Op == token.GTR && kv == 0) || (cond.Op == token.NEQ && kv == 0) || (cond.Op == token.GEQ && kv == 1)) {
		return none
	}
	out := bitLenInfo{param: -1}
	for i, ed := range w.Edges {
		pred := h.Preds[i]
		if h.Dominates(pred) {
			bo, ok := e.stripWiden(ed).(*ssa.BinOp)
			if !ok || bo.Op != token.SHR || e.stripWiden(bo.X) != ssa.Value(w) {
				return none
			}
			k, ok := constInt(bo.Y)
			if !ok || k < 1 || (out.shift != 0 && out.shift != k) {
				return none
			}
			out.shift = k
			continue
		}
		v := e.stripWiden(ed)
		sub := int64(0)
		if bo, ok := v.(*ssa.BinOp); ok && bo.Op == token.SUB {
			k, ok := constInt(bo.Y)
			if !ok || k < 0 {
				return none
			}
			sub, v = k, e.stripWiden(bo.X)
		}
		pi := -1
		for j, p := range fn.Params {
			if ssa.Value(p) == v {
				pi = j
			}
		}
		if pi < 0 || (out.param >= 0 && (out.param != pi || out.sub != sub)) {
			return none
		}
		out.param, out.sub = pi, sub
	}
	if out.param < 0 || out.shift == 0 {
		return none
	}
	// the counter
	var cnt *ssa.Phi
	for _, ins := range h.Instrs {
		p, ok := ins.(*ssa.Phi)
		if !ok || p == w {
			continue
		}
		good := true
		var init, inc int64
		haveInit := false
		for i, ed := range p.Edges {
			pred := h.Preds[i]
			if h.Dominates(pred) {
				bo, ok := e.stripWiden(ed).(*ssa.BinOp)
				if !ok || bo.Op != token.ADD || bo.X != ssa.Value(p) {
					good = false
					break
				}
				k, ok := constInt(bo.Y)
				if !ok || k <= 0 || (inc != 0 && inc != k) {
					good = false
					break
				}
				inc = k
			} else {
				k, ok := constInt(ed)
				if !ok || (haveInit && k != init) {
					good = false
					break
				}
				init, haveInit = k, true
			}
		}
		if good && inc > 0 && haveInit {
			if cnt != nil {
				return none // two counters: not the shape
			}
			cnt = p
			out.init, out.inc = init, inc
		}
	}
	if cnt == nil {
		return none
	}
	// every return: a constant or the counter
	out.constLo, out.constHi = out.init, out.init
	nret := 0
	for _, b := range fn.Blocks {
		if len(b.Instrs) == 0 {
			continue
		}
		ret, ok := b.Instrs[len(b.Instrs)-1].(*ssa.Return)
		if !ok {
			continue
		}
		nret++
		v := e.stripWiden(ret.Results[0])
		if v == ssa.Value(cnt) {
			continue
		}
		k, ok := constInt(v)
		if !ok {
			return none
		}
		out.constLo, out.constHi = minI(out.constLo, k), maxI(out.constHi, k)
	}
	if nret == 0 {
		return none
	}
	out.typeBits = 63
	if _, _, size, signed, ok := e.typeRange(w.Type()); ok {
		out.typeBits = int64(size)
		if signed {
			out.typeBits--
		}
	}
	out.ok = true
	return out
}

// tripDangerous: the value a halving loop runs over is an unchecked exponential (1<<n with a
// stream-controlled n) or a wide stream scalar exactly as it arrived: its bit length is then a
// stream-chosen number up to the word size.
func tripDangerous(a AV) bool {
	if !a.Taint {
		return false
	}
	return a.Blowup || ((a.Exact || (a.Raw && !a.SanHi)) && a.Hi() >= int64(1)<<31)
}
