package ranges

import (
	"fmt"
	"go/token"
	"go/types"
	"strings"

	"golang.org/x/tools/go/ssa"
)

// meetAV intersects two descriptions of the same runtime value.
func meetAV(a, b AV) AV {
	if a.IsBottom() {
		return a
	}
	if b.IsBottom() {
		return b
	}
	var ps []Itv
	for _, x := range a.P {
		for _, y := range b.P {
			lo, hi := maxI(x.Lo, y.Lo), minI(x.Hi, y.Hi)
			if lo <= hi {
				ps = append(ps, Itv{lo, hi})
			}
		}
	}
	n, _ := normalize(ps)
	r := AV{P: n, Taint: a.Taint || b.Taint, SanLo: a.SanLo || b.SanLo, SanHi: a.SanHi || b.SanHi, Bits: a.Bits & b.Bits, ZeroDef: a.ZeroDef && b.ZeroDef, Raw: a.Raw || b.Raw, Blowup: a.Blowup && b.Blowup, Trip: a.Trip || b.Trip}
	r.Exact = (samePieces(n, a.P) && a.Exact) || (samePieces(n, b.P) && b.Exact)
	return r
}

func samePieces(a, b []Itv) bool {
	if len(a) != len(b) {
		return false
	}
	for i := range a {
		if a[i] != b[i] {
			return false
		}
	}
	return true
}

func ifCondOf(b *ssa.BasicBlock) ssa.Value {
	if len(b.Instrs) == 0 {
		return nil
	}
	if i, ok := b.Instrs[len(b.Instrs)-1].(*ssa.If); ok {
		return i.Cond
	}
	return nil
}

// at: value of v refined by everything known on entry to (and inside) block b.
func (e *Engine) at(s *fstate, v ssa.Value, b *ssa.BasicBlock, depth int) AV {
	if c, ok := v.(*ssa.Const); ok {
		return e.constVal(c)
	}
	if !isIntType(v.Type()) {
		return e.top(v.Type())
	}
	key := atKey{v, b}
	if depth == 0 {
		if r, ok := s.atMemo[key]; ok {
			return r
		}
	}
	base := e.val(s, v)
	if base.IsBottom() || depth > 5 {
		return base
	}
	r := base
	// 1. recompute pure operations from refined operands
	if depth < 4 {
		switch x := v.(type) {
		case *ssa.BinOp:
			r2 := e.clipArith(e.binop(x.Op, e.at(s, x.X, b, depth+1), e.at(s, x.Y, b, depth+1), x), x.Type())
			r = meetAV(r, r2)
			if x.Op == token.SUB {
				// a difference whose operands were compared on a dominating edge (if hi < lo { return })
				if d, ok := e.subRelational(s, x, b); ok && e.boundedOperand(s, x, b, depth) {
					if m := meetAV(r, d); !m.IsBottom() {
						m.Taint, m.Exact = r.Taint, false
						r = m
					}
				}
			}
		case *ssa.Convert:
			if isIntType(x.X.Type()) {
				r = meetAV(r, e.clip(e.at(s, x.X, b, depth+1), x.Type()))
			}
		case *ssa.ChangeType:
			if isIntType(x.X.Type()) {
				r = meetAV(r, e.clip(e.at(s, x.X, b, depth+1), x.Type()))
			}
		case *ssa.UnOp:
			if x.Op == token.SUB {
				r = meetAV(r, e.clipArith(Neg(e.at(s, x.X, b, depth+1)), x.Type()))
			}
		case *ssa.Call:
			// re-evaluate inlineable helpers / builtins with refined arguments
			if depth < 2 {
				r2 := e.callResult(s, x, b, -1)
				if !r2.IsBottom() {
					r = meetAV(r, r2)
				}
			}
		}
	}
	// 2. conditions on dominating edges
	for c := b; c != nil; c = c.Idom() {
		d := c.Idom()
		if d == nil {
			break
		}
		if len(c.Preds) >= 2 && len(c.Preds) <= 4 && depth < 3 && definedBefore(v, c) {
			// merge point of a short-circuit condition (x != 1 && x != 3 -> error): what holds on
			// every incoming edge holds from here on. Acyclic merges only.
			acyclic := true
			for _, p := range c.Preds {
				if c.Dominates(p) {
					acyclic = false
				}
			}
			if acyclic {
				j := Bottom()
				for _, p := range c.Preds {
					j = Join(j, e.atEdge2(s, v, p, c, depth+1))
				}
				if !j.IsBottom() {
					if m := meetAV(r, j); !m.IsBottom() {
						r = m
					}
				}
			}
			continue
		}
		if len(c.Preds) != 1 || c.Preds[0] != d || len(d.Succs) != 2 {
			continue
		}
		cond := ifCondOf(d)
		if cond == nil {
			continue
		}
		r = e.applyCond(s, r, v, cond, d.Succs[0] == c, d, c, b, depth)
	}
	if depth == 0 {
		s.atMemo[key] = r
	}
	return r
}

// boundedOperand: one operand of the difference is known to lie within +-2^62, so that X >= Y
// cannot make X - Y wrap unless the other operand is below -2^62 (assumption recorded in the evidence:
// offsets and lengths do not reach that magnitude).
func (e *Engine) boundedOperand(s *fstate, x *ssa.BinOp, b *ssa.BasicBlock, depth int) bool {
	const lim = int64(1) << 62
	for _, o := range []ssa.Value{x.X, x.Y} {
		v := e.at(s, o, b, depth+1)
		if !v.IsBottom() && v.Lo() > -lim && v.Hi() < lim {
			return true
		}
	}
	return false
}

// subRelational: for d = X - Y, what the comparisons of X with Y on the edges dominating block b say
// about the sign of d (the only relational fact the engine keeps: X >= Y  =>  X - Y >= 0).
func (e *Engine) subRelational(s *fstate, x *ssa.BinOp, b *ssa.BasicBlock) (AV, bool) {
	lo, hi := int64(negInf), int64(posInf)
	found := false
	for c := b; c != nil; c = c.Idom() {
		d := c.Idom()
		if d == nil {
			break
		}
		if len(c.Preds) != 1 || c.Preds[0] != d || len(d.Succs) != 2 {
			continue
		}
		cond, ok := ifCondOf(d).(*ssa.BinOp)
		if !ok {
			continue
		}
		op := cond.Op
		switch op {
		case token.LSS, token.LEQ, token.GTR, token.GEQ:
		default:
			continue
		}
		if d.Succs[0] != c {
			op = negate(op)
		}
		var same bool
		if e.sameValue(s, cond.X, x.X, c, b) && e.sameValue(s, cond.Y, x.Y, c, b) {
			same = true
		} else if e.sameValue(s, cond.X, x.Y, c, b) && e.sameValue(s, cond.Y, x.X, c, b) {
			same = true
			op = flip(op)
		}
		if !same {
			continue
		}
		found = true
		switch op { // X op Y
		case token.LSS:
			hi = minI(hi, -1)
		case token.LEQ:
			hi = minI(hi, 0)
		case token.GTR:
			lo = maxI(lo, 1)
		case token.GEQ:
			lo = maxI(lo, 0)
		}
	}
	if !found || lo > hi {
		return AV{}, false
	}
	r := Range(lo, hi)
	r.SanLo, r.SanHi = lo != negInf, hi != posInf
	return r, true
}

// definedBefore: v is available on entry to every predecessor of b (parameter, or defined in a
// block that strictly dominates b).
func definedBefore(v ssa.Value, b *ssa.BasicBlock) bool {
	switch x := v.(type) {
	case *ssa.Parameter, *ssa.FreeVar, *ssa.Const:
		return true
	case ssa.Instruction:
		return x.Block() != b && x.Block().Dominates(b)
	}
	return false
}

func (e *Engine) atEdge2(s *fstate, v ssa.Value, pred, succ *ssa.BasicBlock, depth int) AV {
	r := e.at(s, v, pred, depth)
	if len(pred.Succs) == 2 {
		if cond := ifCondOf(pred); cond != nil && pred.Succs[0] != pred.Succs[1] {
			r = e.applyCond(s, r, v, cond, pred.Succs[0] == succ, pred, succ, succ, depth)
		}
	}
	return r
}

// atEdge: value of v flowing along the CFG edge pred -> succ.
func (e *Engine) atEdge(s *fstate, v ssa.Value, pred, succ *ssa.BasicBlock) AV {
	r := e.at(s, v, pred, 1)
	if len(pred.Succs) == 2 {
		if cond := ifCondOf(pred); cond != nil && pred.Succs[0] != pred.Succs[1] {
			r = e.applyCond(s, r, v, cond, pred.Succs[0] == succ, pred, succ, succ, 1)
		}
	}
	return r
}

func negate(op token.Token) token.Token {
	switch op {
	case token.LSS:
		return token.GEQ
	case token.LEQ:
		return token.GTR
	case token.GTR:
		return token.LEQ
	case token.GEQ:
		return token.LSS
	case token.EQL:
		return token.NEQ
	case token.NEQ:
		return token.EQL
	}
	return op
}

func flip(op token.Token) token.Token {
	switch op {
	case token.LSS:
		return token.GTR
	case token.LEQ:
		return token.GEQ
	case token.GTR:
		return token.LSS
	case token.GEQ:
		return token.LEQ
	}
	return op
}

// applyCond refines r (the value of v) knowing that cond evaluated to `branch` in block d, the
// edge leading to block c, for a use in block b.
func (e *Engine) applyCond(s *fstate, r AV, v ssa.Value, cond ssa.Value, branch bool, d, c, b *ssa.BasicBlock, depth int) AV {
	// a validity helper: if !validSelectors(td, ta) { return err } / if err := check(w, h); err != nil { return err }
	if call, ridx, wantOnTrue, ok := outcomeOfCond(cond); ok {
		sc := call.Call.StaticCallee()
		if sc == nil || call.Call.IsInvoke() || len(call.Call.Args) != len(sc.Params) || !isIntType(v.Type()) {
			return r
		}
		cs := e.outcomeConstraints(sc, ridx, wantOnTrue == branch)
		for i, a := range call.Call.Args {
			if i < len(cs) && isIntType(a.Type()) && !cs[i].IsBottom() && e.sameValue(s, v, a, c, b) {
				m := meetAV(r, cs[i])
				if m.IsBottom() {
					continue
				}
				m.Taint = r.Taint
				m.Raw = r.Raw
				m.Exact = r.Exact && cs[i].Exact
				if !cs[i].SanLo && !cs[i].SanHi && e.opaqueParam(sc, i) {
					// the checker looks at the value in a way that is not followed (copied into an array
					// it loops over, handed to further code): some test was applied, which one is unknown
					m.SanLo, m.SanHi, m.Exact = true, true, false
				}
				r = m
				continue
			}
			// the value travels inside a struct built for the checker: args := T{..., width, ...};
			// if err := args.validate(); err != nil { ... }
			if e.carriedInStruct(s, v, a, c, b) {
				r.SanLo, r.SanHi, r.Exact = true, true, false
			}
		}
		return r
	}
	switch x := cond.(type) {
	case *ssa.UnOp:
		if x.Op == token.NOT {
			return e.applyCond(s, r, v, x.X, !branch, d, c, b, depth)
		}
	case *ssa.BinOp:
		op := x.Op
		switch op {
		case token.LSS, token.LEQ, token.GTR, token.GEQ, token.EQL, token.NEQ:
		default:
			return r
		}
		if !isIntType(x.X.Type()) {
			return r
		}
		if !branch {
			op = negate(op)
		}
		if e.sameValue(s, v, x.X, c, b) {
			other := e.at(s, x.Y, d, depth+1)
			return refineCmp(r, op, other)
		}
		if e.sameValue(s, v, x.Y, c, b) {
			other := e.at(s, x.X, d, depth+1)
			return refineCmp(r, flip(op), other)
		}
		// min(a, b, …) > k  =>  every argument > k;   max(a, b, …) < k  =>  every argument < k
		for side, opnd := range []ssa.Value{x.X, x.Y} {
			call, ok := e.stripWiden(opnd).(*ssa.Call)
			if !ok {
				continue
			}
			bi, ok := call.Call.Value.(*ssa.Builtin)
			if !ok || (bi.Name() != "min" && bi.Name() != "max") {
				continue
			}
			o := op
			other := x.Y
			if side == 1 {
				o, other = flip(op), x.X
			}
			lower := o == token.GTR || o == token.GEQ
			upper := o == token.LSS || o == token.LEQ
			if !(bi.Name() == "min" && lower) && !(bi.Name() == "max" && upper) {
				continue
			}
			for _, a := range call.Call.Args {
				if e.sameValue(s, v, a, c, b) {
					return refineCmp(r, o, e.at(s, other, d, depth+1))
				}
			}
		}
	}
	return r
}

// refineCmp: knowing (v op other).
func refineCmp(r AV, op token.Token, other AV) AV {
	if other.IsBottom() || r.IsBottom() {
		return r
	}
	k, isConst := isPoint(other)
	var out AV
	switch op {
	case token.LSS:
		if other.Hi() == posInf {
			return markSan(r, false, true, other)
		}
		out = r.Meet(negInf, other.Hi()-1)
	case token.LEQ:
		if other.Hi() == posInf {
			return markSan(r, false, true, other)
		}
		out = r.Meet(negInf, other.Hi())
	case token.GTR:
		if other.Lo() == negInf {
			return markSan(r, true, false, other)
		}
		out = r.Meet(other.Lo()+1, posInf)
	case token.GEQ:
		if other.Lo() == negInf {
			return markSan(r, true, false, other)
		}
		out = r.Meet(other.Lo(), posInf)
	case token.EQL:
		out = r.Meet(other.Lo(), other.Hi())
		if isConst {
			out.Exact = true
		}
	case token.NEQ:
		if isConst {
			return r.Remove(k)
		}
		return r
	default:
		return r
	}
	if !isConst {
		// a bound that is itself a range does not keep every remaining value producible
		out.Exact = false
	}
	return out
}

// markSan: a comparison against an unbounded quantity (len, another variable) still counts as a
// limit having been applied on that side.
func markSan(r AV, lo, hi bool, other AV) AV {
	if lo {
		r.SanLo = true
	}
	if hi {
		r.SanHi = true
	}
	return r
}

// sameValue: do v and w denote the same runtime value at the use in block b (guard edge enters c)?
// stripWiden removes value-preserving integer conversions (uint8 -> int, ...): a test of int(x) is a
// test of x.
func (e *Engine) stripWiden(v ssa.Value) ssa.Value {
	for {
		switch x := v.(type) {
		case *ssa.ChangeType:
			if isIntType(x.X.Type()) && isIntType(x.Type()) {
				v = x.X
				continue
			}
		case *ssa.Convert:
			if isIntType(x.X.Type()) && isIntType(x.Type()) {
				lo1, hi1, _, _, ok1 := e.typeRange(x.X.Type())
				lo2, hi2, _, _, ok2 := e.typeRange(x.Type())
				if ok1 && ok2 && lo2 <= lo1 && hi1 <= hi2 {
					v = x.X
					continue
				}
			}
		}
		return v
	}
}

func (e *Engine) sameValue(s *fstate, v, w ssa.Value, c, b *ssa.BasicBlock) bool {
	if v == w {
		return true
	}
	v, w = e.stripWiden(v), e.stripWiden(w)
	if v == w {
		return true
	}
	lv, ok1 := v.(*ssa.UnOp)
	lw, ok2 := w.(*ssa.UnOp)
	if !ok1 || !ok2 || lv.Op != token.MUL || lw.Op != token.MUL {
		return false
	}
	switch av := lv.X.(type) {
	case *ssa.FieldAddr:
		aw, ok := lw.X.(*ssa.FieldAddr)
		if !ok || av.Field != aw.Field || !sameObject(av.X, aw.X) {
			return false
		}
		k, ok := fieldKeyOfAddr(av)
		if !ok {
			return false
		}
		return !e.killedBetween(s, k, c, b)
	case *ssa.Alloc:
		if lw.X != av {
			return false
		}
		return !allocStoredBetween(av, c, b)
	case *ssa.IndexAddr:
		aw, ok := lw.X.(*ssa.IndexAddr)
		if !ok {
			return false
		}
		ci, ok1 := av.Index.(*ssa.Const)
		cj, ok2 := aw.Index.(*ssa.Const)
		if !ok1 || !ok2 || ci.Int64() != cj.Int64() || !sameObject(av.X, aw.X) {
			return false
		}
		// input bytes are not written by decoders (INPUT-RO); local buffers: require no store through
		// the same base in this function
		return !storesThrough(s.fn, av.X)
	}
	return false
}

func sameObject(a, b ssa.Value) bool {
	if a == b {
		return true
	}
	ua, ok1 := a.(*ssa.UnOp)
	ub, ok2 := b.(*ssa.UnOp)
	if ok1 && ok2 && ua.Op == token.MUL && ub.Op == token.MUL {
		if ua.X == ub.X {
			return true
		}
		fa, ok3 := ua.X.(*ssa.FieldAddr)
		fb, ok4 := ub.X.(*ssa.FieldAddr)
		if ok3 && ok4 && fa.Field == fb.Field && sameObject(fa.X, fb.X) {
			return true
		}
	}
	return false
}

func storesThrough(fn *ssa.Function, base ssa.Value) bool {
	for _, b := range fn.Blocks {
		for _, ins := range b.Instrs {
			if st, ok := ins.(*ssa.Store); ok {
				if ia, ok := st.Addr.(*ssa.IndexAddr); ok && sameObject(ia.X, base) {
					return true
				}
			}
		}
	}
	return false
}

// region: blocks reachable from c from which b is reachable (c and b included).
func region(c, b *ssa.BasicBlock) map[*ssa.BasicBlock]bool {
	fwd := map[*ssa.BasicBlock]bool{}
	var f func(x *ssa.BasicBlock)
	f = func(x *ssa.BasicBlock) {
		if fwd[x] {
			return
		}
		fwd[x] = true
		for _, s := range x.Succs {
			f(s)
		}
	}
	f(c)
	bwd := map[*ssa.BasicBlock]bool{}
	var g func(x *ssa.BasicBlock)
	g = func(x *ssa.BasicBlock) {
		if bwd[x] || !fwd[x] {
			return
		}
		bwd[x] = true
		if x == c {
			return
		}
		for _, p := range x.Preds {
			g(p)
		}
	}
	g(b)
	return bwd
}

// killedBetween: may field k be stored between the guard edge (entering c) and the use in b?
func (e *Engine) killedBetween(s *fstate, k fieldKey, c, b *ssa.BasicBlock) bool {
	if !s.kills[k] {
		return false
	}
	for blk := range region(c, b) {
		for _, ins := range blk.Instrs {
			switch x := ins.(type) {
			case *ssa.Store:
				if kk, ok := fieldKeyOfAddr(x.Addr); ok && kk == k {
					return true
				}
			case ssa.CallInstruction:
				for _, callee := range e.calleesOf(s.fn, x) {
					if cs := e.fs[callee]; cs != nil && cs.kills[k] {
						return true
					}
				}
			}
		}
	}
	return false
}

func allocStoredBetween(a *ssa.Alloc, c, b *ssa.BasicBlock) bool {
	if a.Referrers() == nil {
		return false
	}
	reg := region(c, b)
	for _, r := range *a.Referrers() {
		switch x := r.(type) {
		case *ssa.Store:
			if x.Addr == a && reg[x.Block()] {
				return true
			}
		case ssa.CallInstruction:
			if reg[x.Block()] {
				return true
			}
		}
	}
	return false
}

// ---------------------------------------------------------------------------------------------
// inlining of small loop-free helpers

type inlineKey struct {
	fn   *ssa.Function
	args string
}

func (e *Engine) inlineable(fn *ssa.Function) bool {
	if fn.Blocks == nil || len(fn.Blocks) > 14 || len(fn.FreeVars) > 0 {
		return false
	}
	n := 0
	for _, b := range fn.Blocks {
		for _, s := range b.Succs {
			if s.Dominates(b) {
				return false // loop
			}
		}
		for _, ins := range b.Instrs {
			n++
			switch x := ins.(type) {
			case *ssa.Call:
				if _, ok := x.Call.Value.(*ssa.Builtin); !ok {
					return false
				}
			case *ssa.Store, *ssa.MapUpdate, *ssa.Go, *ssa.Defer, *ssa.Panic:
				return false
			case *ssa.UnOp:
				if x.Op == token.MUL {
					return false // reads memory: keep the summary
				}
			}
		}
	}
	return n <= 80
}

var inlineDepth int

func (e *Engine) inline(s *fstate, c *ssa.Call, callee *ssa.Function, b *ssa.BasicBlock, idx int) (AV, bool) {
	if inlineDepth > 1 || !e.inlineable(callee) {
		return AV{}, false
	}
	cc := c.Common()
	if cc.IsInvoke() || len(cc.Args) != len(callee.Params) {
		return AV{}, false
	}
	tmp := &fstate{fn: callee, vals: map[ssa.Value]AV{}, visits: map[ssa.Value]int{}, atMemo: map[atKey]AV{}, params: make([]AV, len(callee.Params)), thr: nil, kills: map[fieldKey]bool{}, seeded: true}
	var sb strings.Builder
	for i, a := range cc.Args {
		if isIntType(a.Type()) {
			tmp.params[i] = e.at(s, a, b, 2)
			if tmp.params[i].IsBottom() {
				return Bottom(), true
			}
		} else {
			tmp.params[i] = e.top(a.Type())
		}
		fmt.Fprintf(&sb, "%v|", tmp.params[i])
	}
	inlineDepth++
	defer func() { inlineDepth-- }()
	for _, blk := range callee.DomPreorder() {
		for _, ins := range blk.Instrs {
			if v, ok := ins.(ssa.Value); ok && isIntType(v.Type()) {
				tmp.vals[v] = e.transfer(tmp, v, blk)
			}
		}
	}
	r := Bottom()
	i := idx
	if i < 0 {
		i = 0
	}
	for _, blk := range callee.Blocks {
		for _, ins := range blk.Instrs {
			if ret, ok := ins.(*ssa.Return); ok && i < len(ret.Results) {
				r = Join(r, e.at(tmp, ret.Results[i], blk, 0))
			}
		}
	}
	return r, true
}

type outcomeKey struct {
	fn   *ssa.Function
	ridx int
	want bool
}

func isBoolType(t types.Type) bool {
	bt, ok := t.Underlying().(*types.Basic)
	return ok && bt.Kind() == types.Bool
}

func isErrorType(t types.Type) bool { return t.String() == "error" }

// outcomeConstraints: the ranges the integer parameters of fn must lie in whenever its result
// ridx is `want` — for a bool result its value, for an error result want=true means nil. The
// parameters are SSA values, so every comparison on an edge dominating such a return is a fact about
// the arguments. nil if the result is neither bool nor error or fn has no body.
func (e *Engine) outcomeConstraints(fn *ssa.Function, ridx int, want bool) []AV {
	k := outcomeKey{fn, ridx, want}
	if r, ok := e.outcomeMemo[k]; ok {
		return r
	}
	if e.outcomeMemo == nil {
		e.outcomeMemo = map[outcomeKey][]AV{}
	}
	e.outcomeMemo[k] = nil
	res := fn.Signature.Results()
	if fn.Blocks == nil || len(fn.Blocks) > 120 || ridx < 0 || ridx >= res.Len() || len(fn.FreeVars) > 0 {
		return nil
	}
	rt := res.At(ridx).Type()
	isErr := isErrorType(rt)
	if !isErr && !isBoolType(rt) {
		return nil
	}
	anyInt := false
	for _, p := range fn.Params {
		if isIntType(p.Type()) {
			anyInt = true
		}
	}
	if !anyInt {
		return nil
	}
	tmp := &fstate{fn: fn, vals: map[ssa.Value]AV{}, visits: map[ssa.Value]int{}, atMemo: map[atKey]AV{}, params: make([]AV, len(fn.Params)), kills: map[fieldKey]bool{}, seeded: true, thr: thresholdsOf(fn)}
	if real := e.fs[fn]; real != nil {
		tmp.kills = real.kills
		tmp.stores = real.stores
	}
	for i, p := range fn.Params {
		// a neutral seed: nothing is known and nothing has been limited yet; every value is possible.
		// Whatever limits and exclusions the result carries were applied by fn itself.
		a := e.top(p.Type())
		a.SanLo, a.SanHi, a.Exact = false, false, true
		tmp.params[i] = a
	}
	e.iterate(tmp)
	out := make([]AV, len(fn.Params))
	for i := range out {
		out[i] = Bottom()
	}
	// contribute: on reaching block `at` (optionally along edge from->at) with result value rv
	var contribute func(rv ssa.Value, at *ssa.BasicBlock, edgeFrom *ssa.BasicBlock, depth int)
	contribute = func(rv ssa.Value, at *ssa.BasicBlock, edgeFrom *ssa.BasicBlock, depth int) {
		paramAt := func(i int) AV {
			p := fn.Params[i]
			if edgeFrom != nil {
				return e.atEdge(tmp, p, edgeFrom, at)
			}
			return e.at(tmp, p, at, 1)
		}
		all := func() {
			for i, p := range fn.Params {
				if isIntType(p.Type()) {
					out[i] = Join(out[i], paramAt(i))
				}
			}
		}
		if depth > 6 {
			all()
			return
		}
		if isErr {
			switch x := rv.(type) {
			case *ssa.Const:
				if x.IsNil() == want {
					all()
				}
				return
			case *ssa.Phi:
				for ei, ed := range x.Edges {
					contribute(ed, x.Block(), x.Block().Preds[ei], depth+1)
				}
				return
			}
			if nonNilError(rv, at, 0) {
				if !want {
					all()
				}
				return
			}
			all() // unknown: may be either
			return
		}
		switch x := rv.(type) {
		case *ssa.Const:
			if (x.Value != nil && x.Value.String() == "true") != want {
				return
			}
			all()
		case *ssa.Phi:
			for ei, ed := range x.Edges {
				contribute(ed, x.Block(), x.Block().Preds[ei], depth+1)
			}
		case *ssa.UnOp:
			if x.Op == token.NOT {
				for i, p := range fn.Params {
					if isIntType(p.Type()) {
						v := paramAt(i)
						v = e.applyCond(tmp, v, p, x.X, !want, x.Block(), at, at, 1)
						out[i] = Join(out[i], v)
					}
				}
				return
			}
			all()
		case *ssa.BinOp, *ssa.Call, *ssa.Extract:
			for i, p := range fn.Params {
				if isIntType(p.Type()) {
					v := paramAt(i)
					v = e.applyCond(tmp, v, p, x, want, x.(ssa.Instruction).Block(), at, at, 1)
					out[i] = Join(out[i], v)
				}
			}
		default:
			all()
		}
	}
	for _, blk := range fn.Blocks {
		if len(blk.Instrs) == 0 {
			continue
		}
		if ret, ok := blk.Instrs[len(blk.Instrs)-1].(*ssa.Return); ok && ridx < len(ret.Results) {
			contribute(ret.Results[ridx], blk, nil, 0)
		}
	}
	e.outcomeMemo[k] = out
	return out
}

// opaqueParam: integer parameter i of fn is stored to memory (an array / struct the function then
// works on) or handed to further in-scope code: fn may test it in ways the engine does not follow.
func (e *Engine) opaqueParam(fn *ssa.Function, i int) bool {
	if i >= len(fn.Params) || fn.Params[i].Referrers() == nil {
		return false
	}
	p := fn.Params[i]
	for _, r := range *p.Referrers() {
		switch x := r.(type) {
		case *ssa.Store:
			if x.Val == ssa.Value(p) {
				return true
			}
		case *ssa.Call:
			if sc := x.Call.StaticCallee(); sc != nil && sc.Blocks != nil && sc.Pkg != nil && fn.Pkg != nil {
				pk := sc.Pkg.Pkg.Path()
				if pk != "fmt" && pk != "errors" {
					return true
				}
			}
		}
	}
	return false
}

// carriedInStruct: call argument a is (a pointer to / the value of) a local struct into one of
// whose fields the value v was stored before the call.
func (e *Engine) carriedInStruct(s *fstate, v, a ssa.Value, c, b *ssa.BasicBlock) bool {
	var al *ssa.Alloc
	switch x := a.(type) {
	case *ssa.Alloc:
		al = x
	case *ssa.UnOp:
		if x.Op == token.MUL {
			al, _ = x.X.(*ssa.Alloc)
		}
	}
	if al == nil || al.Referrers() == nil || namedStruct(al.Type()) == nil {
		return false
	}
	// the value is read back out of the checked struct: spec := T{…}; if err := spec.validate(); …; use(spec.width)
	// — only when the checker received the struct by value (it cannot have written the caller's copy;
	// a method with a pointer receiver may be the one that assigns the field)
	if _, byValue := a.(*ssa.UnOp); !byValue {
		// fall through to the stored-value test below
	} else if ld, ok := v.(*ssa.UnOp); ok && ld.Op == token.MUL {
		if fa, ok := ld.X.(*ssa.FieldAddr); ok && fa.X == ssa.Value(al) {
			return true
		}
	}
	for _, r := range *al.Referrers() {
		fa, ok := r.(*ssa.FieldAddr)
		if !ok || fa.Referrers() == nil {
			continue
		}
		for _, u := range *fa.Referrers() {
			if st, ok := u.(*ssa.Store); ok && st.Addr == ssa.Value(fa) && isIntType(st.Val.Type()) && e.sameValue(s, v, st.Val, c, b) {
				return true
			}
		}
	}
	return false
}

// outcomeOfCond: is cond a test of the outcome of a static call — a bool result used directly,
// or an error result compared with nil? Returns the call, the result index and the outcome that
// holds when cond is true.
// OutcomeOfCond is outcomeOfCond for the rules outside the engine.
func OutcomeOfCond(cond ssa.Value) (*ssa.Call, int, bool, bool) { return outcomeOfCond(cond) }

func outcomeOfCond(cond ssa.Value) (call *ssa.Call, ridx int, wantOnTrue bool, ok bool) {
	resolve := func(v ssa.Value) (*ssa.Call, int, bool) {
		switch y := v.(type) {
		case *ssa.Call:
			if _, isTuple := y.Type().(*types.Tuple); isTuple {
				return nil, 0, false
			}
			return y, 0, true
		case *ssa.Extract:
			if c, ok := y.Tuple.(*ssa.Call); ok {
				return c, y.Index, true
			}
		}
		return nil, 0, false
	}
	switch x := cond.(type) {
	case *ssa.Call, *ssa.Extract:
		if !isBoolType(x.Type()) {
			return nil, 0, false, false
		}
		c, i, ok := resolve(x)
		return c, i, true, ok
	case *ssa.BinOp:
		if x.Op != token.EQL && x.Op != token.NEQ {
			return nil, 0, false, false
		}
		v, other := x.X, x.Y
		if k, isK := v.(*ssa.Const); isK && k.IsNil() {
			v, other = other, v
		}
		k, isK := other.(*ssa.Const)
		if !isK || !k.IsNil() || !isErrorType(v.Type()) {
			return nil, 0, false, false
		}
		c, i, ok := resolve(v)
		return c, i, x.Op == token.EQL, ok
	}
	return nil, 0, false, false
}
