// Package report implements the obligation / verdict protocol of DESIGN §3.1:
// obligations keyed by (property, rule, function, construct), known-findings
// handling, evidence files and per-violation replay reports.
package report

import (
	"crypto/sha1"
	"encoding/json"
	"fmt"
	"os"
	"path/filepath"
	"sort"
	"strings"
	"time"
)

type Status string

const (
	Discharged Status = "discharged"
	Violated   Status = "violated"
	OutOfScope Status = "out-of-scope"
)

// Obligation is one instance of a rule on one construct.
type Obligation struct {
	Property  string   `json:"property"`
	Rule      string   `json:"rule"`
	Func      string   `json:"function"`
	Construct string   `json:"construct"`
	Status    Status   `json:"status"`
	Pos       string   `json:"pos"`
	Detail    string   `json:"detail,omitempty"`
	Witness   []string `json:"witness,omitempty"`
	Control   bool     `json:"control,omitempty"` // lives in a positive-control package
}

// Key is the stable identity (no line numbers).
func (o *Obligation) Key() string {
	return o.Rule + " | " + o.Func + " | " + o.Construct
}

// KnownFinding as committed in known_findings.json.
type KnownFinding struct {
	Property string `json:"property"`
	Key      string `json:"key"`
	What     string `json:"what"`
	Status   string `json:"status"` // "known" or "fixed"
	Commit   string `json:"commit,omitempty"`
}

type KnownFile struct {
	Findings []KnownFinding `json:"findings"`
}

// Collector accumulates obligations for one property run.
type Collector struct {
	Property         string
	Obls             []*Obligation
	Notes            []string
	Counters         map[string]int
	Floors           map[string][2]int // rule -> [found, floor]
	Fatal            []string          // exit-2 conditions (anchor unresolved, control silent, floor)
	ExpectedControls map[string]bool   // rule -> must have a violated control obligation
	bulk             map[string][2]int // rule -> [discharged, out-of-scope] counted without individual records
}

// Bulk counts obligations that were decided without keeping an individual record
// (used for the thousands of store sites whose base is a fresh object).
func (c *Collector) Bulk(rule string, discharged, outOfScope int) {
	if c.bulk == nil {
		c.bulk = map[string][2]int{}
	}
	b := c.bulk[rule]
	b[0] += discharged
	b[1] += outOfScope
	c.bulk[rule] = b
}

func NewCollector(prop string) *Collector {
	return &Collector{Property: prop, Counters: map[string]int{}, Floors: map[string][2]int{}, ExpectedControls: map[string]bool{}}
}

func (c *Collector) Add(o *Obligation) {
	o.Property = c.Property
	c.Obls = append(c.Obls, o)
}

func (c *Collector) Note(format string, a ...any) {
	c.Notes = append(c.Notes, fmt.Sprintf(format, a...))
}

func (c *Collector) Fatalf(format string, a ...any) {
	c.Fatal = append(c.Fatal, fmt.Sprintf(format, a...))
}

// Floor registers an instance-count floor: found must be >= floor.
func (c *Collector) Floor(rule string, found, floor int) {
	c.Floors[rule] = [2]int{found, floor}
	if found < floor {
		c.Fatalf("instance floor: rule %s found %d instances, floor is %d (rule would pass vacuously)", rule, found, floor)
	}
}

// ExpectControl states that rule must report at least one violated obligation inside a control package.
func (c *Collector) ExpectControl(rule string) { c.ExpectedControls[rule] = true }

type ruleStat struct {
	Generated  int `json:"generated"`
	Discharged int `json:"discharged"`
	Violated   int `json:"violated"`
	OutOfScope int `json:"out_of_scope"`
	Controls   int `json:"controls_fired"`
}

// Finish prints verdict lines, writes evidence and reports, returns the exit code.
func (c *Collector) Finish(verifDir, tier string, seed int, wall time.Duration, explanation string, trusted []string, assumptions []string, extra map[string]any) int {
	sort.SliceStable(c.Obls, func(i, j int) bool {
		if c.Obls[i].Rule != c.Obls[j].Rule {
			return c.Obls[i].Rule < c.Obls[j].Rule
		}
		return c.Obls[i].Key() < c.Obls[j].Key()
	})
	known := map[string]KnownFinding{}
	var kf KnownFile
	if b, err := os.ReadFile(filepath.Join(verifDir, "known_findings.json")); err == nil {
		if err := json.Unmarshal(b, &kf); err != nil {
			c.Fatalf("known_findings.json unreadable: %v", err)
		}
		for _, f := range kf.Findings {
			if f.Property == c.Property && f.Status == "known" {
				known[f.Key] = f
			}
		}
	}
	stats := map[string]*ruleStat{}
	st := func(r string) *ruleStat {
		if stats[r] == nil {
			stats[r] = &ruleStat{}
		}
		return stats[r]
	}
	repDir := filepath.Join(verifDir, "reports", c.Property)
	os.RemoveAll(repDir)
	os.MkdirAll(repDir, 0o755)
	nviol, nknown := 0, 0
	controlFired := map[string]bool{}
	seenKnown := map[string]bool{}
	var lines []string
	var violSamples []any
	for _, o := range c.Obls {
		if o.Control {
			if o.Status == Violated {
				controlFired[o.Rule] = true
				st(o.Rule).Controls++
			}
			continue
		}
		s := st(o.Rule)
		s.Generated++
		switch o.Status {
		case Discharged:
			s.Discharged++
		case OutOfScope:
			s.OutOfScope++
		case Violated:
			s.Violated++
			if k, ok := known[o.Key()]; ok {
				nknown++
				if !seenKnown[o.Key()] {
					seenKnown[o.Key()] = true
					lines = append(lines, fmt.Sprintf("KNOWN-FINDING: property=%s %s (%s) — %s", c.Property, o.Key(), o.Pos, k.What))
				}
				continue
			}
			nviol++
			h := sha1.Sum([]byte(o.Key()))
			path := filepath.Join(repDir, fmt.Sprintf("%s-%x.json", sanitize(o.Rule), h[:6]))
			b, _ := json.MarshalIndent(o, "", " ")
			os.WriteFile(path, b, 0o644)
			lines = append(lines, fmt.Sprintf("VIOLATION property=%s replay=%s", c.Property, path))
			lines = append(lines, fmt.Sprintf("  rule=%s at %s in %s: %s — %s", o.Rule, o.Pos, o.Func, o.Construct, o.Detail))
			if len(violSamples) < 10 {
				violSamples = append(violSamples, o)
			}
		}
	}
	for r, b := range c.bulk {
		s := st(r)
		s.Generated += b[0] + b[1]
		s.Discharged += b[0]
		s.OutOfScope += b[1]
	}
	for r := range c.ExpectedControls {
		if !controlFired[r] {
			c.Fatalf("positive control for rule %s did not fire (rule is not working)", r)
		}
	}
	// samples: a few obligations of each status per rule
	var samples []any
	perRule := map[string]int{}
	for _, o := range c.Obls {
		k := o.Rule + "/" + string(o.Status)
		if o.Control {
			k += "/control"
		}
		if perRule[k] < 2 {
			perRule[k]++
			samples = append(samples, o)
		}
	}
	samples = append(samples, violSamples...)
	total, disch, oos := 0, 0, 0
	for _, s := range stats {
		total += s.Generated
		disch += s.Discharged
		oos += s.OutOfScope
	}
	cov := map[string]any{
		"explanation":     explanation,
		"obligations":     total,
		"discharged":      disch,
		"out_of_scope":    oos,
		"violated_total":  nviol + nknown,
		"known_findings":  nknown,
		"per_rule":        stats,
		"instance_floors": c.Floors,
		"controls_fired":  keys(controlFired),
		"samples":         samples,
		"notes":           c.Notes,
		"trusted_base":    trusted,
		"checker_cmd":     "bin/dcmcheck -prop " + c.Property + " -tier " + tier,
		"exhaustive":      true,
		"fatal":           c.Fatal,
	}
	for k, v := range extra {
		cov[k] = v
	}
	if assumptions == nil {
		assumptions = []string{}
	}
	if trusted == nil {
		trusted = []string{}
	}
	ev := map[string]any{
		"property_id": c.Property,
		"tier":        tier,
		"seed":        seed,
		"level":       "other",
		"coverage":    cov,
		"assumptions": assumptions,
		"wall_s":      wall.Seconds(),
		"violations":  nviol,
	}
	os.MkdirAll(filepath.Join(verifDir, "evidence"), 0o755)
	b, _ := json.MarshalIndent(ev, "", " ")
	if err := os.WriteFile(filepath.Join(verifDir, "evidence", c.Property+".json"), b, 0o644); err != nil {
		c.Fatalf("cannot write evidence: %v", err)
	}
	for _, l := range lines {
		fmt.Println(l)
	}
	var rs []string
	for r := range stats {
		rs = append(rs, r)
	}
	sort.Strings(rs)
	for _, r := range rs {
		s := stats[r]
		fmt.Printf("rule %-28s generated=%d discharged=%d violated=%d out-of-scope=%d controls-fired=%d\n", r, s.Generated, s.Discharged, s.Violated, s.OutOfScope, s.Controls)
	}
	for _, f := range c.Fatal {
		fmt.Printf("CHECK-ERROR property=%s %s\n", c.Property, f)
	}
	if nviol > 0 {
		return 1
	}
	if len(c.Fatal) > 0 {
		return 2
	}
	fmt.Printf("OK property=%s obligations=%d discharged=%d out-of-scope=%d known-findings=%d wall=%.1fs\n", c.Property, total, disch, oos, nknown, wall.Seconds())
	return 0
}

func keys(m map[string]bool) []string {
	var out []string
	for k := range m {
		out = append(out, k)
	}
	sort.Strings(out)
	return out
}

func sanitize(s string) string {
	return strings.Map(func(r rune) rune {
		if r >= 'a' && r <= 'z' || r >= 'A' && r <= 'Z' || r >= '0' && r <= '9' || r == '-' || r == '_' {
			return r
		}
		return '_'
	}, s)
}
