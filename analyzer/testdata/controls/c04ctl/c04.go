// Package c04ctl holds positive controls for EXHAUST-PROG (C04/C19) and FLOWS-TILEIDX (C19).
package c04ctl

import (
	"bytes"
	"encoding/binary"
	"fmt"

	"github.com/cocosip/go-dicom-codecs/jpeg2000/t2"
)

// Describe forgets ProgressionPCRL and ProgressionCPRL: EXHAUST-PROG control.
func Describe(p t2.ProgressionOrder) (string, error) {
	switch p {
	case t2.ProgressionLRCP:
		return "layer first", nil
	case t2.ProgressionRLCP:
		return "resolution first", nil
	case t2.ProgressionRPCL:
		return "resolution, position", nil
	default:
		return "", fmt.Errorf("unsupported progression %d", p)
	}
}

// WriteTileParts writes every tile-part with Isot 0: FLOWS-TILEIDX control.
func WriteTileParts(buf *bytes.Buffer, tiles [][]byte) {
	for _, data := range tiles {
		_ = binary.Write(buf, binary.BigEndian, uint16(0xFF90))
		_ = binary.Write(buf, binary.BigEndian, uint16(10))
		_ = binary.Write(buf, binary.BigEndian, uint16(0))
		_ = binary.Write(buf, binary.BigEndian, uint32(len(data)+14))
		_ = binary.Write(buf, binary.BigEndian, uint8(0))
		_ = binary.Write(buf, binary.BigEndian, uint8(1))
		_ = binary.Write(buf, binary.BigEndian, uint16(0xFF93))
		buf.Write(data)
	}
}
