// Package c05ctl holds positive controls for FLOWS-LOSSLESS / FLOWS-HTFACTORY (C05, C06).
package c05ctl

import (
	"github.com/cocosip/go-dicom-codecs/jpeg2000"
	"github.com/cocosip/go-dicom/pkg/dicom/transfer"
	"github.com/cocosip/go-dicom/pkg/imaging/codec"
	"github.com/cocosip/go-dicom/pkg/imaging/imagetypes"
)

// LeakyCodec is registered under a lossless-only syntax but lets a parameter pick the lossy path.
type LeakyCodec struct{ lossless bool }

func NewLeakyCodec() *LeakyCodec { return &LeakyCodec{lossless: true} }

func (c *LeakyCodec) Name() string                            { return "leaky" }
func (c *LeakyCodec) TransferSyntax() *transfer.Syntax        { return transfer.HTJ2KLossless }
func (c *LeakyCodec) GetDefaultParameters() codec.Parameters { return nil }

func (c *LeakyCodec) Encode(oldPixelData, newPixelData imagetypes.PixelData, parameters codec.Parameters) error {
	fi := oldPixelData.GetFrameInfo()
	p := jpeg2000.DefaultEncodeParams(int(fi.Width), int(fi.Height), int(fi.SamplesPerPixel), int(fi.BitsStored), false)
	if parameters != nil {
		if v, ok := parameters.GetParameter("irreversible").(bool); ok {
			p.Lossless = !v // FLOWS-LOSSLESS control: a parameter can flip the lossless-only syntax to lossy
		}
	}
	// FLOWS-HTFACTORY control: HT mode without the HT block coder
	p.HTJ2KMode = true
	enc := jpeg2000.NewEncoder(p)
	n := oldPixelData.FrameCount()
	for i := 0; i < n; i++ {
		f, err := oldPixelData.GetFrame(i)
		if err != nil {
			return err
		}
		out, err := enc.Encode(f)
		if err != nil {
			return err
		}
		if err := newPixelData.AddFrame(out); err != nil {
			return err
		}
	}
	return nil
}

func (c *LeakyCodec) Decode(oldPixelData, newPixelData imagetypes.PixelData, parameters codec.Parameters) error {
	return nil
}

// Register registers the control codec under a lossless-only transfer syntax.
func Register() {
	codec.GetGlobalRegistry().RegisterCodec(transfer.HTJ2KLossless, NewLeakyCodec())
}
