// Package c08ctl holds positive controls for the range rules of C08 / C17: one deliberate,
// stream-controlled violation per obligation class, plus guarded twins that must be discharged.
package c08ctl

import "errors"

var errBad = errors.New("bad stream")

type table struct{ v [16]int }

type decoder struct {
	tables [4]*table
	qt     [4][64]int32
	width  int
	mcu    int // assigned only by parseFrame
	sel    int
}

func (d *decoder) parseFrame(data []byte) error {
	if len(data) < 4 {
		return errBad
	}
	d.width = int(data[0])<<8 | int(data[1])
	d.mcu = int(data[2]&3+1) * 8
	return nil
}

func (d *decoder) parseScan(data []byte) error {
	if len(data) < 2 {
		return errBad
	}
	d.sel = int(data[0] >> 4) // 0..15 into [4]: IDX control (no check)
	return nil
}

// Decode is a decoding entry point (package-level Decode* taking []byte).
func Decode(data []byte) (int, error) {
	d := &decoder{}
	if len(data) < 8 {
		return 0, errBad
	}
	if data[0] == 1 {
		if err := d.parseFrame(data[1:]); err != nil {
			return 0, err
		}
	}
	if err := d.parseScan(data[4:]); err != nil {
		return 0, err
	}
	t := d.tables[d.sel] // IDX: violated
	good := int(data[5] & 3)
	_ = d.tables[good] // IDX: discharged (mask)
	cols := d.width / d.mcu // DIV: violated (zero default of a field set by a skippable step)
	n := int(data[6])<<8 | int(data[7])
	buf := make([]byte, n-3) // MAKE: violated (exactly [-3,65532])
	shift := int(int8(data[6]))
	v := 1 << shift // SHIFT: violated (signed count, exactly [-128,127])
	var x interface{} = t
	if data[7] == 9 {
		_ = x.(*decoder) // ASSERT: violated
		panic("unreachable?") // PANIC: violated
	}
	return cols + len(buf) + v, nil
}

// DecodeGuarded has the same shapes with the guards in place: everything must be discharged.
func DecodeGuarded(data []byte) (int, error) {
	d := &decoder{}
	if len(data) < 8 {
		return 0, errBad
	}
	sel := int(data[4] >> 4)
	if sel > 3 {
		return 0, errBad
	}
	_ = d.tables[sel]
	mcu := int(data[2]&3+1) * 8
	cols := (int(data[0])<<8 | int(data[1])) / mcu
	n := int(data[6])<<8 | int(data[7])
	if n < 3 {
		return 0, errBad
	}
	buf := make([]byte, n-3)
	shift := uint(data[6] & 7)
	return cols + len(buf) + 1<<shift, nil
}

func segment(data []byte) []byte {
	if len(data) < 2 {
		return nil
	}
	n := int(data[0])
	if n > len(data)-1 {
		n = len(data) - 1
	}
	return data[1 : 1+n]
}

// DecodeSegment indexes a stream segment with constants: SLICE-CONST controls.
func DecodeSegment(data []byte) (int, error) {
	seg := segment(data)
	a := int(seg[3]) // SLICE-CONST: violated (no length test of seg dominates)
	other := segment(data)
	if len(other) < 6 {
		return 0, errBad
	}
	b := int(other[5]) // SLICE-CONST: discharged
	return a + b, nil
}

// DecodeTable sizes a lookup table as 2^(header byte): exponential-allocation control (MAKE).
func DecodeTable(data []byte) ([]int8, error) {
	if len(data) < 2 {
		return nil, errBad
	}
	precision := int(data[0])
	table := make([]int8, 2<<uint(precision))
	return table, nil
}

// trailer reads a two-byte locator from the end of a block: SLICE-LENREL controls.
func trailer(block []byte) int {
	n := len(block)
	return int(block[n-1])<<4 | int(block[n-2]&0x0F) // SLICE-LENREL: block[len-2] violated via DecodeBlock (only len >= 1 established)
}

// DecodeBlock is an exported entry point that only rejects the empty block.
func DecodeBlock(block []byte) (int, error) {
	if len(block) == 0 {
		return 0, errBad
	}
	return trailer(block), nil
}

// DecodeBlockChecked establishes the length the trailer needs before reading it.
func DecodeBlockChecked(block []byte) (int, error) {
	if len(block) < 2 {
		return 0, errBad
	}
	n := len(block)
	return int(block[n-1])<<4 | int(block[n-2]&0x0F), nil // SLICE-LENREL: discharged
}

type cursor struct {
	data []byte
	pos  int
}

// take returns the bytes up to an end offset announced by the stream: SLICE-UNRELATED controls.
func (c *cursor) take(start int, announced uint32) []byte {
	end := start + int(announced)
	if end > len(c.data) {
		return nil
	}
	return c.data[c.pos:end] // SLICE-UNRELATED: violated (end is never compared with c.pos)
}

func (c *cursor) takeChecked(start int, announced uint32) []byte {
	end := start + int(announced)
	if end > len(c.data) || end < c.pos {
		return nil
	}
	return c.data[c.pos:end] // SLICE-UNRELATED: discharged
}

// DecodeAnnounced drives the cursor from stream bytes.
func DecodeAnnounced(data []byte) int {
	if len(data) < 8 {
		return 0
	}
	c := &cursor{data: data, pos: 4}
	n := uint32(data[0])<<8 | uint32(data[1])
	return len(c.take(2, n)) + len(c.takeChecked(2, n))
}

// bitLength counts the bits of v with a halving loop: its result is controlled by v through the
// trip count only (no data flows from v into the counter).
func bitLength(v int) int {
	n := 0
	for v > 0 {
		v >>= 1
		n++
	}
	return n
}

// DecodeLUT sizes a lookup table as 2^bitLength(maxVal) with maxVal derived from an unvalidated
// precision byte: exponential-allocation control through a trip count (MAKE).
func DecodeLUT(data []byte) ([]int8, error) {
	if len(data) < 2 {
		return nil, errBad
	}
	maxVal := (1 << uint(data[0])) - 1
	lut := make([]int8, 2<<uint(bitLength(maxVal)))
	return lut, nil
}

// DecodeLUTOK is the corrected twin: the precision is validated first, so the halving loop runs at
// most 16 times (must not be reported: bit-length helpers are judged with each caller's argument).
func DecodeLUTOK(data []byte) ([]int8, error) {
	if len(data) < 2 || data[0] < 2 || data[0] > 16 {
		return nil, errBad
	}
	maxVal := (1 << uint(data[0])) - 1
	lut := make([]int8, 2<<uint(bitLength(maxVal)))
	return lut, nil
}
