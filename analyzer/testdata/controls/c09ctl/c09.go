// Package c09ctl holds positive controls for rule PROGRESS (C09).
package c09ctl

import "errors"

var errShort = errors.New("short")

// DecodeRuns expands a PackBits-like stream. The reserved control byte 0x80 leaves the cursor
// where it is: the loop stalls (PROGRESS control).
func DecodeRuns(data []byte, out []byte) (int, error) {
	pos := 0
	i := 0
	for i < len(data) && pos < len(out) {
		control := int8(data[i])
		consumed := 0
		written := 0
		switch {
		case control >= 0:
			consumed = 1 + int(control) + 1
			written = int(control) + 1
		case control > -128:
			consumed = 2
			written = 1 - int(control)
		default:
			// reserved: no-op
		}
		i += consumed
		pos += written
	}
	if pos < len(out) {
		return pos, errShort
	}
	return pos, nil
}

// DecodeRunsOK is the corrected twin: every arm consumes the control byte (must be proved).
func DecodeRunsOK(data []byte, out []byte) (int, error) {
	pos := 0
	i := 0
	for i < len(data) && pos < len(out) {
		control := int8(data[i])
		consumed := 1
		written := 0
		switch {
		case control >= 0:
			consumed += int(control) + 1
			written = int(control) + 1
		case control > -128:
			consumed++
			written = 1 - int(control)
		}
		i += consumed
		pos += written
	}
	return pos, nil
}

// DecodeChunk reads a 32-bit chunk length and allocates the read buffer before finding out
// whether the stream holds that many bytes (ALLOC-READBUF control: 8 header bytes request 4 GiB).
func DecodeChunk(data []byte) ([]byte, error) {
	if len(data) < 8 {
		return nil, errShort
	}
	n := uint32(data[4])<<24 | uint32(data[5])<<16 | uint32(data[6])<<8 | uint32(data[7])
	body := make([]byte, int(n))
	if copy(body, data[8:]) < len(body) {
		return nil, errShort
	}
	return body, nil
}

// DecodeChunkOK is the corrected twin: the declared length is compared with what is left of the
// input before the buffer is made (must be discharged).
func DecodeChunkOK(data []byte) ([]byte, error) {
	if len(data) < 8 {
		return nil, errShort
	}
	n := uint32(data[4])<<24 | uint32(data[5])<<16 | uint32(data[6])<<8 | uint32(data[7])
	if int(n) > len(data)-8 {
		return nil, errShort
	}
	body := make([]byte, int(n))
	copy(body, data[8:])
	return body, nil
}

// DecodeSegment reads a 16-bit segment length: at most 64 KiB whatever the stream says (must be
// discharged by the width of the field).
func DecodeSegment(data []byte) ([]byte, error) {
	if len(data) < 2 {
		return nil, errShort
	}
	n := int(data[0])<<8 | int(data[1])
	body := make([]byte, n)
	if copy(body, data[2:]) < n {
		return nil, errShort
	}
	return body, nil
}
