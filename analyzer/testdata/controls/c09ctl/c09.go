// Package c09ctl holds positive controls for rule PROGRESS (C09).
package c09ctl

import "errors"

var errShort = errors.New("short")

// DecodeRuns expands a PackBits-like stream. The reserved control byte 0x80 leaves the cursor
// where it is: the loop stalls (PROGRESS control).
func DecodeRuns(data []byte, out []byte) (int, error) {
	pos := 0
	i := 0
	for i < len(data) && pos < len(out) {
		control := int8(data[i])
		consumed := 0
		written := 0
		switch {
		case control >= 0:
			consumed = 1 + int(control) + 1
			written = int(control) + 1
		case control > -128:
			consumed = 2
			written = 1 - int(control)
		default:
			// reserved: no-op
		}
		i += consumed
		pos += written
	}
	if pos < len(out) {
		return pos, errShort
	}
	return pos, nil
}

// DecodeRunsOK is the corrected twin: every arm consumes the control byte (must be proved).
func DecodeRunsOK(data []byte, out []byte) (int, error) {
	pos := 0
	i := 0
	for i < len(data) && pos < len(out) {
		control := int8(data[i])
		consumed := 1
		written := 0
		switch {
		case control >= 0:
			consumed += int(control) + 1
			written = int(control) + 1
		case control > -128:
			consumed++
			written = 1 - int(control)
		}
		i += consumed
		pos += written
	}
	return pos, nil
}
