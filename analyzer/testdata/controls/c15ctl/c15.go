// Package c15ctl is a positive control for rule STRIDE: it is loaded together
// with /repo through an overlay and must be reported on every run.
package c15ctl

import "image"

// BadRepack copies the whole Pix buffer, ignoring the stride.
func BadRepack(img image.Image) []byte {
	if g, ok := img.(*image.Gray); ok {
		return append([]byte(nil), g.Pix...)
	}
	return nil
}

// GoodRepack honours the stride (must be discharged).
func GoodRepack(g *image.Gray) []byte {
	b := g.Bounds()
	out := make([]byte, 0, b.Dx()*b.Dy())
	for y := b.Min.Y; y < b.Max.Y; y++ {
		o := g.PixOffset(b.Min.X, y)
		out = append(out, g.Pix[o:o+b.Dx()]...)
	}
	return out
}

// ChromaFastPath indexes the chroma planes itself and knows two sampling layouts only
// (SUBSAMPLE control: 4:4:0, 4:1:1 and 4:1:0 fall into the 4:4:4 default).
func ChromaFastPath(img *image.YCbCr, x, y int) (cb, cr byte) {
	sx, sy := 0, 0
	switch img.SubsampleRatio {
	case image.YCbCrSubsampleRatio422:
		sx = 1
	case image.YCbCrSubsampleRatio420:
		sx, sy = 1, 1
	}
	ci := (y>>sy)*img.CStride + (x >> sx)
	return img.Cb[ci], img.Cr[ci]
}

// ChromaByOffset lets the image package compute the chroma offset (discharged).
func ChromaByOffset(img *image.YCbCr, x, y int) (cb, cr byte) {
	ci := img.COffset(x, y)
	return img.Cb[ci], img.Cr[ci]
}
