// Package c15ctl is a positive control for rule STRIDE: it is loaded together
// with /repo through an overlay and must be reported on every run.
package c15ctl

import "image"

// BadRepack copies the whole Pix buffer, ignoring the stride.
func BadRepack(img image.Image) []byte {
	if g, ok := img.(*image.Gray); ok {
		return append([]byte(nil), g.Pix...)
	}
	return nil
}

// GoodRepack honours the stride (must be discharged).
func GoodRepack(g *image.Gray) []byte {
	b := g.Bounds()
	out := make([]byte, 0, b.Dx()*b.Dy())
	for y := b.Min.Y; y < b.Max.Y; y++ {
		o := g.PixOffset(b.Min.X, y)
		out = append(out, g.Pix[o:o+b.Dx()]...)
	}
	return out
}
