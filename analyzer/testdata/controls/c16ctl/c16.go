// Package c16ctl holds positive controls for the framing / length / sink-ownership rules of C16.
package c16ctl

import (
	"bytes"
	"encoding/binary"
	"io"

	"github.com/cocosip/go-dicom-codecs/jpeg/standard"
)

// coder is an entropy coder whose sink must only be written by emit (which escapes 0xFF).
type coder struct {
	w io.Writer
}

func (c *coder) emit(b byte) {
	c.w.Write([]byte{b})
	if b == 0xFF {
		c.w.Write([]byte{0})
	}
}

// fastPath writes the sink directly: OWNER-SINK control.
func (c *coder) fastPath(p []byte) {
	c.w.Write(p)
}

// EncodeBad: early return before EOI, manual segment with a wrong length, Psot off by two.
func EncodeBad(pixels []byte, n int) ([]byte, error) {
	var buf bytes.Buffer
	w := standard.NewWriter(&buf)
	if err := w.WriteMarker(standard.MarkerSOI); err != nil {
		return nil, err
	}
	if n == 0 {
		return buf.Bytes(), nil // ORDER-FRAMING: nil-error return without EOI
	}
	// OWNER-LENGTH / BYTES: COM written by hand, length forgets to count itself
	if err := w.WriteMarker(standard.MarkerCOM); err != nil {
		return nil, err
	}
	if err := w.WriteUint16(uint16(len(pixels))); err != nil {
		return nil, err
	}
	if _, err := w.Write(pixels); err != nil {
		return nil, err
	}
	if err := w.WriteMarker(standard.MarkerEOI); err != nil {
		return nil, err
	}
	return buf.Bytes(), nil
}

// WriteTilePart: Psot forgets the SOD marker (BYTES control).
func WriteTilePart(buf *bytes.Buffer, idx int, data []byte) error {
	_ = binary.Write(buf, binary.BigEndian, uint16(0xFF90))
	_ = binary.Write(buf, binary.BigEndian, uint16(10))
	_ = binary.Write(buf, binary.BigEndian, uint16(idx))
	_ = binary.Write(buf, binary.BigEndian, uint32(len(data)+12))
	_ = binary.Write(buf, binary.BigEndian, uint8(0))
	_ = binary.Write(buf, binary.BigEndian, uint8(1))
	_ = binary.Write(buf, binary.BigEndian, uint16(0xFF93))
	_, err := buf.Write(data)
	return err
}

// UseCoder references the coder so that its methods are part of the analysed program.
func UseCoder(w io.Writer, p []byte) {
	c := &coder{w: w}
	for _, b := range p {
		c.emit(b)
	}
	c.fastPath(p)
}

// EncodeHdrBad: FLOWS-HEADER control — depth shapes the coded bytes but the frame header carries a
// constant precision; width is declared (guarded twin).
func EncodeHdrBad(pixels []byte, width, depth int) ([]byte, error) {
	var buf bytes.Buffer
	w := standard.NewWriter(&buf)
	if err := w.WriteMarker(standard.MarkerSOI); err != nil {
		return nil, err
	}
	if err := writeHdr(w, width); err != nil {
		return nil, err
	}
	body := hdrBody(pixels, depth)
	if _, err := w.Write(body); err != nil {
		return nil, err
	}
	if err := w.WriteMarker(standard.MarkerEOI); err != nil {
		return nil, err
	}
	return buf.Bytes(), nil
}

func writeHdr(w *standard.Writer, width int) error {
	sof := make([]byte, 3)
	sof[0] = 8
	sof[1] = byte(width >> 8)
	sof[2] = byte(width)
	return w.WriteSegment(standard.MarkerSOF3, sof)
}

func hdrBody(pixels []byte, depth int) []byte {
	out := make([]byte, 0, len(pixels))
	mask := byte(1<<uint(depth&7) - 1)
	for _, p := range pixels {
		out = append(out, p&mask)
	}
	return out
}
