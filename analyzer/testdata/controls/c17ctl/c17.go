// Package c17ctl holds positive controls for the encoder-side rules of C17.
package c17ctl

import (
	"bytes"
	"errors"
)

var errArg = errors.New("bad argument")

type encoder struct {
	width, height, comps int
	tables               [3]int
}

// Encode is an encoding entry point with every C17 violation once.
func Encode(pixels []byte, width, height, components, blockSize int) ([]byte, error) {
	if height <= 0 {
		return nil, errArg
	}
	// width: never compared -> VALIDATE-FIRST (arithmetic), MAKE
	n := width * height
	scratch := make([]int, width)
	enc := &encoder{width: width, height: height, comps: components}
	enc.tables[components] = 1 // IDX: raw argument into [3]int
	rows := height / blockSize  // DIV: raw divisor
	// no len(pixels) test -> BUFFER-CHECK
	sum := 0
	for i := 0; i < n; i++ {
		sum += int(pixels[i])
	}
	var buf bytes.Buffer
	enc.writeHeader(&buf)
	return append(buf.Bytes(), byte(sum+rows+len(scratch))), nil
}

func (e *encoder) writeHeader(buf *bytes.Buffer) {
	buf.WriteByte(byte(e.height >> 8)) // NARROW: height has no upper bound
	buf.WriteByte(byte(e.height))
}

// EncodeChecked is the guarded twin: everything must be discharged.
func EncodeChecked(pixels []byte, width, height, components, blockSize int) ([]byte, error) {
	if width <= 0 || height <= 0 || width > 65535 || height > 65535 {
		return nil, errArg
	}
	if components != 1 && components != 3 {
		return nil, errArg
	}
	if blockSize < 4 || blockSize > 64 {
		return nil, errArg
	}
	if len(pixels) < width*height*components {
		return nil, errArg
	}
	enc := &encoder{width: width, height: height, comps: components}
	enc.tables[components-1] = 1
	rows := height / blockSize
	var buf bytes.Buffer
	buf.WriteByte(byte(enc.height >> 8))
	buf.WriteByte(byte(enc.height))
	return append(buf.Bytes(), byte(rows), pixels[0]), nil
}
