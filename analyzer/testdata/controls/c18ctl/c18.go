// Package c18ctl holds positive controls for the C18 / C10 effect rules. It is loaded with
// /repo through an overlay; every rule must report its control on every run.
package c18ctl

import (
	"bytes"
	"fmt"
	"sort"
	"sync"

	"github.com/cocosip/go-dicom/pkg/dicom/transfer"
	"github.com/cocosip/go-dicom/pkg/imaging/codec"
	"github.com/cocosip/go-dicom/pkg/imaging/imagetypes"
)

var lazyTable []int // built on first Decode: NO-GLOBAL-WRITE control

var staticTable = buildTable(16) // init-time only: must NOT be reported

func buildTable(n int) []int {
	t := make([]int, n)
	for i := range t {
		t[i] = i * i
	}
	return t
}

// BadCodec violates every effect rule once.
type BadCodec struct {
	lastSize int
	mu       sync.Mutex
}

type params struct {
	Level int
	m     map[string]interface{}
}

func (p *params) GetParameter(name string) interface{}        { return p.m[name] }
func (p *params) SetParameter(name string, value interface{}) { p.m[name] = value }

// Validate assigns unconditionally (PARAMS-RO control) and normalises under a guard (must be discharged).
func (p *params) Validate() {
	if p.Level < 0 {
		p.Level = 0
	}
	p.Level = p.Level &^ 1
}

func (c *BadCodec) Name() string                     { return "bad" }
func (c *BadCodec) TransferSyntax() *transfer.Syntax { return nil }
func (c *BadCodec) GetDefaultParameters() codec.Parameters {
	return &params{m: map[string]interface{}{}}
}

func (c *BadCodec) Encode(oldPixelData, newPixelData imagetypes.PixelData, parameters codec.Parameters) error {
	if p, ok := parameters.(*params); ok {
		p.Validate()
	}
	for i := 0; i < oldPixelData.FrameCount(); i++ {
		f, err := oldPixelData.GetFrame(i)
		if err != nil {
			return err
		}
		// private scratch built by the same constructor that init uses: must NOT be reported
		t := buildTable(len(f))
		t[0] = 1
		c.lastSize = len(f) // NO-RECEIVER-WRITE control
		if err := newPixelData.AddFrame(append([]byte(nil), f...)); err != nil {
			return err
		}
	}
	return nil
}

func (c *BadCodec) Decode(oldPixelData, newPixelData imagetypes.PixelData, parameters codec.Parameters) error {
	if lazyTable == nil {
		lazyTable = buildTable(64) // NO-GLOBAL-WRITE control (store to the variable)
	}
	alias := staticTable
	alias[3] = 7 // NO-GLOBAL-WRITE control (write through an alias of init-built storage)
	for i := 0; i < oldPixelData.FrameCount(); i++ {
		f, err := oldPixelData.GetFrame(i)
		if err != nil {
			return err
		}
		sort.Slice(f, func(a, b int) bool { return f[a] < f[b] }) // INPUT-RO control
		if parameters != nil {
			parameters.SetParameter("seen", i) // PARAMS-RO control
		}
		done := make(chan struct{})
		go func() { close(done) }() // NO-HIDDEN-CONCURRENCY control
		<-done
		if err := newPixelData.AddFrame(f); err != nil {
			return fmt.Errorf("add: %w", err)
		}
	}
	return nil
}

var _ codec.Codec = (*BadCodec)(nil)

// SkipCodec drops frames silently: ORDER-FRAMES control.
type SkipCodec struct{}

func (c *SkipCodec) Name() string                           { return "skip" }
func (c *SkipCodec) TransferSyntax() *transfer.Syntax       { return nil }
func (c *SkipCodec) GetDefaultParameters() codec.Parameters { return nil }

func (c *SkipCodec) Encode(oldPixelData, newPixelData imagetypes.PixelData, parameters codec.Parameters) error {
	n := oldPixelData.FrameCount()
	for i := 0; i < n; i++ {
		f, err := oldPixelData.GetFrame(i)
		if err != nil {
			return err
		}
		if len(f) == 0 {
			continue // frame skipped without error
		}
		if err := newPixelData.AddFrame(append([]byte(nil), f...)); err != nil {
			return err
		}
	}
	return nil
}

func (c *SkipCodec) Decode(oldPixelData, newPixelData imagetypes.PixelData, parameters codec.Parameters) error {
	n := oldPixelData.FrameCount()
	for i := 0; i < n; i++ {
		f, err := oldPixelData.GetFrame(i)
		if err != nil {
			return err
		}
		if err := newPixelData.AddFrame(append([]byte(nil), f...)); err != nil {
			return err
		}
	}
	return nil
}

var _ codec.Codec = (*SkipCodec)(nil)

// EmitInMapOrder writes bytes while ranging over a map: MAP-RANGE control.
func EmitInMapOrder(m map[int][]byte) []byte {
	var out []byte
	for _, v := range m {
		out = append(out, v...)
	}
	return out
}

// StickyDecoder keeps state between calls: CARRY controls.
type StickyDecoder struct {
	seen    [][]byte // accumulate-only (P1)
	palette []byte   // assigned only when the input carries one (P2)
	scratch []byte   // buffer reuse keyed on capacity: must NOT be reported
	width   int      // always assigned first: must be discharged
}

// Decode is the per-call entry.
func (d *StickyDecoder) Decode(data []byte) []byte {
	d.width = len(data)
	if cap(d.scratch) < d.width {
		d.scratch = make([]byte, d.width)
	}
	buf := d.scratch[:d.width]
	copy(buf, data)
	if len(data) > 4 && data[0] == 'P' {
		d.palette = append([]byte(nil), data[1:4]...)
	}
	d.seen = append(d.seen, buf)
	out := make([]byte, 0, d.width+len(d.palette))
	out = append(out, buf...)
	out = append(out, d.palette...)
	out = append(out, byte(len(d.seen)))
	return out
}

// ReuseCodec allocates a StickyDecoder outside its frame loop (discovered CARRY target).
type ReuseCodec struct{}

func (c *ReuseCodec) Name() string                           { return "reuse" }
func (c *ReuseCodec) TransferSyntax() *transfer.Syntax       { return nil }
func (c *ReuseCodec) GetDefaultParameters() codec.Parameters { return nil }
func (c *ReuseCodec) Encode(oldPixelData, newPixelData imagetypes.PixelData, parameters codec.Parameters) error {
	return nil
}
func (c *ReuseCodec) Decode(oldPixelData, newPixelData imagetypes.PixelData, parameters codec.Parameters) error {
	dec := &StickyDecoder{}
	n := oldPixelData.FrameCount()
	for i := 0; i < n; i++ {
		f, err := oldPixelData.GetFrame(i)
		if err != nil {
			return err
		}
		if err := newPixelData.AddFrame(dec.Decode(f)); err != nil {
			return err
		}
	}
	return nil
}

var _ codec.Codec = (*ReuseCodec)(nil)

// SharedDefaultsCodec keeps one parameters object for everybody (NO-SHARED-RESULT control).
type SharedDefaultsCodec struct {
	defaults *params
}

// NewSharedDefaultsCodec builds the codec with its single defaults object.
func NewSharedDefaultsCodec() *SharedDefaultsCodec {
	return &SharedDefaultsCodec{defaults: &params{m: map[string]interface{}{}}}
}

func (c *SharedDefaultsCodec) Name() string                     { return "shared-defaults" }
func (c *SharedDefaultsCodec) TransferSyntax() *transfer.Syntax { return nil }

// GetDefaultParameters hands out the codec's own object: NO-SHARED-RESULT violated.
func (c *SharedDefaultsCodec) GetDefaultParameters() codec.Parameters { return c.defaults }
func (c *SharedDefaultsCodec) Encode(oldPixelData, newPixelData imagetypes.PixelData, parameters codec.Parameters) error {
	return nil
}
func (c *SharedDefaultsCodec) Decode(oldPixelData, newPixelData imagetypes.PixelData, parameters codec.Parameters) error {
	return nil
}

var _ codec.Codec = (*SharedDefaultsCodec)(nil)

// frameWriter owns a staging buffer; Bytes hands out a view of it: OUTPUT-VIEW controls.
type frameWriter struct {
	buf bytes.Buffer
}

func (w *frameWriter) reset()        { w.buf.Reset() }
func (w *frameWriter) put(p []byte)  { w.buf.Write(p) }
func (w *frameWriter) view() []byte  { return w.buf.Bytes() }
func (w *frameWriter) owned() []byte { return append([]byte(nil), w.buf.Bytes()...) }

// ViewCodec hands a view of a writer that outlives the iteration to AddFrame (Encode: OUTPUT-VIEW
// control) and a copy of it (Decode: guarded twin, must be discharged).
type ViewCodec struct{}

func (c *ViewCodec) Name() string                           { return "view" }
func (c *ViewCodec) TransferSyntax() *transfer.Syntax       { return nil }
func (c *ViewCodec) GetDefaultParameters() codec.Parameters { return nil }
func (c *ViewCodec) Encode(oldPixelData, newPixelData imagetypes.PixelData, parameters codec.Parameters) error {
	w := &frameWriter{}
	n := oldPixelData.FrameCount()
	for i := 0; i < n; i++ {
		f, err := oldPixelData.GetFrame(i)
		if err != nil {
			return err
		}
		w.reset()
		w.put(f)
		var out []byte
		fillView(w, &out)
		if err := newPixelData.AddFrame(out); err != nil {
			return err
		}
	}
	return nil
}

func fillView(w *frameWriter, dst *[]byte) { *dst = w.view() }

func (c *ViewCodec) Decode(oldPixelData, newPixelData imagetypes.PixelData, parameters codec.Parameters) error {
	w := &frameWriter{}
	n := oldPixelData.FrameCount()
	for i := 0; i < n; i++ {
		f, err := oldPixelData.GetFrame(i)
		if err != nil {
			return err
		}
		w.reset()
		w.put(f)
		if err := newPixelData.AddFrame(w.owned()); err != nil {
			return err
		}
	}
	return nil
}

var _ codec.Codec = (*ViewCodec)(nil)
