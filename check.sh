#!/bin/bash
# usage: check.sh <ID> quick|thorough   |   check.sh <ID> --replay <report.json>
set -uo pipefail
cd "$(dirname "$0")"
. ./env.sh
ID="$1"; TIER="${2:-quick}"
REPO="${VERIF_REPO:-/repo}"
if [ ! -x bin/dcmcheck ] || [ -n "$(find analyzer -name '*.go' -newer bin/dcmcheck 2>/dev/null | head -1)" ]; then
  ./setup.sh >/dev/null || { echo "CHECK-ERROR property=$ID setup failed"; exit 2; }
fi
if [ "$TIER" = "--replay" ]; then
  echo "replaying report $3 on the current tree:"; cat "$3"; echo
  bin/dcmcheck -prop "$ID" -tier quick -repo "$REPO" -verif "$(pwd)" | grep -F -A1 "$(basename "$3")" || echo "obligation no longer violated on the current tree"
  exit 0
fi
if [ "$TIER" = "quick" ]; then
  exec bin/dcmcheck -prop "$ID" -tier quick -repo "$REPO" -verif "$(pwd)"
fi
# thorough: the same rules on a second platform (sub-run, no evidence), the mutation self-test of
# this property's rules (scratch copies under $TMPDIR, removed after each entry), then the main run,
# which writes the evidence. A failing self-test means "checker unreliable" (exit 2); it is never
# turned into a VIOLATION of /repo.
rc=0
for variant in "-goos windows"; do
  out=$(bin/dcmcheck -prop "$ID" -tier thorough -repo "$REPO" -verif "$(pwd)" -no-evidence $variant 2>&1); r=$?
  echo "--- variant [$variant] exit=$r"
  echo "$out" | grep -E '^(VIOLATION|KNOWN-FINDING|CHECK-ERROR|  rule=|OK )' || true
  if [ $r -gt $rc ]; then rc=$r; fi
done
echo "--- mutation self-test for $ID"
stjson=$(mktemp)
VERIF_REPO="$REPO" python3 selftest/run.py --prop "$ID" -j 6 --json "$stjson"; st=$?
VERIF_SELFTEST_JSON="$stjson" VERIF_VARIANTS="goos=windows (exit $rc)" bin/dcmcheck -prop "$ID" -tier thorough -repo "$REPO" -verif "$(pwd)"; r=$?
rm -f "$stjson"
if [ $r -gt $rc ]; then rc=$r; fi
if [ $rc -eq 0 ] && [ $st -ne 0 ]; then echo "CHECK-ERROR property=$ID mutation self-test failed: checker unreliable"; rc=2; fi
exit $rc
