# Environment for building and running the analyser (DESIGN §2).
export PATH=/opt/veriftools/go1.26.8/bin:$PATH
export GOTOOLCHAIN=local GOFLAGS=-mod=mod GOPROXY=off GOSUMDB=off GOWORK=off CGO_ENABLED=0
unset GOOS GOARCH || true
