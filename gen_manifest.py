#!/usr/bin/env python3
"""Regenerates MANIFEST.json from the table below (kept in one place so it stays valid)."""
import json, subprocess

BASELINE_OFF = "cd /repo && go test -mod=mod -json -vet=off -count=1 -timeout 25m ./..."

NA = {
 "C01": "round-trip identity over all byte strings through a run/literal state machine (value-level); its structural facts (15-slot segment table, bounded expansion) are decided under C17/C08",
 "C02": "exact reconstruction depends on modular difference arithmetic and Huffman construction over runtime values; a clone-equality lint of encoder/decoder fragments would be a frozen-source proxy",
 "C03": "encoder and decoder adaptive context state must co-evolve for all contents - relational over runtime values; no sound static argument in reach",
 "C07": "per-sample numeric error bound through quantise / modulo / clamp arithmetic",
 "C11": "numeric loss bound tied to quantisation tables, DCT rounding and colour matrices",
 "C12": "numeric loss bound tied to QCD step sizes and 9/7 synthesis gains",
 "C13": "conformance = agreement with an independent T.81 implementation over all legal streams; no static oracle",
 "C14": "conformance = agreement with an independent T.87 decoder; the H.3 vector is a runtime artefact",
 "C20": "exact-inverse laws of MQ / EBCOT / 5-3 lifting / RCT are arithmetic identities over all inputs",
}

# id -> (technique, level text, level note, design ref)
CHECKS = {}

def check(pid, technique, text, note, ref):
    CHECKS[pid] = dict(technique=technique, text=text, note=note, ref=ref)

exec(open("manifest_checks.py").read())

m = {
 "version": 1,
 "setup_cmd": "./setup.sh",
 "hooks": {
  "guard": "verif",
  "enable": "no hooks: the analyser reads /repo's working tree as it is (go/packages, no build tag needed)",
  "baseline_off_cmd": BASELINE_OFF,
  "source_commits": [],
  "add_only": True,
 },
 "engines": [
  {"name": "dcmcheck", "path": "analyzer/", "serves_properties": sorted(CHECKS), "kind_free_text": "repository-specific static analyser over go/packages + go/ssa + VTA call graph (x/tools v0.50.0): points-to/effects, interval+taint ranges, CFG shape rules; positive controls loaded through an overlay"},
 ],
 "checks": [],
 "notes": "Static analysis only. Every claimed level is 'other': each check decides the structural clause named in its level text, not the runtime behaviour. Fix commits in /repo are listed in known_findings.json as 'fixed' (they suppress nothing).",
 "not_applicable": [],
}
for pid in sorted(CHECKS):
    c = CHECKS[pid]
    m["checks"].append({
     "property_id": pid,
     "quick_cmd": f"./check.sh {pid} quick",
     "thorough_cmd": f"./check.sh {pid} thorough",
     "evidence_file": f"/verif/evidence/{pid}.json",
     "replay_cmd_template": f"./check.sh {pid} --replay {{path}}",
     "engine": "dcmcheck",
     "level_claimed": {"category": "other", "text": c["text"], "design_ref": c["ref"]},
     "level_note": c["note"],
     "technique": c["technique"],
    })
for pid in sorted(NA):
    if pid not in CHECKS:
        m["not_applicable"].append({"property_id": pid, "reason": NA[pid]})
PENDING = json.load(open("manifest_pending.json"))
for pid, why in sorted(PENDING.items()):
    if pid not in CHECKS:
        m["not_applicable"].append({"property_id": pid, "reason": why})
json.dump(m, open("MANIFEST.json", "w"), indent=1)
print("MANIFEST.json:", len(m["checks"]), "checks,", len(m["not_applicable"]), "not applicable")
