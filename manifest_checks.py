check("C15",
 "custom SSA lint: stride/offset use must accompany every image.* pixel-buffer read",
 "Decides one structural clause of C15 only: every decoder path that repacks a standard-library image must honour its stride (necessary for 'width x height x components tightly packed samples'). Exhaustive over all library functions; the +-2 grey-level agreement with image/jpeg is value-level and not decided.",
 "trusted: go/types+go/ssa of x/tools v0.50.0; the image package's documented Pix/Stride layout",
 "DESIGN.md §4 C15")
check("C18",
 "allocation-site points-to + write-effect analysis over SSA (who may write shared memory)",
 "Decides the schedule-independent obligation the property itself names, in an alias-aware form: in code reachable from any exported entry point no store/copy/append/map-update/external write may target (1) a package-level variable or anything reachable from one, (2) a codec instance or anything reachable from it, (3) the caller's parameters object except guarded normalisation; (4) no method of a registered codec type may return a pointer to a mutable library object reachable from the codec instance or a package-level variable (NO-SHARED-RESULT); and library code uses no goroutines/sync/atomic/unsafe/reflect/cgo. Exhaustive over the resolved program (every effect site is an obligation). It does not execute schedules or a race detector, so it proves absence of shared writes, not equality of results.",
 "trusted: go/ssa + VTA call graph (CHA in thorough), frozen effect table for ~40 standard-library callees, context-insensitive heap abstraction with separate init/run contexts; one reviewed exception (init-guarded VLC table regeneration) with a structural keep-alive condition",
 "DESIGN.md §4 C18, §3.2")
check("C10",
 "CFG shape rule for frame loops + points-to/effects + field carry-over (must-definition) analysis",
 "Decides the structural clauses of the codec contract: (1) every codec's GetFrame/AddFrame pairing is a counted loop 0..FrameCount()-1 (classic or range-over-int form; helpers that fetch/append the frame named by their parameters and per-frame callbacks are followed) with exactly one dominating AddFrame per cycle fed by that iteration's frame and error-only early exits, and every registered codec's Encode and Decode reaches such a loop; (2) no state is carried between calls or frames on jpeg2000.Encoder/Decoder objects and on any object a codec allocates outside its frame loop (fields read before being re-assigned and written during a call; accumulate-only / never-reset / incompletely keyed caches are violations); (3) no write effect on the caller's input bytes; (4) no nondeterminism sources, every map range order-insensitive; (5) information-flow necessary condition for the decoded container width to follow BitsAllocated. Byte equality of lossless round trips and numeric output are not decided.",
 "trusted: as C18 (shared engine E1) plus the must-definition analysis' treatment of nil/error guards; known findings: 6 codecs ignore BitsAllocated (recorded, not repaired)",
 "DESIGN.md §4 C10, §3.2")
check("C08",
 "interprocedural interval + stream-taint (abstract interpretation over SSA) on panic-capable integer operations",
 "Decides the listed panic classes only: over every function reachable from a decoding entry point, each fixed-size-array index, integer divisor, make size, signed shift count, comma-less type assertion and explicit panic is an obligation. 'Discharged' is a sound over-approximation in the interval/known-bits domain; 'violated' is reported only on a witness shape (stream-tainted operand that is exactly out of range, has no limit applied at all, or is a never-compared field still holding its zero value); the rest is counted out-of-scope. Four slice shapes that need no relation between variables are decided as well (constant index/bound without any dominating length test; s[a:a+n] with a possibly negative exact n, or an n that is the difference of two stream-derived stored quantities which no branch in the library ever compares; s[len(s)-k] with less than k established along the call chain to an exported entry point; s[a:b] whose stream-derived bounds are never compared). Other slice/string bounds, nil dereference and stack depth are NOT decided, so a clean run does not imply C08; a violation refutes it.",
 "trusted: go/ssa, VTA call graph, points-to closure deciding which byte buffers hold stream data, field/element summaries with exit-refined stores (assumes parse errors are propagated and the object dropped)",
 "DESIGN.md §4 C08, §3.3")
check("C17",
 "must-check-before-use of adversarial arguments via interval/taint analysis + dominance rules for buffer-length tests and header narrowing",
 "Decides structural clauses: (VALIDATE-FIRST) no encoder argument / unvalidated EncodeParams field is consumed by arithmetic, an allocation, an index or a narrowing conversion while still exactly as it arrived; (BUFFER-CHECK) every []byte pixel argument of an encoding entry point is length-tested with an error exit before it is indexed or handed on; (NARROW) every conversion to an 8/16-bit header field in a header writer is value-preserving under the ranges validation establishes; plus the IDX/DIV/MAKE/SHIFT/ASSERT/PANIC classes of C08 over encode-reachable code with the arguments as adversarial sources. That a returned stream decodes to the requested geometry is decided only through NARROW.",
 "trusted: as C08; validator postconditions assume the validator's error is propagated (checked: the validator call dominates every other call of the entry point and its result is nil-tested)",
 "DESIGN.md §4 C17")
check("C16",
 "CFG dominance rules for framing + who-may-write (ownership) rule for entropy-coder sinks + symbolic byte counting of marker segments",
 "Decides structural clauses of well-formedness: (ORDER-FRAMING) in every function that starts a codestream the start-marker write dominates all other writes to the output, the end-marker write dominates every nil-error return and nothing follows it; (BYTES) for every hand-written JPEG 2000 marker segment, SOT/Psot and TLM the bytes written are counted as a linear expression over len() terms (range loops multiplied by their trip count) and must equal the expression stored in the length field; JPEG length-bearing markers go through Writer.WriteSegment (OWNER-LENGTH); (OWNER-SINK) the byte sinks (discovered structurally: a writer/buffer/byte-slice field of a library struct for which some method both tests what it emits against 0xFF and writes the field) of the Huffman, Golomb and packet-header bit writers are written only by the one function that applies stuffing. Correctness of the stuffing arithmetic, field order and values inside headers are not decided.",
 "trusted: go/ssa; marker constants resolved by value; sequence of writes taken in dominance order (conditional write sequences are out of scope)",
 "DESIGN.md §4 C16")
check("C09",
 "loop-progress (ranking-variable / cursor-advance) analysis over the CFG of every decoder loop",
 "Decides the termination clause only: every natural loop in decode-reachable code is proved to make progress when each back edge strictly moves an integer variable (or struct field) that an exit test reads, in the direction of that test, or when every cycle passes a cursor primitive whose bottom-up summary consumes at least one input unit on every non-error return. A violation is reported only for a stall path: a cycle that leaves every tested variable exactly unchanged and calls nothing. Loops whose progress is relational are counted out of scope. The 10 s / 512 MiB + 64*S budgets are runtime quantities and are not decided.",
 "trusted: go/ssa natural-loop structure; engine E2 for increment ranges; cursor fields recognised by the read-position idiom (x.pos += k)",
 "DESIGN.md §4 C09")
check("C04",
 "sibling cross-check: exhaustiveness of enum dispatch + loop-nest signature agreement between packet encoder and decoder",
 "Decides one structural clause of C04 only - 'same precinct / code-block / progression enumeration on both sides': every dispatch over t2.ProgressionOrder that selects a packet-enumerating function (switch, if-chain or table of functions) handles all five declared constants, and for each constant the encoder's and the decoder's packet-enumerating functions nest their layer / resolution / component / precinct loops in the same order. Exhaustive over the finite enum. Exact reconstruction (tag trees, bit stuffing, DWT, block coding, MCT) is value-level and not decided.",
 "trusted: go/ssa loop structure; the per-packet call is recognised by its (layer, resolution, component, precinct) parameters",
 "DESIGN.md §4 C04")
check("C19",
 "sibling cross-check of packet enumeration (shared with C04) + data-flow rule on the tile index written to SOT",
 "Decides structural clauses of C19 only: the per-tile packet enumeration agrees between encoder and decoder for every progression constant (rule EXHAUST-PROG, shared with C04), and the Isot field of every tile-part writer is the tile index unmodified (FLOWS-TILEIDX). Tile bounds arithmetic, origin parity of the per-tile wavelet and global rate allocation are value-level and not decided.",
 "trusted: as C04; SOT writes recognised by the marker constant 0xFF90",
 "DESIGN.md §4 C19")
check("C05",
 "data-flow / who-may-store rule on EncodeParams.Lossless resolved per codec registration",
 "Decides one structural clause of C05 only - 'no accepted parameter value can select the irreversible path on a lossless-only transfer syntax': all 14 Registry.RegisterCodec calls are resolved (syntax, constructor, codec type; directly or, for table-driven registration, through points-to and the constructor's store of the transfer.* variable); for .90 and .92 every store to jpeg2000.EncodeParams.Lossless reachable from the codec's Encode stores the constant true or sits on a branch the registered constructor makes dead. Whether the final layer receives all remaining passes under rate control, and the byte-exact round trip, are value-level and not decided.",
 "trusted: go/ssa, VTA reachability from the codec's Encode; lossless-only syntax set frozen from the DICOM UIDs in the property statement",
 "DESIGN.md §4 C05")
check("C06",
 "data-flow / who-may-store rule on EncodeParams.Lossless + block-coder factory family agreement",
 "Decides structural clauses of C06 only: for the HTJ2K Lossless / Lossless RPCL registrations the irreversible path cannot be selected (FLOWS-LOSSLESS as C05, with the constructor's lossless=true making the lossy branch dead), and the codec installs the HT block coder family on both sides (FLOWS-HTFACTORY: HTJ2KMode stored true and BlockEncoderFactory returning *htj2k.HTEncoder in Encode, SetBlockDecoderFactory with a closure returning *htj2k.HTDecoder in Decode). The HT cleanup-pass coding, Kmax/missing-MSB agreement and the third-party fixtures are not decided.",
 "trusted: as C05",
 "DESIGN.md §4 C06")
