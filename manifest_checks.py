check("C15",
 "custom SSA lint: stride/offset use must accompany every image.* pixel-buffer read",
 "Decides one structural clause of C15 only: every decoder path that repacks a standard-library image must honour its stride (necessary for 'width x height x components tightly packed samples'). Exhaustive over all library functions; the +-2 grey-level agreement with image/jpeg is value-level and not decided.",
 "trusted: go/types+go/ssa of x/tools v0.50.0; the image package's documented Pix/Stride layout",
 "DESIGN.md §4 C15")
