# Mutation catalogue: (name, kind, props, edits[(file, old, new)], rule, where)
CATALOGUE = []
def brk(name, props, edits, rule, where=""):
    CATALOGUE.append(dict(name=name, kind="break", props=props, edits=edits, rule=rule, where=where))
def benign(name, props, edits):
    CATALOGUE.append(dict(name=name, kind="benign", props=props, edits=edits, rule="", where=""))
def refactor(rid, props):
    CATALOGUE.append(dict(name="refactor-" + rid, kind="benign", props=props, edits=[], rule="", where="", patch="seeded/refactors/" + rid + "/patch.diff"))
def brk_on(rid, name, props, edits, rule, where=""):
    CATALOGUE.append(dict(name=name, kind="break", props=props, edits=edits, rule=rule, where=where, patch="seeded/refactors/" + rid + "/patch.diff"))

# ---------------------------------------------------------------- C08
brk("c08-baseline-dht-drop-th-check", ["C08"],
    [("jpeg/baseline/decoder.go", "		if th > 3 {\n			return standard.ErrInvalidDHT\n		}\n", "")],
    "IDX", "parseDHT")
brk("c08-baseline-sos-drop-selector-check", ["C08"],
    [("jpeg/baseline/decoder.go", "		if td > 3 || ta > 3 {\n			return standard.ErrInvalidSOS\n		}\n", "")],
    "IDX", "decodeBlock")
brk("c08-baseline-sos-weaken-selector-check", ["C08"],
    [("jpeg/baseline/decoder.go", "if td > 3 || ta > 3 {", "if td > 4 || ta > 3 {")],
    "IDX", "decodeBlock")
brk("c08-baseline-scan-before-frame", ["C08"],
    [("jpeg/baseline/decoder.go", "	if d.mcuWidth == 0 || d.mcuHeight == 0 {\n		return standard.ErrInvalidSOS\n	}\n", "")],
    "DIV", "DivCeil")
brk("c08-lossless-sos-drop-selector-check", ["C08"],
    [("jpeg/lossless/decoder.go", "		if selector >= len(d.dcTables) {\n			return fmt.Errorf(\"invalid DC Huffman table selector: %d\", selector)\n		}\n", "")],
    "IDX", "lossless")
brk("c08-sv1-whole-byte-selector", ["C08"],
    [("jpeg/lossless14sv1/decoder.go", "		selector := int(td >> 4)\n		if selector > 3 {\n			return standard.ErrInvalidSOS\n		}\n", "		selector := int(td)\n")],
    "IDX", "lossless14sv1")
brk("c08-j2k-qcd-drop-length-check", ["C08"],
    [("jpeg2000/codestream/parser.go", "	if length < 3 {\n		return nil, fmt.Errorf(\"invalid QCD segment length: %d\", length)\n	}\n", "")],
    "MAKE", "parseQCD")
brk("c08-j2k-siz-drop-tile-size-check", ["C08"],
    [("jpeg2000/codestream/parser.go", "	if siz.XTsiz == 0 || siz.YTsiz == 0 {\n		return nil, fmt.Errorf(\"invalid tile size in SIZ: %dx%d\", siz.XTsiz, siz.YTsiz)\n	}\n", "")],
    "DIV", "NewTileDecoder")
brk("c08-baseline-dqt-mask-removed", ["C08"],
    [("jpeg/baseline/decoder.go", "		tq := pqTq & 0x0F // Table ID\n\n		if tq > 3 {\n			return standard.ErrInvalidDQT\n		}\n", "		tq := pqTq // Table ID\n")],
    "IDX", "parseDQT")
brk("c08-htj2k-scup-locator-read-before-length-test", ["C08"],
    [("jpeg2000/htj2k/decoder.go", "	if lcup < 2 {\n		return nil, nil, fmt.Errorf(\"invalid HTJ2K code-block length: lcup=%d\", lcup)\n	}\n", "")],
    "SLICE-LENREL", "parseStandardSegments")
brk("c08-jpegls-sos-trailer-check-weakened", ["C08"],
    [("jpegls/nearlossless/decoder.go", "	if len(data) < 4 {\n		return standard.ErrInvalidSOS\n	}\n\n	numComponents := int(data[0])\n	if numComponents != dec.components {\n		return fmt.Errorf(\"SOS component count mismatch\")",
      "	if len(data) < 1 {\n		return standard.ErrInvalidSOS\n	}\n\n	numComponents := int(data[0])\n	if numComponents != dec.components {\n		return fmt.Errorf(\"SOS component count mismatch\")")],
    "SLICE-LENREL", "parseSOS")
# behaviour-preserving edits: must stay silent
benign("c08-benign-hoist-guard-into-helper", ["C08"],
    [("jpeg/baseline/decoder.go", "		if td > 3 || ta > 3 {\n			return standard.ErrInvalidSOS\n		}\n",
      "		if !validSelectors(td, ta) {\n			return standard.ErrInvalidSOS\n		}\n"),
     ("jpeg/baseline/decoder.go", "// decodeScan decodes the scan data\n",
      "func validSelectors(td, ta int) bool { return td >= 0 && td <= 3 && ta >= 0 && ta <= 3 }\n\n// decodeScan decodes the scan data\n")])
benign("c08-benign-switch-form-of-check", ["C08"],
    [("jpeg/baseline/decoder.go", "		if th > 3 {\n			return standard.ErrInvalidDHT\n		}\n",
      "		switch {\n		case th >= 4:\n			return standard.ErrInvalidDHT\n		}\n")])
benign("c08-benign-rename-local", ["C08"],
    [("jpeg2000/codestream/parser.go", "	dataLength := int(length) - 3 // length includes itself (2) and Sqcd (1)\n	qcd.SPqcd = make([]byte, dataLength)",
      "	payload := int(length) - 3 // length includes itself (2) and Sqcd (1)\n	qcd.SPqcd = make([]byte, payload)")])
brk("c08-baseline-sof-drop-length-check", ["C08"],
    [("jpeg/baseline/decoder.go", "	if len(data) < 6 {\n		return standard.ErrInvalidSOF\n	}\n", "")],
    "SLICE-CONST", "parseSOF")
brk("c08-baseline-dri-drop-length-check", ["C08"],
    [("jpeg/baseline/decoder.go", "	if len(data) != 2 {\n		return standard.ErrInvalidData\n	}\n", "")],
    "SLICE-CONST", "parseDRI")
benign("c08-benign-length-check-reordered", ["C08"],
    [("jpeg/baseline/decoder.go", "	if len(data) != 2 {\n		return standard.ErrInvalidData\n	}\n", "	if 2 != len(data) {\n		return standard.ErrInvalidData\n	}\n")])
# ---------------------------------------------------------------- C17
brk("c17-baseline-drop-buffer-check", ["C17"],
    [("jpeg/baseline/encoder.go", "	if len(pixelData) < width*height*components {\n		return nil, standard.ErrBufferTooSmall\n	}\n", "")],
    "BUFFER-CHECK", "baseline.Encode")
brk("c17-jpegls-drop-buffer-check", ["C17"],
    [("jpegls/lossless/encoder.go", "	if len(pixelData) < width*height*components*((bitDepth+7)/8) {\n		return nil, standard.ErrBufferTooSmall\n	}\n", "")],
    "BUFFER-CHECK", "jpegls/lossless.Encode")
brk("c17-lossless-drop-dimension-upper-bound", ["C17"],
    [("jpeg/lossless/encoder.go", "width <= 0 || height <= 0 || width > 65535 || height > 65535", "width <= 0 || height <= 0")],
    "NARROW", "writeSOF3")
brk("c17-baseline-drop-dimension-check", ["C17"],
    [("jpeg/baseline/encoder.go", "	if width <= 0 || height <= 0 || width > 65535 || height > 65535 {\n		// the frame header stores both dimensions in 16-bit fields\n		return nil, standard.ErrInvalidDimensions\n	}\n", "")],
    "VALIDATE-FIRST", "baseline")
brk("c17-j2k-drop-codeblock-validation", ["C17"],
    [("jpeg2000/encoder.go", "	if p.CodeBlockWidth < 4 || p.CodeBlockWidth > 1024 || !isPowerOfTwo(p.CodeBlockWidth) {\n		return fmt.Errorf(\"invalid code-block width: %d (must be power of 2, 4-1024)\", p.CodeBlockWidth)\n	}\n", "")],
    "", "CodeBlockWidth")
brk("c17-j2k-drop-tile-validation", ["C17"],
    [("jpeg2000/encoder.go", "	if p.TileWidth < 0 || p.TileHeight < 0 {\n		return fmt.Errorf(\"invalid tile size: %dx%d (must be >= 0, 0 = single tile)\", p.TileWidth, p.TileHeight)\n	}\n", "")],
    "VALIDATE-FIRST", "tile")
benign("c17-benign-validation-in-helper", ["C17"],
    [("jpeg/lossless/encoder.go", "	if width <= 0 || height <= 0 || width > 65535 || height > 65535 {\n		// the frame header stores both dimensions in 16-bit fields\n		return nil, standard.ErrInvalidDimensions\n	}\n",
      "	if !validDims(width, height) {\n		return nil, standard.ErrInvalidDimensions\n	}\n"),
     ("jpeg/lossless/encoder.go", "// Encode encodes pixel data to JPEG Lossless format\n", "func validDims(w, h int) bool { return w >= 1 && h >= 1 && w <= 65535 && h <= 65535 }\n\n// Encode encodes pixel data to JPEG Lossless format\n")])
benign("c17-benign-buffer-check-reordered", ["C17"],
    [("jpeg/baseline/encoder.go", "	if len(pixelData) < width*height*components {", "	if need := width * height * components; need > len(pixelData) {")])
# ---------------------------------------------------------------- C16
brk("c16-psot-forgets-sod", ["C16"],
    [("jpeg2000/encoder.go", "	tilePartLength := len(tileBytes) + tileHeader.Len() + 14 // SOT(12) + header + SOD(2) + data\n	_ = binary.Write(buf, binary.BigEndian, uint32(tilePartLength))\n	_ = binary.Write(buf, binary.BigEndian, uint8(0)) // TPsot\n	_ = binary.Write(buf, binary.BigEndian, uint8(1)) // TNsot\n\n	// Write tile-part header (e.g., RGN)",
      "	tilePartLength := len(tileBytes) + tileHeader.Len() + 12 // SOT(12) + header + data\n	_ = binary.Write(buf, binary.BigEndian, uint32(tilePartLength))\n	_ = binary.Write(buf, binary.BigEndian, uint8(0)) // TPsot\n	_ = binary.Write(buf, binary.BigEndian, uint8(1)) // TNsot\n\n	// Write tile-part header (e.g., RGN)")],
    "BYTES", "writeTile")
brk("c16-psot-omits-tile-header", ["C16"],
    [("jpeg2000/encoder.go", "uint32(len(data)+tileHeader.Len()+14)", "uint32(len(data)+14)")],
    "BYTES", "writeHTJ2KTileParts")
brk("c16-siz-length-off-by-two", ["C16"],
    [("jpeg2000/encoder.go", "uint16(sizData.Len()+2)", "uint16(sizData.Len())")],
    "BYTES", "writeSIZ")
brk("c16-tlm-entry-size-wrong", ["C16"],
    [("jpeg2000/encoder.go", "uint16(4+len(entries)*6)", "uint16(4+len(entries)*4)")],
    "BYTES", "writeTLM")
brk("c16-huffman-fast-path-bypasses-stuffing", ["C16"],
    [("jpeg/standard/huffman_encoder.go", "	if n == 0 {\n		return nil\n	}\n\n	e.bits = (e.bits << uint(n))", "	if n == 0 {\n		return nil\n	}\n	if n == 8 && e.nBits == 0 {\n		// byte-aligned fast path\n		_, err := e.w.Write([]byte{byte(bits)})\n		return err\n	}\n\n	e.bits = (e.bits << uint(n))")],
    "OWNER-SINK", "HuffmanEncoder")
brk("c16-lossless-return-before-eoi", ["C16"],
    [("jpeg/lossless/encoder.go", "	// Write EOI\n	if err := writer.WriteMarker(standard.MarkerEOI); err != nil {", "	if len(samples) == 0 {\n		return buf.Bytes(), nil\n	}\n	// Write EOI\n	if err := writer.WriteMarker(standard.MarkerEOI); err != nil {")],
    "ORDER-FRAMING", "lossless.Encode")
brk("c16-j2k-write-after-eoc", ["C16"],
    [("jpeg2000/encoder.go", "	return buf.Bytes(), nil\n}\n\n// applyCustomMCT", "	buf.WriteByte(0)\n	return buf.Bytes(), nil\n}\n\n// applyCustomMCT")],
    "ORDER-FRAMING", "buildCodestream")
benign("c16-benign-psot-reordered-terms", ["C16"],
    [("jpeg2000/encoder.go", "uint32(len(data)+tileHeader.Len()+14)", "uint32(14+tileHeader.Len()+len(data))")])
benign("c16-benign-length-via-local", ["C16"],
    [("jpeg2000/encoder.go", "	if err := binary.Write(buf, binary.BigEndian, uint16(sizData.Len()+2)); err != nil {", "	lsiz := sizData.Len() + 2\n	if err := binary.Write(buf, binary.BigEndian, uint16(lsiz)); err != nil {")])
# ---------------------------------------------------------------- C09
brk("c09-dht-offset-not-advanced", ["C09"],
    [("jpeg/baseline/decoder.go", "		offset++\n\n		// Read the number of codes for each length\n		table := &standard.HuffmanTable{}\n		totalCodes := 0\n		for i := 0; i < 16; i++ {\n			if offset >= len(data) {\n				return standard.ErrInvalidDHT\n			}\n			table.Bits[i] = int(data[offset])\n			totalCodes += table.Bits[i]\n			offset++\n		}",
      "		// Read the number of codes for each length\n		table := &standard.HuffmanTable{}\n		totalCodes := 0\n		for i := 0; i < 16; i++ {\n			if offset+1+i >= len(data) {\n				return standard.ErrInvalidDHT\n			}\n			table.Bits[i] = int(data[offset+1+i])\n			totalCodes += table.Bits[i]\n		}")],
    "PROGRESS", "parseDHT")
# ---------------------------------------------------------------- C04 / C19
brk("c04-decoder-rlcp-loops-swapped", ["C04", "C19"],
    [("jpeg2000/t2/packet_decoder.go", "func (pd *PacketDecoder) decodeRLCP() ([]Packet, error) {\n	for res := 0; res < pd.numResolutions; res++ {\n		for layer := 0; layer < pd.numLayers; layer++ {",
      "func (pd *PacketDecoder) decodeRLCP() ([]Packet, error) {\n	for layer := 0; layer < pd.numLayers; layer++ {\n		for res := 0; res < pd.numResolutions; res++ {")],
    "EXHAUST-PROG", "RLCP")
brk("c04-encoder-pcrl-dispatched-to-cprl", ["C04"],
    [("jpeg2000/t2/packet_encoder.go", "	case ProgressionPCRL:\n		return pe.encodePCRL(maxLayers)", "	case ProgressionPCRL:\n		return pe.encodeCPRL(maxLayers)")],
    "EXHAUST-PROG", "PCRL")
brk("c04-decoder-case-deleted", ["C04"],
    [("jpeg2000/t2/packet_decoder.go", "	case ProgressionPCRL:\n		return pd.decodeComplete(pd.decodePCRL())\n", "")],
    "EXHAUST-PROG", "")
brk("c19-isot-truncated-to-byte", ["C19"],
    [("jpeg2000/encoder.go", "	_ = binary.Write(buf, binary.BigEndian, uint16(tileIdx)) // Isot", "	_ = binary.Write(buf, binary.BigEndian, uint16(tileIdx&0xFF)) // Isot")],
    "FLOWS-TILEIDX", "writeTile")
benign("c04-benign-rename-loop-variables", ["C04"],
    [("jpeg2000/t2/packet_decoder.go", "func (pd *PacketDecoder) decodeRLCP() ([]Packet, error) {\n	for res := 0; res < pd.numResolutions; res++ {\n		for layer := 0; layer < pd.numLayers; layer++ {",
      "func (pd *PacketDecoder) decodeRLCP() ([]Packet, error) {\n	nRes, nLay := pd.numResolutions, pd.numLayers\n	for res := 0; res < nRes; res++ {\n		for layer := 0; layer < nLay; layer++ {")])
# ---------------------------------------------------------------- C05 / C06
brk("c05-lossless-codec-lossless-from-pcrd-switch", ["C05"],
    [("jpeg2000/lossless/codec.go", "	encParams.EnableMCT = losslessParams.AllowMCT\n", "	encParams.EnableMCT = losslessParams.AllowMCT\n	encParams.Lossless = !losslessParams.UsePCRDOpt\n")],
    "FLOWS-LOSSLESS", "JPEG2000Lossless")
brk("c05-generic-parameter-flips-lossless", ["C05"],
    [("jpeg2000/lossless/codec.go", "	if v := parameters.GetParameter(\"mctAssocType\"); v != nil {", "	if v := parameters.GetParameter(\"irreversible\"); v != nil {\n		if b, ok := v.(bool); ok {\n			encParams.Lossless = !b\n		}\n	}\n	if v := parameters.GetParameter(\"mctAssocType\"); v != nil {")],
    "FLOWS-LOSSLESS", "JPEG2000")
brk("c06-htj2k-lossless-registered-with-lossy-constructor", ["C06"],
    [("jpeg2000/htj2k/codec.go", "	losslessCodec := NewLosslessCodec()\n", "	losslessCodec := NewCodec(80)\n")],
    "FLOWS-LOSSLESS", "HTJ2KLossless")
brk("c06-htj2k-decoder-factory-removed", ["C06"],
    [("jpeg2000/htj2k/codec.go", "		decoder.SetBlockDecoderFactory(func(width, height int, _ int) t2.BlockDecoder {\n			return NewHTDecoder(width, height)\n		})\n", "		_ = t2.BlockDecoder(nil)\n")],
    "FLOWS-HTFACTORY", "")
benign("c05-benign-explicit-true", ["C05", "C06"],
    [("jpeg2000/lossless/codec.go", "	encParams.EnableMCT = losslessParams.AllowMCT\n", "	encParams.EnableMCT = losslessParams.AllowMCT\n	encParams.Lossless = true\n")])
brk("c08-j2k-drop-codeblock-exponent-check", ["C08"],
    [("jpeg2000/codestream/parser.go", "	if cbw > 8 || cbh > 8 || int(cbw)+int(cbh) > 8 {\n		return 0, 0, 0, 0, 0, nil, fmt.Errorf(\"invalid code-block size exponents: %d, %d\", cbw, cbh)\n	}\n", "")],
    "MAKE", "t2")
benign("c16-benign-rename-sink-owner", ["C16"],
    [("jpeg/standard/huffman_encoder.go", "func (e *HuffmanEncoder) writeByte(b byte) error {", "func (e *HuffmanEncoder) emitStuffed(b byte) error {"),
     ("jpeg/standard/huffman_encoder.go", "e.writeByte(", "e.emitStuffed("),
     ("jpeg/standard/huffman_encoder.go", "e.writeByte(", "e.emitStuffed(")])
# ---------------------------------------------------------------- C15
brk("c15-gray-copies-whole-pix", ["C15"],
    [("jpeg/extended/encoder_simple.go", "		pixelData = make([]byte, 0, width*height)\n		for y := bounds.Min.Y; y < bounds.Max.Y; y++ {\n			offset := typed.PixOffset(bounds.Min.X, y)\n			pixelData = append(pixelData, typed.Pix[offset:offset+width]...)\n		}\n",
      "		pixelData = append([]byte(nil), typed.Pix...)\n")],
    "STRIDE", "DecodeSimple")
brk("c15-ycbcr-copies-luma-plane", ["C15"],
    [("jpeg/extended/encoder_simple.go", "	case *image.YCbCr:\n		components = 3\n", "	case *image.YCbCr:\n		if len(typed.Cb) == 0 {\n			return append([]byte(nil), typed.Y...), width, height, 1, 8, nil\n		}\n		components = 3\n")],
    "STRIDE", "DecodeSimple")
benign("c15-benign-stride-field-instead-of-pixoffset", ["C15"],
    [("jpeg/extended/encoder_simple.go", "			offset := typed.PixOffset(bounds.Min.X, y)\n", "			offset := (y-typed.Rect.Min.Y)*typed.Stride + (bounds.Min.X - typed.Rect.Min.X)\n")])
# ---------------------------------------------------------------- C18
brk("c18-lazy-table-in-package-var", ["C18"],
    [("jpeg/baseline/decoder.go", "// Decode decodes JPEG Baseline data\nfunc Decode(jpegData []byte) (pixelData []byte, width, height, components int, err error) {\n",
      "var clampTable []byte\n\n// Decode decodes JPEG Baseline data\nfunc Decode(jpegData []byte) (pixelData []byte, width, height, components int, err error) {\n	if clampTable == nil {\n		clampTable = make([]byte, 768)\n		for i := range clampTable {\n			clampTable[i] = byte(i)\n		}\n	}\n")],
    "NO-GLOBAL-WRITE", "baseline.Decode")
brk("c18-codec-remembers-last-quality", ["C18"],
    [("jpeg/baseline/codec.go", "	quality := baselineParams.Quality\n", "	quality := baselineParams.Quality\n	c.quality = quality\n")],
    "NO-RECEIVER-WRITE", "baseline.Codec")
brk("c18-validate-assigns-unconditionally", ["C18"],
    [("jpegls/nearlossless/parameters.go", "	if p.NEAR < 0 || p.NEAR > 255 {\n		p.NEAR = 3 // Reset to default\n	}\n", "	near := p.NEAR\n	if near < 0 || near > 255 {\n		near = 3 // Reset to default\n	}\n	p.NEAR = near\n")],
    "PARAMS-RO", "Validate")
brk("c18-encode-writes-back-into-parameters", ["C18"],
    [("jpeg/baseline/codec.go", "	quality := baselineParams.Quality\n", "	quality := baselineParams.Quality\n	if parameters != nil {\n		parameters.SetParameter(\"effectiveQuality\", quality)\n	}\n")],
    "PARAMS-RO", "baseline.Codec")
brk("c18-parallel-frames", ["C18"],
    [("rle/rle.go", "	frameCount := oldPixelData.FrameCount()\n	for i := 0; i < frameCount; i++ {\n		srcFrame, err := oldPixelData.GetFrame(i)\n		if err != nil {\n			return fmt.Errorf(\"failed to get frame %d: %w\", i, err)\n		}\n\n		var dstFrame []byte\n		if err := c.decodeFrame(",
      "	frameCount := oldPixelData.FrameCount()\n	done := make(chan struct{})\n	go func() { close(done) }()\n	<-done\n	for i := 0; i < frameCount; i++ {\n		srcFrame, err := oldPixelData.GetFrame(i)\n		if err != nil {\n			return fmt.Errorf(\"failed to get frame %d: %w\", i, err)\n		}\n\n		var dstFrame []byte\n		if err := c.decodeFrame(")],
    "NO-HIDDEN-CONCURRENCY", "rle")
benign("c18-benign-validate-guard-rewritten", ["C18"],
    [("jpegls/nearlossless/parameters.go", "	if p.NEAR < 0 || p.NEAR > 255 {\n		p.NEAR = 3 // Reset to default\n	}\n", "	switch {\n	case p.NEAR < 0, p.NEAR > 255:\n		p.NEAR = 3 // Reset to default\n	}\n")])
# ---------------------------------------------------------------- C10
brk("c10-skip-empty-frames-silently", ["C10"],
    [("jpeg/baseline/codec.go", "		if len(frameData) == 0 {\n			return fmt.Errorf(\"frame %d pixel data is empty\", frameIndex)\n		}\n\n		// Encode using the baseline encoder", "		if len(frameData) == 0 {\n			continue\n		}\n\n		// Encode using the baseline encoder")],
    "ORDER-FRAMES", "baseline.Codec")
brk("c10-frame-loop-starts-at-one", ["C10"],
    [("rle/rle.go", "	frameCount := oldPixelData.FrameCount()\n	for i := 0; i < frameCount; i++ {\n		srcFrame, err := oldPixelData.GetFrame(i)\n		if err != nil {\n			return fmt.Errorf(\"failed to get frame %d: %w\", i, err)\n		}\n\n		var dstFrame []byte\n		if err := c.decodeFrame(",
      "	frameCount := oldPixelData.FrameCount()\n	for i := 1; i < frameCount; i++ {\n		srcFrame, err := oldPixelData.GetFrame(i)\n		if err != nil {\n			return fmt.Errorf(\"failed to get frame %d: %w\", i, err)\n		}\n\n		var dstFrame []byte\n		if err := c.decodeFrame(")],
    "ORDER-FRAMES", "rle")
brk("c10-merge-tile-part-appends-in-place", ["C10"],
    [("jpeg2000/codestream/parser.go", "		merged := make([]byte, 0, len(existing.Data)+len(part.Data))\n		merged = append(merged, existing.Data...)\n		existing.Data = append(merged, part.Data...)\n", "		existing.Data = append(existing.Data, part.Data...)\n")],
    "INPUT-RO", "mergeTilePart")
brk("c10-decoder-sorts-input-in-place", ["C10"],
    [("rle/rle.go", "func (c *Codec) decodeFrame(src []byte,", "func normaliseInput(b []byte) { sort.Slice(b, func(i, j int) bool { return b[i] < b[j] }) }\n\nfunc (c *Codec) decodeFrame(src []byte,"),
     ("rle/rle.go", "import (\n", "import (\n	\"sort\"\n"),
     ("rle/rle.go", "		var dstFrame []byte\n		if err := c.decodeFrame(srcFrame,", "		if len(srcFrame) > 1<<30 {\n			normaliseInput(srcFrame)\n		}\n		var dstFrame []byte\n		if err := c.decodeFrame(srcFrame,")],
    "INPUT-RO", "normaliseInput")
brk("c10-decoder-stops-resetting-bindings", ["C10"],
    [("jpeg2000/decoder.go", "	d.bindings = nil\n", "")],
    "CARRY", "bindings")
brk("c10-encoder-accumulates-statistics-into-output", ["C10"],
    [("jpeg2000/encoder.go", "	openJPEGMainHeaderBytes int\n", "	openJPEGMainHeaderBytes int\n	framesSeen              int\n"),
     ("jpeg2000/encoder.go", "	e.openJPEGMainHeaderBytes = buf.Len()\n", "	e.framesSeen++\n	e.openJPEGMainHeaderBytes = buf.Len() + e.framesSeen\n")],
    "CARRY", "framesSeen")
brk("c10-map-iteration-order-reaches-output", ["C10"],
    [("jpeg2000/t2/packet_encoder.go", "func (pe *PacketEncoder) encodeLRCP(maxLayers int) ([]Packet, error) {\n", "func (pe *PacketEncoder) precinctComponents() []int {\n	var out []int\n	for comp := range pe.precincts {\n		out = append(out, comp)\n	}\n	return out\n}\n\nfunc (pe *PacketEncoder) encodeLRCP(maxLayers int) ([]Packet, error) {\n	_ = pe.precinctComponents()\n")],
    "MAP-RANGE", "precinctComponents")
benign("c10-benign-frame-loop-body-extracted", ["C10"],
    [("rle/rle.go", "		var dstFrame []byte\n		if err := c.decodeFrame(srcFrame, &dstFrame, frameInfo, parameters); err != nil {\n			return fmt.Errorf(\"failed to decode frame %d: %w\", i, err)\n		}\n",
      "		dstFrame, err := c.decodeOne(srcFrame, frameInfo, parameters)\n		if err != nil {\n			return fmt.Errorf(\"failed to decode frame %d: %w\", i, err)\n		}\n"),
     ("rle/rle.go", "func (c *Codec) decodeFrame(src []byte,", "func (c *Codec) decodeOne(src []byte, info *imagetypes.FrameInfo, p codec.Parameters) ([]byte, error) {\n	var dst []byte\n	if err := c.decodeFrame(src, &dst, info, p); err != nil {\n		return nil, err\n	}\n	return dst, nil\n}\n\nfunc (c *Codec) decodeFrame(src []byte,")])

# ---------------------------------------------------------------- refactorings (sub-agent written, behaviour-preserving)
# every one of these made some check alarm or error before the rules were generalised (DESIGN §10.5)
refactor("R1-1", ["C08"])
refactor("R1-2", ["C08"])
refactor("R1-3", ["C08", "C09"])
refactor("R1-4", ["C08", "C09"])
refactor("R1-5", ["C04", "C19"])
refactor("R2-1", ["C17", "C18"])
refactor("R2-2", ["C16", "C18"])
refactor("R2-3", ["C10"])
refactor("R2-4", ["C08", "C10"])
refactor("R2-5", ["C05", "C06", "C10"])
refactor("R3-1", ["C10", "C17"])
refactor("R3-2", ["C16"])
refactor("R3-3", ["C04", "C19"])
refactor("R3-4", ["C16", "C17", "C19"])
refactor("R3-5", ["C10", "C17", "C18"])
refactor("R4-1", ["C16", "C18", "C19"])
refactor("R4-2", ["C10", "C17"])
refactor("R4-3", ["C08", "C19"])
refactor("R4-4", ["C04", "C19"])
refactor("R4-5", ["C05", "C06", "C10", "C18"])
# breaks planted in refactored code: the generalised rules must still see them
brk_on("R3-3", "on-R3-3-rlcp-loops-swapped-in-shared-helper-form", ["C04"],
    [("jpeg2000/t2/packet_encoder.go", "	for res := 0; res < pe.numResolutions; res++ {\n		for layer := 0; layer < maxLayers; layer++ {\n			for comp := 0; comp < pe.numComponents; comp++ {\n				err := pe.appendPrecinctPackets(layer, res, comp, func(precinctIdx int, err error) error {\n					return fmt.Errorf(\"failed to encode packet (R=",
      "	for layer := 0; layer < maxLayers; layer++ {\n		for res := 0; res < pe.numResolutions; res++ {\n			for comp := 0; comp < pe.numComponents; comp++ {\n				err := pe.appendPrecinctPackets(layer, res, comp, func(precinctIdx int, err error) error {\n					return fmt.Errorf(\"failed to encode packet (R=")],
    "EXHAUST-PROG", "RLCP")
brk_on("R3-4", "on-R3-4-psot-argument-forgets-tile-header", ["C16"],
    [("jpeg2000/encoder.go", "	tilePartLength := len(tileBytes) + tileHeader.Len() + tilePartFraming // SOT(12) + header + SOD(2) + data\n	writeSOT(buf, tileIdx, tilePartLength, 0, 1)",
      "	tilePartLength := len(tileBytes) + tilePartFraming // SOT(12) + SOD(2) + data\n	writeSOT(buf, tileIdx, tilePartLength, 0, 1)")],
    "BYTES", "writeTile")
brk_on("R3-4", "on-R3-4-generic-segment-length-excludes-itself", ["C16"],
    [("jpeg2000/encoder.go", "	binary.BigEndian.PutUint16(head[2:4], uint16(len(payload)+2))", "	binary.BigEndian.PutUint16(head[2:4], uint16(len(payload)))")],
    "BYTES", "writeMarkerSegment")
brk_on("R3-4", "on-R3-4-isot-off-by-one-in-helper", ["C19"],
    [("jpeg2000/encoder.go", "	binary.BigEndian.PutUint16(sot[4:6], uint16(tileIdx)) // Isot", "	binary.BigEndian.PutUint16(sot[4:6], uint16(tileIdx+1)) // Isot")],
    "FLOWS-TILEIDX", "writeSOT")
brk_on("R3-4", "on-R3-4-caller-passes-constant-tile-index", ["C19"],
    [("jpeg2000/encoder.go", "	writeSOT(buf, tileIdx, tilePartLength, 0, 1)", "	writeSOT(buf, 0, tilePartLength, 0, 1)")],
    "FLOWS-TILEIDX", "writeSOT")
brk_on("R3-1", "on-R3-1-check-helper-loses-upper-bound", ["C17"],
    [("jpeg/baseline/encoder.go", "	case width <= 0, height <= 0, width > maxFrameDimension, height > maxFrameDimension:", "	case width <= 0, height <= 0:")],
    "NARROW", "writeSOF0")
brk_on("R3-1", "on-R3-1-check-helper-loses-buffer-test", ["C17"],
    [("jpeg/baseline/encoder.go", "	case pixelBytes < width*height*components:\n		return standard.ErrBufferTooSmall\n", "")],
    "BUFFER-CHECK", "baseline")
brk_on("R1-2", "on-R1-2-component-helper-loses-tq-check", ["C08"],
    [("jpeg/baseline/decoder.go", "	if comp.Tq > maxTableID {\n		return nil, false\n	}\n", "")],
    "IDX", "decodeBlock")
brk_on("R1-2", "on-R1-2-component-helper-loses-sampling-check", ["C08"],
    [("jpeg/baseline/decoder.go", "	if comp.H <= 0 || comp.H > maxSampling {\n		return nil, false\n	}\n", "")],
    "DIV", "")
brk_on("R2-4", "on-R2-4-range-loop-skips-last-frame", ["C10"],
    [("rle/rle.go", "	for i := range frameCount {", "	for i := range frameCount - 1 {")],
    "ORDER-FRAMES", "rle")
brk_on("R3-1", "on-R3-1-frame-helper-ignores-index", ["C10"],
    [("jpeg/baseline/codec.go", "	frameData, err := src.GetFrame(frameIndex)", "	frameData, err := src.GetFrame(0)")],
    "ORDER-FRAMES", "baseline")
brk_on("R2-5", "on-R2-5-lossless-field-negated", ["C06"],
    [("jpeg2000/htj2k/codec.go", "	encParams.Lossless = c.lossless\n", "	encParams.Lossless = !c.lossless\n")],
    "FLOWS-LOSSLESS", "htj2k")
brk_on("R2-5", "on-R2-5-lossless-field-reassigned-in-method", ["C06"],
    [("jpeg2000/htj2k/codec.go", "	encParams.Lossless = c.lossless\n", "	if parameters != nil {\n		c.lossless = false\n	}\n	encParams.Lossless = c.lossless\n")],
    "FLOWS-LOSSLESS", "htj2k")

# round 3 (deeper restructurings)
refactor("R5-1", ["C08", "C09"])
refactor("R5-2", ["C08", "C09"])
refactor("R5-3", ["C04", "C19", "C08"])
refactor("R5-4", ["C08", "C10"])
refactor("R5-5", ["C08", "C09"])
refactor("R6-1", ["C08", "C10", "C15", "C18"])
refactor("R6-2", ["C05", "C06", "C10", "C18"])
refactor("R6-3", ["C08", "C10"])
refactor("R6-4", ["C16", "C17", "C18", "C19"])
refactor("R6-5", ["C16", "C18", "C08"])
refactor("R7-1", ["C16", "C17", "C19"])
refactor("R7-2", ["C04", "C16", "C17", "C19"])
refactor("R7-3", ["C10", "C17", "C06"])
refactor("R7-4", ["C16", "C17", "C18"])
refactor("R7-5", ["C16", "C17"])
refactor("R8-1", ["C04", "C19"])
refactor("R8-2", ["C04", "C08", "C09"])
refactor("R8-3", ["C05", "C06", "C10", "C17"])
refactor("R8-4", ["C16", "C17", "C19"])
refactor("R8-5", ["C04", "C18", "C19"])

# breaks planted in round-3 refactored code
brk_on("R6-2", "on-R6-2-frame-callback-skips-empty-output", ["C10"],
    [("jpeg2000/lossless/codec.go", "		if err := newPixelData.AddFrame(encoded); err != nil {\n			return fmt.Errorf(\"failed to add encoded frame %d: %w\", frameIndex, err)\n		}\n		return nil\n	})",
      "		if len(encoded) == 0 {\n			return nil\n		}\n		if err := newPixelData.AddFrame(encoded); err != nil {\n			return fmt.Errorf(\"failed to add encoded frame %d: %w\", frameIndex, err)\n		}\n		return nil\n	})")],
    "ORDER-FRAMES", "lossless")
brk_on("R7-3", "on-R7-3-check-table-loses-code-block-check", ["C17"],
    [("jpeg2000/encoder.go", "		checkCodeBlockSize,\n", "")],
    "DIV", "CodeBlock")
brk_on("R7-1", "on-R7-1-builder-emit-length-excludes-itself", ["C16"],
    [("jpeg2000/encoder_markers.go", "	binary.BigEndian.PutUint16(head[2:4], uint16(len(s.payload)+2))", "	binary.BigEndian.PutUint16(head[2:4], uint16(len(s.payload)))")],
    "BYTES", "emit")
brk_on("R8-1", "on-R8-1-dispatch-table-entries-swapped", ["C04"],
    [("jpeg2000/t2/packet_encoder_order.go", "	ProgressionLRCP: (*PacketEncoder).walkLRCP,\n	ProgressionRLCP: (*PacketEncoder).walkRLCP,", "	ProgressionLRCP: (*PacketEncoder).walkRLCP,\n	ProgressionRLCP: (*PacketEncoder).walkLRCP,")],
    "EXHAUST-PROG", "progression")
brk_on("R7-5", "on-R7-5-bit-writer-appends-raw-byte", ["C16"],
    [("jpeg2000/t2/packet_header_bitio.go", "func (bw *bioWriter) writeBits(value, n int) {\n", "func (bw *bioWriter) writeBits(value, n int) {\n	if n == 8 && bw.free == bioByteBits {\n		bw.data = append(bw.data, byte(value))\n		return\n	}\n")],
    "OWNER-SINK", "bioWriter")
brk_on("R6-1", "on-R6-1-shared-frame-loop-skips-last-frame", ["C10"],
    [("jpeg/baseline/frames.go", "	for frameIndex := range frameCount {", "	for frameIndex := range frameCount - 1 {")],
    "ORDER-FRAMES", "baseline")
brk_on("R6-5", "on-R6-5-raw-emit-helper-called-from-write-bits", ["C16"],
    [("jpeg/standard/huffman_encoder.go", "	if n == 0 {\n		return nil\n	}\n", "	if n == 0 {\n		return nil\n	}\n	if n == 8 && e.nBits == 0 {\n		return e.emit(byte(bits))\n	}\n")],
    "OWNER-SINK", "HuffmanEncoder")
brk_on("R7-2", "on-R7-2-tile-grid-loses-zero-default", ["C17"],
    [("jpeg2000/encoder.go", "	if g.tileWidth == 0 {\n		g.tileWidth = p.Width\n	}\n", "")],
    "DIV", "newTileGrid")

# ---------------------------------------------------------------- independently seeded changes (sub-agents), as reported by the matrix
# every (seed, check) pair that reports today must keep reporting: patch = seeded/<id>/patch.diff
def seed(sid, prop, rule):
    CATALOGUE.append(dict(name='seed-'+sid+'-'+prop, kind='break', props=[prop], edits=[], rule=rule, where='', patch='seeded/'+sid+'/patch.diff'))
seed("C05-2", "C10", "DETERMINISM")
seed("C05-2", "C18", "NO-HIDDEN-CONCURRENCY")
seed("C06-2", "C10", "CARRY")
seed("C06-2", "C16", "ORDER-FRAMING")
seed("C08-4", "C08", "SLICE-UNRELATED")
seed("C08-5", "C08", "IDX")
seed("C09-2", "C09", "PROGRESS")
seed("C10-2", "C18", "NO-RECEIVER-WRITE")
seed("C10-4", "C08", "ASSERT")
seed("C10-4", "C10", "DETERMINISM")
seed("C10-4", "C17", "ASSERT")
seed("C10-4", "C18", "NO-HIDDEN-CONCURRENCY")
seed("C10-5", "C10", "INPUT-RO")
seed("C16-3", "C10", "DETERMINISM")
seed("C16-3", "C16", "ORDER-FRAMING")
seed("C16-3", "C17", "ASSERT")
seed("C16-3", "C18", "NO-HIDDEN-CONCURRENCY")
seed("C16-4", "C10", "CARRY")
seed("C17-1", "C17", "NARROW")
seed("C17-2", "C17", "DIV")
seed("C17-4", "C17", "DIV")
seed("C18-1", "C10", "DETERMINISM")
seed("C18-1", "C17", "ASSERT")
seed("C18-1", "C18", "NO-HIDDEN-CONCURRENCY")
seed("C18-2", "C18", "PARAMS-RO")
seed("C18-3", "C10", "DETERMINISM")
seed("C18-3", "C18", "NO-HIDDEN-CONCURRENCY")
seed("C18-4", "C10", "NO-GLOBAL-STATE")
seed("C18-4", "C18", "NO-GLOBAL-WRITE")
seed("C18-5", "C18", "NO-RECEIVER-WRITE")
seed("C18-6", "C10", "DETERMINISM")
seed("C18-6", "C18", "NO-GLOBAL-WRITE")
seed("C19-2", "C10", "CARRY")
refactor("RX-1", ["C18", "C10"])

# round 4 (ordinary maintenance refactorings R9/R10 and deep restructurings R11/R12)
refactor("R9-1", ["C10", "C18"])
refactor("R9-2", ["C08", "C09"])
refactor("R9-3", ["C08", "C09", "C16"])
refactor("R9-4", ["C08", "C10", "C19"])
refactor("R9-5", ["C08", "C16", "C17", "C04"])
refactor("R10-1", ["C16", "C17"])
refactor("R10-2", ["C16", "C17", "C10"])
refactor("R10-3", ["C04", "C16", "C17", "C19"])
refactor("R10-4", ["C18", "C10", "C05", "C06"])
refactor("R10-5", ["C08", "C09", "C10"])
refactor("R11-1", ["C04", "C19", "C08", "C17"])
refactor("R11-2", ["C15", "C17", "C10"])
refactor("R11-3", ["C10", "C08", "C19"])
refactor("R11-4", ["C16", "C17", "C19"])
refactor("R11-5", ["C05", "C06", "C10", "C16"])
refactor("R12-1", ["C08", "C09"])
refactor("R12-2", ["C08", "C09"])
refactor("R12-3", ["C16", "C17", "C10"])
refactor("R12-4", ["C08", "C09", "C16"])
refactor("R12-5", ["C08", "C10", "C17"])

# breaks planted in round-4 refactored code
brk_on("R10-1", "on-R10-1-geometry-method-loses-upper-bound", ["C17"],
    [("jpeg/lossless14sv1/encoder.go", "	if enc.width <= 0 || enc.height <= 0 || enc.width > fieldMax || enc.height > fieldMax {", "	if enc.width <= 0 || enc.height <= 0 {")],
    "NARROW", "writeSOF3")
brk_on("R9-4", "on-R9-4-sticky-reader-loses-tile-size-check", ["C08"],
    [("jpeg2000/codestream/parser.go", "	if siz.XTsiz == 0 || siz.YTsiz == 0 {\n		return nil, fmt.Errorf(\"invalid tile size in SIZ: %dx%d\", siz.XTsiz, siz.YTsiz)\n	}\n", "")],
    "DIV", "NewTileDecoder")
brk_on("R10-2", "on-R10-2-error-chain-skips-eoi-on-large-scan", ["C16"],
    [("jpegls/lossless/encoder.go", "	if err == nil {\n		err = writer.WriteMarker(standard.MarkerEOI)\n	}\n", "	if err == nil && len(pixelData) < 1<<30 {\n		err = writer.WriteMarker(standard.MarkerEOI)\n	}\n")],
    "ORDER-FRAMING", "encode")
brk_on("R11-3", "on-R11-3-stream-state-no-longer-reset", ["C10"],
    [("jpeg2000/decoder.go", "	d.streamDerived = streamDerived{}\n", "")],
    "CARRY", "Decoder")
brk_on("R12-1", "on-R12-1-frame-header-cursor-asks-for-one-byte-less", ["C08"],
    [("jpeg/lossless14sv1/decoder.go", "	fixed, ok := seg.Next(frameHeaderFixedLen)", "	fixed, ok := seg.Next(frameHeaderFixedLen - 1)")],
    "SLICE-CONST", "readFrameHeader")
brk_on("R10-4", "on-R10-4-limit-helper-writes-unconditionally", ["C18"],
    [("jpeg2000/htj2k/parameters.go", "	switch {\n	case *field < lowest:\n		*field = lowest\n	case *field > highest:\n		*field = highest\n	}", "	*field = max(lowest, min(*field, highest))")],
    "PARAMS-RO", "limitTo")

# ---------------------------------------------------------------- round 5: ordinary maintenance refactorings (R13..R16) and breaks planted in them
refactor("R13-1", ["C08", "C09", "C16"])
refactor("R13-2", ["C08", "C09", "C10", "C16", "C17"])
refactor("R13-3", ["C08", "C09", "C10", "C16", "C17"])
refactor("R13-4", ["C08", "C09", "C10"])
refactor("R13-5", ["C08", "C10", "C17"])
refactor("R14-1", ["C08", "C09"])
refactor("R14-2", ["C08", "C10", "C19"])
refactor("R14-3", ["C04", "C08", "C09"])
refactor("R14-4", ["C08", "C09", "C10"])
refactor("R14-5", ["C08", "C09"])
refactor("R15-1", ["C16", "C17", "C18"])
refactor("R15-2", ["C16", "C17", "C10"])
refactor("R15-3", ["C16", "C17", "C18"])
refactor("R15-4", ["C04", "C16", "C17", "C19"])
refactor("R15-5", ["C04", "C16", "C18", "C10"])
refactor("R16-1", ["C05", "C06", "C10", "C18"])
refactor("R16-2", ["C08", "C10", "C17", "C18"])
refactor("R16-3", ["C05", "C06", "C10", "C18"])
refactor("R16-4", ["C05", "C06", "C18", "C10"])
refactor("R16-5", ["C10", "C16", "C17", "C19"])

def benign_on(rid, name, props, edits):
    CATALOGUE.append(dict(name=name, kind="benign", props=props, edits=edits, rule="", where="", patch="seeded/refactors/" + rid + "/patch.diff"))

brk_on("R15-1", "on-R15-1-argument-helper-loses-buffer-case", ["C17"],
    [("jpeg/baseline/encoder.go", "	case pixelBytes < width*height*components:\n		return standard.ErrBufferTooSmall\n", "")],
    "BUFFER-CHECK", "Encode")
brk_on("R16-2", "on-R16-2-frame-cursor-never-started", ["C10"],
    [("jpegls/lossless/codec.go", "	// Process all frames\n	if err := frames.start(); err != nil {\n		return err\n	}\n	width, height :=", "	width, height :=")],
    "ORDER-FRAMES", "Encode")
brk_on("R16-2", "on-R16-2-frame-cursor-fetches-next-index", ["C10"],
    [("jpegls/lossless/codec.go", "	frameData, err := fs.src.GetFrame(index)", "	frameData, err := fs.src.GetFrame(index + 1)")],
    "ORDER-FRAMES", "frame")
brk_on("R16-4", "on-R16-4-inner-constructor-not-lossless", ["C06"],
    [("jpeg2000/htj2k/codec.go", "	return &Codec{transferSyntax: ts, lossless: true}", "	return &Codec{transferSyntax: ts, lossless: false}")],
    "FLOWS-LOSSLESS", "HTJ2KLossless")
brk_on("R16-4", "on-R16-4-normalize-writes-unconditionally", ["C18"],
    [("jpeg2000/htj2k/parameters.go", "	if *field != want {\n		*field = want\n	}", "	*field = want")],
    "PARAMS-RO", "normalize")
brk_on("R16-4", "on-R16-4-decoder-setup-regenerates-tables-on-odd-lengths", ["C18"],
    [("jpeg2000/htj2k/vlc_decoder_optimized.go", "	if VLCDecodeTbl0[0].CwdLen == 0 && VLCTbl0[0].CwdLen != 0 {\n		_ = GenerateVLCTables()\n	}", "	if len(data)&1 == 1 {\n		_ = GenerateVLCTables()\n	}")],
    "NO-GLOBAL-WRITE", "fillVLCDecodeTable")
_open_helper = [
    ("jpeg2000/encoder.go", "	// SOC (Start of Codestream) opens the main header.\n	writeMarker(buf, codestream.MarkerSOC)\n", "	// SOC and SIZ open the main header.\n	if err := e.openCodestream(buf); err != nil {\n		return nil, err\n	}\n"),
    ("jpeg2000/encoder.go", "		{\"SIZ\", e.writeSIZ},                // Image and Tile Size\n", ""),
    ("jpeg2000/encoder.go", "// writeTileParts appends all tile-parts after the main header.", "func (e *Encoder) openCodestream(buf *bytes.Buffer) error {\n	writeMarker(buf, codestream.MarkerSOC)\n	return e.writeSIZ(buf)\n}\n\n// writeTileParts appends all tile-parts after the main header."),
]
benign_on("R15-4", "on-R15-4-soc-and-siz-in-an-opening-helper", ["C16", "C17"], _open_helper)
brk_on("R15-4", "on-R15-4-opening-helper-and-eoc-dropped", ["C16"],
    _open_helper + [("jpeg2000/encoder.go", "	// EOC (End of Codestream)\n	writeMarker(buf, codestream.MarkerEOC)\n\n	return buf.Bytes(), nil", "	return buf.Bytes(), nil")],
    "ORDER-FRAMING", "openCodestream")
brk_on("R14-5", "on-R14-5-sentinel-helper-returns-bare-copy", ["C08"],
    [("jpeg2000/mqc/mqc.go", "	return append(buf, 0xFF, 0xFF)", "	return buf"),
     ("jpeg2000/mqc/mqc.go", "	if mqc.dataLen != 0 {\n		first = uint32(mqc.data[0])\n	}", "	if mqc.dataLen >= 0 {\n		first = uint32(mqc.data[0])\n	}")],
    "SLICE-CONST", "init")

# seeded change C08-1 made correct in two different ways: the unordered-difference witness must fall silent
CATALOGUE.append(dict(name="on-C08-1-offsets-validated-monotonic-at-parse", kind="benign", props=["C08"], rule="", where="", patch="seeded/C08-1/patch.diff",
    edits=[("rle/rle.go", "		dec.offsets[i] = int(offset)\n", "		if i > 0 && i < int(numSegments) && int(offset) < dec.offsets[i-1] {\n			return nil, fmt.Errorf(\"RLE segment %d starts before segment %d\", i, i-1)\n		}\n		dec.offsets[i] = int(offset)\n")]))
CATALOGUE.append(dict(name="on-C08-1-negative-length-rejected-at-use", kind="benign", props=["C08"], rule="", where="", patch="seeded/C08-1/patch.diff",
    edits=[("rle/rle.go", "	offset := d.getSegmentOffset(segment)\n	return d.data[offset : offset+d.getSegmentLength(segment)]", "	offset := d.getSegmentOffset(segment)\n	n := d.getSegmentLength(segment)\n	if n < 0 {\n		n = 0\n	}\n	return d.data[offset : offset+n]")]))
seed("C08-1", "C08", "SLICE-ORDER")

# ---------------------------------------------------------------- round 6 (R17..R20): performance, API clean-up, consolidation, readability
refactor("R17-1", ["C16", "C17", "C08"])
refactor("R17-2", ["C16", "C08", "C09", "C10"])
refactor("R17-3", ["C16", "C17", "C19", "C04"])
refactor("R17-4", ["C08", "C09"])
refactor("R17-5", ["C08", "C10", "C17", "C06"])
refactor("R19-1", ["C16", "C17", "C08", "C15"])
refactor("R19-2", ["C05", "C06", "C10", "C18", "C17"])
refactor("R19-3", ["C04", "C08", "C09", "C16"])
refactor("R19-4", ["C16", "C19", "C17", "C04"])
refactor("R19-5", ["C08", "C09", "C10", "C19"])
refactor("R20-1", ["C04", "C08", "C09", "C16"])
refactor("R20-2", ["C08", "C09", "C10", "C19"])
refactor("R20-3", ["C08", "C09", "C16"])
refactor("R20-4", ["C08", "C09", "C10", "C16", "C17"])
refactor("R20-5", ["C05", "C06", "C08", "C10", "C18"])
refactor("RX-2", ["C16", "C04"])

brk_on("R19-2", "on-R19-2-shared-frame-loop-skips-empty-results", ["C10"],
    [("codec/frames.go", "		if err := dst.AddFrame(converted); err != nil {", "		if len(converted) == 0 {\n			continue\n		}\n		if err := dst.AddFrame(converted); err != nil {")],
    "ORDER-FRAMES", "ConvertFrames")
brk_on("R19-2", "on-R19-2-shared-frame-loop-starts-at-one", ["C10"],
    [("codec/frames.go", "	for frameIndex := range frameCount {", "	for frameIndex := 1; frameIndex < frameCount; frameIndex++ {")],
    "ORDER-FRAMES", "ConvertFrames")
brk_on("R19-2", "on-R19-2-ht-decoder-factory-returns-ebcot-decoder", ["C06"],
    [("jpeg2000/htj2k/codec.go", "	htBlocks := func(width, height int, _ int) t2.BlockDecoder {\n		return NewHTDecoder(width, height)\n	}", "	htBlocks := func(width, height int, cblkstyle int) t2.BlockDecoder {\n		return t1.NewT1Decoder(width, height, cblkstyle)\n	}")],
    "FLOWS-HTFACTORY", "HTJ2K")
brk_on("R19-4", "on-R19-4-builder-length-excludes-itself", ["C16"],
    [("jpeg2000/encoder_markers.go", "	binary.BigEndian.PutUint16(length[:], uint16(len(s.payload)+2))", "	binary.BigEndian.PutUint16(length[:], uint16(len(s.payload)))")],
    "BYTES", "appendTo")
brk_on("R19-4", "on-R19-4-tile-part-psot-forgets-header", ["C16"],
    [("jpeg2000/encoder_markers.go", "uint32(len(tp.data)+len(tp.header)+tilePartFraming))", "uint32(len(tp.data)+tilePartFraming))")],
    "BYTES", "tilePart")
brk_on("R20-2", "on-R20-2-com-payload-guard-too-small", ["C08"],
    [("jpeg2000/decoder.go", "		if len(com.Data) <= comMCTHeaderLen {\n			continue\n		}\n		rows :=", "		if len(com.Data) <= comMagicLen+1 {\n			continue\n		}\n		rows :=")],
    "SLICE-CONST", "mctFromCOM")

# round 7: seeded change C16-1 (SOT / tile-part body helpers; the global-RD path's Psot omits the tile header) is reported
# once plain body helpers are expanded into their writes; its repaired twin must stay silent
seed("C16-1", "C16", "BYTES")
CATALOGUE.append(dict(name="on-seed-C16-1-repaired-psot-argument", kind="benign", props=["C16", "C19"],
    edits=[("jpeg2000/encoder.go", "writeSOT(buf, tile.idx, len(tileBytes), 0, 1)", "writeSOT(buf, tile.idx, tileHeader.Len()+len(tileBytes), 0, 1)")],
    rule="", where="", patch="seeded/C16-1/patch.diff"))

# ALLOC-READBUF (C09 memory clause): seeded change C09-4 (tile-part body copied into make([]byte, Psot-consumed)
# before the bounds check) and its repaired twins
seed("C09-4", "C09", "ALLOC-READBUF")
CATALOGUE.append(dict(name="on-seed-C09-4-length-compared-with-input-first", kind="benign", props=["C09", "C08"],
    edits=[("jpeg2000/codestream/parser.go", "	body := make([]byte, int(psot)-consumed)\n",
            "	if int(psot)-consumed > len(p.data)-p.offset {\n		return p.readTileData()\n	}\n	body := make([]byte, int(psot)-consumed)\n")],
    rule="", where="", patch="seeded/C09-4/patch.diff"))
CATALOGUE.append(dict(name="on-seed-C09-4-length-checked-by-helper", kind="benign", props=["C09"],
    edits=[("jpeg2000/codestream/parser.go", "	body := make([]byte, int(psot)-consumed)\n",
            "	if !p.holds(int(psot) - consumed) {\n		return p.readTileData()\n	}\n	body := make([]byte, int(psot)-consumed)\n"),
           ("jpeg2000/codestream/parser.go", "func componentIndexSize(", "func (p *Parser) holds(n int) bool { return n >= 0 && n <= len(p.data)-p.offset }\n\nfunc componentIndexSize(")],
    rule="", where="", patch="seeded/C09-4/patch.diff"))
# OWNER-SINK and buffered coders: the repaired twin of seeded change C10-9 must stay silent; a raw store into
# the staging buffer must be reported
refactor("RX-3", ["C16", "C10", "C18"])
brk_on("RX-3", "on-RX-3-raw-store-into-staging-buffer", ["C16"],
    [("jpeg/standard/huffman_encoder.go", "	e.bits = (e.bits << uint(n)) | (bits & ((1 << uint(n)) - 1))\n",
      "	if n == 8 && e.nBits == 0 && e.n < huffmanEncoderChunk {\n		e.out[e.n] = byte(bits)\n		e.n++\n		return nil\n	}\n	e.bits = (e.bits << uint(n)) | (bits & ((1 << uint(n)) - 1))\n")],
    "OWNER-SINK", "HuffmanEncoder")

# exponential allocation through a trip count (1 << bitsLen(maxVal)): seeded changes C09-3 / C09-9 build a LUT of
# 2*(1<<bits_per_pixel) entries. Since fix d72aaa6 the JPEG-LS decoders validate the precision, so the patches alone are
# harmless (benign entries); with the validation taken out again they must be reported.
UNFIX_JLS = [("jpegls/lossless/decoder.go", "	if dec.bitDepth < 2 || dec.bitDepth > 16 {\n		return standard.ErrInvalidPrecision\n	}\n", ""),
             ("jpegls/nearlossless/decoder.go", "	if dec.bitDepth < 2 || dec.bitDepth > 16 {\n		return standard.ErrInvalidPrecision\n	}\n", "")]
for sid in ("C09-3", "C09-9"):
    CATALOGUE.append(dict(name="seed-"+sid+"-on-validated-precision", kind="benign", props=["C08", "C09", "C17"], edits=[], rule="", where="", patch="seeded/"+sid+"/patch.diff"))
    CATALOGUE.append(dict(name="seed-"+sid+"-precision-unvalidated-C08", kind="break", props=["C08"], edits=UNFIX_JLS, rule="MAKE", where="NewGradientQuantizerFor", patch="seeded/"+sid+"/patch.diff"))
    CATALOGUE.append(dict(name="seed-"+sid+"-precision-unvalidated-C09", kind="break", props=["C09"], edits=UNFIX_JLS, rule="ALLOC-EXP", where="NewGradientQuantizerFor", patch="seeded/"+sid+"/patch.diff"))

# ---------------------------------------------------------------- round 4 (DESIGN 10.10)
seed("C01-2", "C10", "OUTPUT-VIEW")
seed("C20-1", "C10", "DETERMINISM")
seed("C20-1", "C18", "NO-HIDDEN-CONCURRENCY")
brk("c16-lossless-sof3-constant-precision", ["C16"],
    [("jpeg/lossless/encoder.go", "	data[0] = byte(enc.precision)   // Precision", "	data[0] = 16   // Precision")],
    "FLOWS-HEADER", "lossless.Encode")
brk("c16-nearlossless-sos-constant-near", ["C16"],
    [("jpegls/nearlossless/encoder.go", "	data[length-3] = byte(enc.near)", "	data[length-3] = 0")],
    "FLOWS-HEADER", "nearlossless.Encode")
refactor("R21-1", ["C08", "C16", "C17"])
refactor("R21-2", ["C08", "C09"])
refactor("R21-3", ["C08", "C16"])
refactor("R21-4", ["C08", "C16", "C17"])
refactor("R21-5", ["C08", "C10", "C16"])
refactor("R22-2", ["C08", "C09"])
refactor("R24-1", ["C10", "C18"])
refactor("R24-3", ["C10", "C18", "C05"])
refactor("R24-4", ["C10", "C06", "C18"])
refactor("R24-5", ["C10", "C08"])
refactor("R22-3", ["C04", "C19", "C08"])
refactor("R23-1", ["C08", "C09", "C10", "C17"])
refactor("R23-3", ["C08", "C09"])
refactor("R23-4", ["C08", "C09", "C16"])
