#!/usr/bin/env python3
"""Mutation self-test of the checkers (DESIGN §7).

Each catalogue entry is a small textual edit of a scratch copy of /repo (never /repo itself):
  kind = "break":   the edit breaks a property; the named rule must report the named construct
  kind = "benign":  a behaviour-preserving edit; the named properties must stay silent (exit 0)
An entry may start from a patch file (the refactorings under seeded/refactors, written by independent
sub-agents): alone it is a benign entry; followed by edits it is a break planted in refactored code.
Scratch copies live under $TMPDIR (default /tmp) and are removed as soon as analysed.
Usage: run.py [--only NAME_SUBSTR] [--prop Cxx] [-j N]
Exit 0 if every entry behaved as expected, 2 otherwise (a self-test failure means the checker is
unreliable; it is never reported as a VIOLATION of /repo).
"""
import json, os, shutil, subprocess, sys, tempfile, concurrent.futures, argparse

HERE = os.path.dirname(os.path.abspath(__file__))
VERIF = os.path.dirname(HERE)
# a private copy of the analyser: rebuilding bin/dcmcheck during a long run must not mix versions
import tempfile, atexit
BIN = os.path.join(tempfile.mkdtemp(prefix="dcm-bin-", dir=os.environ.get("TMPDIR", "/tmp")), "dcmcheck")
shutil.copy2(os.path.join(VERIF, "bin", "dcmcheck"), BIN)
atexit.register(lambda: shutil.rmtree(os.path.dirname(BIN), ignore_errors=True))
REPO = os.environ.get("VERIF_REPO", "/repo")

def load_catalogue():
    ns = {}
    exec(open(os.path.join(HERE, "catalogue.py")).read(), ns)
    return ns["CATALOGUE"]

def run_one(entry):
    tmp = tempfile.mkdtemp(prefix="dcm-mut-", dir=os.environ.get("TMPDIR", "/tmp"))
    copy = os.path.join(tmp, "repo")
    try:
        shutil.copytree(REPO, copy, ignore=shutil.ignore_patterns(".git", "test-data", "*.dcm"))
        if entry.get("patch"):
            r = subprocess.run(["patch", "-p1", "-s", "-i", os.path.join(VERIF, entry["patch"])], cwd=copy, capture_output=True, text=True)
            if r.returncode != 0:
                return (entry, "STALE", f"patch {entry['patch']} does not apply: {(r.stdout + r.stderr)[:120]}")
        for (path, old, new) in entry["edits"]:
            p = os.path.join(copy, path)
            s = open(p).read()
            if s.count(old) < 1:
                return (entry, "STALE", f"edit anchor not found in {path}: {old[:60]!r}")
            s = s.replace(old, new, 1)
            open(p, "w").write(s)
        results = []
        ok = True
        for prop in entry["props"]:
            r = subprocess.run([BIN, "-prop", prop, "-repo", copy, "-verif", VERIF, "-no-evidence"],
                               capture_output=True, text=True)
            out = r.stdout + r.stderr
            viol = [l for l in out.splitlines() if l.startswith("  rule=")]
            if entry["kind"] == "break":
                hit = [l for l in viol if entry["rule"] in l and entry.get("where", "") in l]
                good = r.returncode == 1 and len(hit) > 0
                results.append(f"{prop}: exit={r.returncode} matching={len(hit)} total_violations={len(viol)}")
            else:
                good = r.returncode == 0
                results.append(f"{prop}: exit={r.returncode} violations={len(viol)}" + ("" if good else " :: " + " | ".join(viol[:3]) + " ".join(l for l in out.splitlines() if l.startswith("CHECK-ERROR"))[:300]))
            ok = ok and good
        return (entry, "OK" if ok else "FAIL", "; ".join(results))
    finally:
        shutil.rmtree(tmp, ignore_errors=True)

def main():
    ap = argparse.ArgumentParser()
    ap.add_argument("--only", default="")
    ap.add_argument("--prop", default="")
    ap.add_argument("-j", type=int, default=4)
    ap.add_argument("--json", default="")
    a = ap.parse_args()
    cat = [e for e in load_catalogue() if a.only in e["name"] and (not a.prop or a.prop in e["props"])]
    bad = 0
    rows = []
    with concurrent.futures.ThreadPoolExecutor(max_workers=a.j) as ex:
        for entry, status, detail in ex.map(run_one, cat):
            print(f"{status:5s} {entry['kind']:6s} {entry['name']:45s} {detail}")
            rows.append({"name": entry["name"], "kind": entry["kind"], "status": status, "detail": detail})
            if status != "OK":
                bad += 1
    if a.json:
        json.dump(rows, open(a.json, "w"), indent=1)
    print(f"selftest: {len(cat)-bad}/{len(cat)} entries behaved as expected")
    sys.exit(0 if bad == 0 else 2)

if __name__ == "__main__":
    main()
