#!/bin/bash
# Builds bin/dcmcheck from files on disk and the module cache only (offline).
set -euo pipefail
cd "$(dirname "$0")"
. ./env.sh
mkdir -p bin evidence reports
(cd analyzer && go build -o ../bin/dcmcheck ./cmd/dcmcheck)
echo "setup: built bin/dcmcheck with $(go version)"
