#!/bin/bash
# validates MANIFEST.json and every evidence file against the schemas
cd "$(dirname "$0")"
python3-vt - <<'PY'
import json,jsonschema,glob,sys
jsonschema.validate(json.load(open('MANIFEST.json')),json.load(open('/root/.vp/MANIFEST.schema.json')))
es=json.load(open('/root/.vp/EVIDENCE.schema.json'))
for f in sorted(glob.glob('evidence/*.json')):
    jsonschema.validate(json.load(open(f)),es)
    print('valid',f)
print('manifest valid')
PY
